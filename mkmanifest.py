#!/usr/bin/env python3
"""Writes MANIFEST.json from the table below (single source of truth for the interface)."""
import json, subprocess

CHECKS = {
 # id: (engine, level, technique, level text, level note, design_ref)
 "C06": ("muxdiff", "model_checking",
         "TLA+ routing reference (ResMux.tla: most-specific match, params, group templates, acceptance rules): TLC model-checks that the most specific match is well defined for every conflict-free pattern set of the bound, and judges every registration outcome and every GetHandler result recorded from real Mux configurations (all mount arrangements) against the reference (TraceMux.tla)",
         "Bounded-exhaustive model checking of the routing order plus conformance of the real mux on enumerated and random configurations x names; a violation is a real registration outcome or lookup result (or a lookup panic) that contradicts the reference.",
         "Acceptance is judged only where the documentation is unambiguous (valid, conflict-free => accepted; invalid pattern/group, duplicate structure => rejected); otherwise the implementation's outcome is taken and routing judged on the accepted set. Handler identity observed through a marker call method.",
         "4.2 C06"),
 "C09": ("subs", "model_checking",
         "TLA+ ownership/subscription reference (ResSubs.tla): TLC model-checks the subscription planner (MCSubs) for every ownership configuration of the bound against Coverage/NonRedundant/ValidSubjects/Exactness, and judges the subscriptions and system.reset payloads recorded from real Serve runs on a recording connection for every configuration of the bound (TraceSubs.tla)",
         "Model checking of the planner design plus conformance of the real service on enumerated configurations: a violation is an observed subscription list or reset payload that fails a clause of the reference.",
         "The recording connection stands for the NATS server; NATS subject matching is the reference's NMatches; ownership entries that are not valid subjects are not judged.",
         "4.2 C09"),
 "C17": ("pattern", "model_checking",
         "TLA+ reference grammar (ResPattern.tla): TLC model-checks the grammar's relations exhaustively over all string pairs up to the bound, and judges every recorded call of the real pattern operations (bounded-exhaustive + seeded random inputs) against the reference (TracePattern.tla)",
         "Bounded-exhaustive model checking of the token-wise grammar plus conformance of every real Pattern/validity operation result on all strings up to the bound; a violation is a real call whose result differs from the reference.",
         "Characters outside 33..126 form one class; operations documented as undefined on invalid patterns are not judged there; strings longer than the bound are sampled randomly.",
         "4.2 C17"),
}

NOT_YET = {}

def main():
    hooks_commits = subprocess.run(["git","-C","/repo","log","--format=%h","--grep=^verif:"],capture_output=True,text=True).stdout.split()
    props = [json.loads(l)["id"] for l in open("/verif/properties.jsonl")]
    checks = []
    for pid in props:
        if pid not in CHECKS: continue
        eng, level, tech, text, note, ref = CHECKS[pid]
        checks.append({
            "property_id": pid,
            "quick_cmd": f"./vcheck {pid} --tier quick",
            "thorough_cmd": f"./vcheck {pid} --tier thorough",
            "evidence_file": f"/verif/evidence/{pid}.json",
            "replay_cmd_template": f"./vcheck {pid} --replay {{path}}",
            "engine": eng,
            "level_claimed": {"category": level, "text": text, "design_ref": ref},
            "level_note": note,
            "technique": tech,
        })
    na = [{"property_id": p, "reason": NOT_YET.get(p, "check not built yet in this round; see DESIGN.md build order")} for p in props if p not in CHECKS]
    m = {
        "version": 1,
        "setup_cmd": "./setup.sh",
        "hooks": {
            "guard": "verif",
            "enable": "go build -tags verif (the harness module replaces github.com/jirenius/go-res with /repo)",
            "baseline_off_cmd": "cd /repo && go test -mod=mod -json -vet=off -count=1 -timeout 25m ./...",
            "source_commits": hooks_commits,
            "add_only": True,
        },
        "engines": [],
        "checks": checks,
        "not_applicable": na,
        "notes": "All checks are driven by ./vcheck, which rebuilds harness/ against /repo's working tree with -tags verif. TLA+ specifications are in spec/. Known and fixed findings are in KNOWN_FINDINGS.json.",
    }
    engs = {}
    for pid,(eng,*_) in CHECKS.items():
        engs.setdefault(eng, []).append(pid)
    m["engines"] = [{"name": e, "path": f"harness/internal/{e}", "serves_properties": sorted(ps), "kind_free_text": "Go driver on the real code + TLC on spec/*.tla"} for e,ps in sorted(engs.items())]
    json.dump(m, open("/verif/MANIFEST.json","w"), indent=1)
    print("checks:", len(checks), "not_applicable:", len(na))
if __name__ == "__main__":
    main()

#!/usr/bin/env python3
"""Writes MANIFEST.json from the table below (single source of truth for the interface)."""
import json, subprocess

CHECKS = {
 # id: (engine, level, technique, level text, level note, design_ref)
 "C01": ("sched", "model_checking",
         "TLA+ scheduler specification (ResSched.tla, one action per critical section of runWith/startWorker/processQueue/close): TLC checks MutualExclusion exhaustively for all interleavings of the MCSched configurations; TLC counterexamples of the unrepaired model and tlc -simulate behaviours are replayed on the real service through gate hooks, plus pairwise hook-point windows and perturbed stress; every real run is judged by occupancy monitors and by TLC evaluating the observer specification TraceSchedObs.tla on the recorded event trace; in addition the hook-event log of a sample of the runs is validated action by action as a behaviour of ResSched itself (TraceSched.tla: in-lock hooks are linearization points, lock-free steps are silent actions pinned by the next event)",
         "Exhaustive model checking of the design for small configurations (2-3 workers, 2 producers, Shutdown at any point, restart) bound to the code by replaying model behaviours into the real goroutines and by TLC judging the observation traces of all real runs; a violation is two callbacks of one group observed executing at once on the real service.",
         "Harness callbacks stand for user handlers; steps inside sync primitives cannot be gated (replayed as closely as possible); group of a submission is taken from the real routing.",
         "4.0 C01"),
 "C02": ("sched", "model_checking",
         "same machinery as C01; properties FifoPrefix, AtMostOnce, ExactlyOnce, Accounted, AppendOnly and the liveness property AcceptedRuns of ResSched.tla model-checked by TLC; on the real runs the enqueue order is taken from events logged under the service mutex and compared with callback start order by monitors and by TLC (TraceSchedObs clauses order/twice/lost/refused-ran)",
         "Exhaustive model checking of order/exactly-once for the MCSched configurations plus TLC-judged observation traces of replayed, windowed and stressed real runs; a violation is a real callback that ran out of enqueue order, twice, after being refused, or not at all without a Shutdown.",
         "Submission order is the order of runWith's critical sections (in-lock hook sequence numbers); exactly-once is judged only for runs in which no Shutdown raced with the submissions.",
         "4.0 C02"),
 "C03": ("sched", "model_checking",
         "same machinery as C01; safety (NoPanic, AfterShutdown, NoLateStart, deadlock freedom with an explicit Terminated step) and liveness under weak fairness (ShutdownReturns, ServeReturns) of ResSched.tla model-checked by TLC including a restart cycle; every counterexample of the model with the repairs switched off (RecheckUnderLock/GuardedConn = FALSE) is replayed on the real service; monitors: Shutdown/Serve watchdog with goroutine-dump classification, panic capture in every role and child-process crash detection, callbacks relative to Shutdown's return, worker exits, Close count",
         "Model checking of shutdown safety+liveness and restart, bound to the code by gate replay of model behaviours (including the model's own counterexamples as adversarial schedules) and TLC-judged observation traces; a violation is a real hang, panic, late callback, surviving worker or wrong close count.",
         "Bounded time is the 3 s watchdog after all gates are opened; callbacks terminate; restart is explored both after the previous Serve call has returned and overtaking it (immediate-restart programs and loops).",
         "4.0 C03"),
 "C04": ("reqsim", "model_checking",
         "TLA+ request specification (ResRequest.tla: dispatch, reply funnel, recover, meta, event methods as one step function): TLC model-checks ExactlyOne/AtMostOne for every scenario of the bound x every handler script of up to 2 (thorough: 3) steps; request scenarios (every step alone, step pairs, the dispatch space, seeded random scripts) are executed on the real service over a recording connection and every request becomes a record judged by TLC against the reference outcome Run(sc) (TraceRequest.tla clauses C04:exactly-one, C04:survives)",
         "Bounded-exhaustive model checking of the request state machine plus conformance of real request executions; a violation is a real request with zero or two responses, a service that stops answering, or a handler panic that kills the process.",
         "Scripts use only methods of the request type's interface; absence of a reply is final once the rq.done hook has fired; panics that kill the process are observed in a child process.",
         "4.1 C04"),
 "C05": ("reqsim", "model_checking",
         "TLA+ request specification (ResRequest.tla: dispatch, reply funnel, recover, meta, event methods as one step function): TLC model-checks Dispatch for every scenario of the bound x every handler script of up to 2 (thorough: 3) steps; request scenarios (every step alone, step pairs, the dispatch space, seeded random scripts) are executed on the real service over a recording connection and every request becomes a record judged by TLC against the reference outcome Run(sc) (TraceRequest.tla clauses C05:dispatch, C05:unaltered, C05:response)",
         "As C04; a violation is a real request for which another handler ran than the reference selects, the handler saw data that differs from what was sent, or the response differs from the reference mapping (notFound / methodNotFound / internalError / verbatim *Error).",
         "Request data are atoms for TLC (equality only); the pools contain quotes, unicode, nested JSON, empty values; resource names include method-like tokens.",
         "4.1 C05"),
 "C07": ("reqsim", "model_checking",
         "TLA+ request specification (ResRequest.tla: dispatch, reply funnel, recover, meta, event methods as one step function): TLC model-checks MetaOnlyHttp and the message sequence for every scenario of the bound x every handler script of up to 2 (thorough: 3) steps; request scenarios (every step alone, step pairs, the dispatch space, seeded random scripts) are executed on the real service over a recording connection and every request becomes a record judged by TLC against the reference outcome Run(sc) (TraceRequest.tla clauses C07:wellformed, C07:meta, C07:messages)",
         "As C04; every message published while a request is processed is parsed by an independent protocol parser (subject forms, JSON shapes per message class, pre-response format) and compared with the reference message sequence; a violation is a malformed or unexpected real message.",
         "The harness' protocol parser is the trusted base; connection ids are protocol-conformant; unmarshalable values are channels.",
         "4.1 C07"),
 "C08": ("reqsim", "model_checking",
         "TLA+ request specification (ResRequest.tla: dispatch, reply funnel, recover, meta, event methods as one step function): TLC model-checks EventOrder/ProgramOrder/NoPublishOnFailure for every scenario of the bound x every handler script of up to 2 (thorough: 3) steps; request scenarios (every step alone, step pairs, the dispatch space, seeded random scripts) are executed on the real service over a recording connection and every request becomes a record judged by TLC against the reference outcome Run(sc) (TraceRequest.tla clauses C08:log, C08:order)",
         "As C04; apply handlers, the connection and listeners append to one log; a violation is a real log that differs from the reference interleaving (apply, publish, listeners in order; nothing after a failed or no-op apply; program order).",
         "Listeners are registered on the resource pattern; the step index of the script is attached to every log entry by the harness.",
         "4.1 C08"),
 "C06": ("muxdiff", "model_checking",
         "TLA+ routing reference (ResMux.tla: most-specific match, params, group templates, acceptance rules): TLC model-checks that the most specific match is well defined for every conflict-free pattern set of the bound, and judges every registration outcome and every GetHandler result recorded from real Mux configurations (all mount arrangements) against the reference (TraceMux.tla)",
         "Bounded-exhaustive model checking of the routing order plus conformance of the real mux on enumerated and random configurations x names; a violation is a real registration outcome or lookup result (or a lookup panic) that contradicts the reference.",
         "Acceptance is judged only where the documentation is unambiguous (valid, conflict-free => accepted; invalid pattern/group, duplicate structure => rejected); otherwise the implementation's outcome is taken and routing judged on the accepted set. Handler identity observed through a marker call method.",
         "4.2 C06"),
 "C09": ("subs", "model_checking",
         "TLA+ ownership/subscription reference (ResSubs.tla): TLC model-checks the subscription planner (MCSubs) for every ownership configuration of the bound against Coverage/NonRedundant/ValidSubjects/Exactness, and judges the subscriptions and system.reset payloads recorded from real Serve runs on a recording connection for every configuration of the bound (TraceSubs.tla)",
         "Model checking of the planner design plus conformance of the real service on enumerated configurations: a violation is an observed subscription list or reset payload that fails a clause of the reference.",
         "The recording connection stands for the NATS server; NATS subject matching is the reference's NMatches; ownership entries that are not valid subjects are not judged.",
         "4.2 C09"),
 "C10": ("storesim", "model_checking",
         "TLA+ reference client (ResClient.tla: fold of change/add/remove/create/delete events with index-range checks): TLC model-checks the fold against a reference differ for all pairs of the bound (MCClient); every store mutation on the real store handler - exhaustively all ordered pairs of short collections/models, and create/update/delete histories over 24 handler configurations - is recorded as (get before, published events, get after) and judged by TLC (TraceClient.tla clauses coherent/silent/minimal/rid)",
         "Bounded-exhaustive conformance of the real diffing with a model-checked client semantics; a violation is a real mutation after which a client that applied the published events differs from a fresh get, an event out of range when applied, an event for an unchanged representation, or an event on a wrong resource id.",
         "Values are canonical JSON texts (atoms); a create event makes the client fetch; served representation = response to a real get request.",
         "4.3 C10"),
 "C11": ("storesim", "model_checking",
         "TLA+ store specification (ResStore.tla: sequential per-id map reference SeqStep/FirstBad; ResStoreConc.tla: goroutines opening read/write transactions under the per-id lock): TLC model-checks ExclusiveWrite and Chain over all interleavings of the bound; random sequential histories and concurrent histories (reduced to per-id sequential histories via the order in which Write/Read returned, with an interval-overlap check) on badgerstore (8 configurations, real BadgerDB) and mockstore are judged call by call by TLC (TraceStore.tla)",
         "Model checking of the transaction/lock design plus conformance of every call result, read value and change callback of real store histories with the map reference; a violation is a real call whose result, value or callbacks deviate, or two overlapping transactions on one id.",
         "Values are atoms; when two failure reasons coincide (wrong type on an existing/missing id, empty id) either error is accepted; mockstore is untyped.",
         "4.3 C11"),
 "C12": ("crash", "fault_enumeration",
         "TLA+ durability specification (ResDurable.tla: disk = fold of acknowledged calls, Init as one atomic seed+marker step; MCDurable.tla: start/commit/ack with Crash at every step and Reopen): TLC model-checks DurableInv/InitOnce/NeverHalfSeeded; a child process runs seeded workloads on a real BadgerDB, fsyncs an acknowledgement per successful call and is SIGKILLed at each instrumented kill point (7 hooks) at several occurrences or at random times; the parent reopens, reads back, re-runs Init, rebuilds and queries the indexes; each run is a record judged by TLC (TraceDurable: Durable, ReInitOK, rebuild)",
         "Fault enumeration over instrumented crash points bound to a model-checked durability specification; a violation is a real post-crash database that is not a possible outcome of the acknowledged calls (plus the call in flight, fully or not at all), seeds duplicated/resurrected/half-written by a second Init, or an index that disagrees with the values after RebuildIndexes.",
         "Crash = SIGKILL (page cache survives); crash points inside BadgerDB's commit path are only sampled by random-time kills.",
         "4.3 C12"),
 "C13": ("storesim", "model_checking",
         "TLA+ index specification (ResIndex.tla: RefQuery = sorted, filtered, windowed scan; MCIndex.tla: mutation / index task take-commit-notify / Flush with the shipped and the sentinel design): TLC model-checks AfterFlush for all interleavings of the bound; on a real BadgerDB query store random mutation histories are followed by Flush and random queries (prefixes incl. NUL bytes, filter, offset, limit, direction), and Flush is raced against an index task held at the bs.idx.start hook; every query is a record judged by TLC (TraceIndex: got = RefQuery)",
         "Model checking of the Flush/index-task design plus conformance of real query results with the reference scan; a violation is a real query after a returned Flush whose result differs from the reference.",
         "Keys and ids contain no NUL byte; the harness keeps its own copy of the store content (updated on successful mutations).",
         "4.3 C13"),
 "C14": ("storesim", "model_checking",
         "same specifications as C13 (MCIndex invariants NotifiedAfterCommit, ChainPerId; ResIndex MustAffect/MustNotAffect): on a real BadgerDB query store every key-changing mutation's QueryChange.Events(q) is evaluated for random queries and judged by TLC against RefQuery-before # RefQuery-after (must affect) and neither-key-matches (must not affect); callback count/order/after-commit per history; histories through store.QueryHandler on a recording connection (ordinary and query resources): a reset or query event whenever the served result differs",
         "Model checking of callback ordering plus conformance of the real affected-flag and callbacks; a violation is a missed invalidation, a spurious one at the stated boundary, a wrong callback count/order, a callback before the index commit, or a changed served result without reset/query event.",
         "Query-change Events() of badgerstore reports only the reset flag (no event lists); the client-side replay of query events is covered by C15/C10 machinery, here only 'told whenever the result differs' is judged end to end.",
         "4.3 C14"),
 "C18": ("wire", "model_checking",
         "TLA+ wire specification (ResWire.tla: abstract JSON, Classify into primitive/reference/soft reference/data/delete/invalid, SameValue, Wrapped): TLC model-checks totality, the equivalence properties of SameValue and the protocol clauses over every pair of objects of the bound (MCWire); JSON texts of abstract values (systematic small objects over the protocol's member names, random deeper values; random whitespace and key order) are classified and compared by the real store.Value, round-tripped through Ref/SoftRef and MarshalDataValue/UnmarshalDataValue, and responses of a real service for every handler outcome are parsed with resprot; every observation is a record judged by TLC (TraceWire.tla)",
         "Bounded-exhaustive model checking of classification/equality plus conformance of the real codecs; a violation is a real classification, equality verdict, round trip or parsed envelope that deviates from the reference.",
         "Strings and numbers are atoms for TLC: the every-UTF-8-string clause is exercised through a pool plus random strings and compared with encoding/json (exploration-level part); ambiguous member combinations (rid with data, wrongly typed soft/rid/action) are invalid, following the implementation.",
         "4.4 C18"),
 "C19": ("sendreq", "model_checking",
         "TLA+ SendRequest specification (ResSendReq.tla: discrete-time fold of an inbox script - silences, timeout pre-responses, malformed pre-responses, responses - into outcome, return time and reported extensions; failures of marshal/subscribe/publish): TLC model-checks FirstReal/TimeoutLater/FailFast/ExtensionsReported for every script of the bound (MCSendReq); real resprot.SendRequest calls over an embedded nats-server with a responder playing every short script and random longer ones on a coarse, staggered time grid, and with failing connection operations; outcome, extensions, promptness and the connection's subscription count before/after are records judged by TLC (TraceSendReq.tla)",
         "Exhaustive model checking of the deadline logic plus conformance of real timed executions; a violation is a real call that returns another class than the reference, reports other extensions, waits on a failure, or leaves its inbox subscription on the connection.",
         "Coarse ticks (60 ms) with deliveries staggered between ticks so that none coincides with a deadline; runs whose duration is off by more than a tick are discarded, never judged.",
         "4.4 C19"),
 "C20": ("legacy", "model_checking",
         "TLA+ fold specification of the legacy middleware (ResLegacy.tla: LStep per event = applicability, effect on the stored value, whether it is published, listener old values; LFirstBad folds an observed history) on top of the reference client ResClient.tla: TLC model-checks every event sequence of the bound (MCLegacy: a client applying the published events holds what is served); random event histories from With callbacks on 10 configurations of both packages on a real BadgerDB are recorded per event (published?, listener payload, get response, Value()) and after close/reopen, and judged by TLC (TraceLegacy.tla)",
         "Model checking of the fold semantics plus conformance of real event histories; a violation is a real event whose publication, listener payload, served value or Value() deviates from the fold, or a served value that differs after reopening the database.",
         "Values are canonical JSON texts; the removed value handed to remove listeners and the publication of a delete event on a missing resource are outside the property and not judged.",
         "4.3 C20"),
 "C15": ("qevent", "model_checking",
         "TLA+ query-event specification (ResQueryEvent.tla: subscribe, deliver, listener take/enqueue, timer, drain, end-with-nil, callback, release): TLC model-checks AtMostOneReply/NilAtMostOnce/NilLast/FailedSub and the liveness properties Answered/Ends/Released; counterexamples of the shipped design (ListenerEndsQuery=FALSE) and tlc -simulate behaviours of the repaired design are replayed on the real service through gates in the listener and the expiry path; random histories, subscription failures, long histories; one record per real query event judged by TLC (TraceQueryObs.tla)",
         "Exhaustive model checking (3 requests, channel capacity 2, failing subscription) with safety and liveness, bound to the code by gate replay of model behaviours and TLC-judged records of real query events; a violation is a real query event with a missing/duplicate reply, a missing, repeated or non-final nil call, or a listener goroutine left running.",
         "The recording connection stands for NATS (a drained subscription keeps its channel); the worker group is abstracted to a FIFO (C01/C02); release is observed in the goroutine dump.",
         "4.0 C15"),
 "C16": ("racer", "exploration",
         "Go race detector on a -race build of the real library driven by concurrent client programs (requests of all types, With*/Reset*/Token* calls, store transactions and index queries on foreign goroutines, query events, Shutdown at random moments) with yield-only instrumentation hooks; the shared-field/lock discipline these programs exercise is the one modelled in ResSched.tla (every field an action touches is touched inside the action's critical section or is atomic)",
         "Exploration: the race detector reports unsynchronised conflicting accesses that occur in the explored executions (seeded; perturbed at every hook point outside critical sections). TLA+ cannot decide memory-level races; it contributes the lock discipline and the schedules.",
         "Only races that happen in explored executions are reported; reports whose access stacks contain no go-res frame are attributed to dependencies; hooks perform no synchronisation.",
         "4.0 C16"),
 "C17": ("pattern", "model_checking",
         "TLA+ reference grammar (ResPattern.tla): TLC model-checks the grammar's relations exhaustively over all string pairs up to the bound, and judges every recorded call of the real pattern operations (bounded-exhaustive + seeded random inputs) against the reference (TracePattern.tla)",
         "Bounded-exhaustive model checking of the token-wise grammar plus conformance of every real Pattern/validity operation result on all strings up to the bound; a violation is a real call whose result differs from the reference.",
         "Characters outside 33..126 form one class; operations documented as undefined on invalid patterns are not judged there; strings longer than the bound are sampled randomly.",
         "4.2 C17"),
}

NOT_YET = {}

# the configuration life-cycle binding (engine cfglife, ResConfig.tla) runs inside these checks and reports the
# deviations that concern the property
CONFIG_PART = {
 "C03": "worker count, in-channel size and the panic of guarded setters on a running service",
 "C08": "the connection events go out on (also through a Resource value kept from an earlier life)",
 "C09": "queue group, subscription subjects and the ownership announced by resets",
 "C15": "the query event duration",
}

def main():
    hooks_commits = subprocess.run(["git","-C","/repo","log","--format=%h","--grep=^verif:"],capture_output=True,text=True).stdout.split()
    props = [json.loads(l)["id"] for l in open("/verif/properties.jsonl")]
    checks = []
    for pid in props:
        if pid not in CHECKS: continue
        eng, level, tech, text, note, ref = CHECKS[pid]
        if pid in CONFIG_PART:
            tech += "; in addition behaviours of ResConfig.tla (the configuration of a Service over its lives: setters, Serve, Shutdown; model-checked by TLC, MCConfig) - tlc -simulate behaviours, the counterexample of the model in which settings are carried over from the first life, and directed two-life runs - are replayed on one real Service value and every run is judged by TLC (TraceConfig.tla), here for " + CONFIG_PART[pid]
        checks.append({
            "property_id": pid,
            "quick_cmd": f"./vcheck {pid} --tier quick",
            "thorough_cmd": f"./vcheck {pid} --tier thorough",
            "evidence_file": f"/verif/evidence/{pid}.json",
            "replay_cmd_template": f"./vcheck {pid} --replay {{path}}",
            "engine": eng,
            "level_claimed": {"category": level, "text": text, "design_ref": ref},
            "level_note": note,
            "technique": tech,
        })
    na = [{"property_id": p, "reason": NOT_YET.get(p, "check not built yet in this round; see DESIGN.md build order")} for p in props if p not in CHECKS]
    m = {
        "version": 1,
        "setup_cmd": "./setup.sh",
        "hooks": {
            "guard": "verif",
            "enable": "go build -tags verif (the harness module replaces github.com/jirenius/go-res with /repo)",
            "baseline_off_cmd": "cd /repo && go test -mod=mod -json -vet=off -count=1 -timeout 25m ./...",
            "source_commits": hooks_commits,
            "add_only": True,
        },
        "engines": [],
        "checks": checks,
        "not_applicable": na,
        "notes": "All checks are driven by ./vcheck, which rebuilds harness/ against /repo's working tree with -tags verif. TLA+ specifications are in spec/. Known and fixed findings are in KNOWN_FINDINGS.json.",
    }
    engs = {}
    for pid,(eng,*_) in CHECKS.items():
        engs.setdefault(eng, []).append(pid)
    engs["cfglife"] = sorted(CONFIG_PART)
    m["engines"] = [{"name": e, "path": f"harness/internal/{e}", "serves_properties": sorted(ps), "kind_free_text": "Go driver on the real code + TLC on spec/*.tla"} for e,ps in sorted(engs.items())]
    json.dump(m, open("/verif/MANIFEST.json","w"), indent=1)
    print("checks:", len(checks), "not_applicable:", len(na))
if __name__ == "__main__":
    main()

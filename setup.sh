#!/bin/bash
# Builds the harness (plain and -race) from files on disk only; warms the Go build cache.
cd "$(dirname "$0")" || exit 1
export GOFLAGS=-mod=mod GOPROXY=off GOSUMDB=off GOTOOLCHAIN=local
mkdir -p bin out evidence
( cd harness && go build -tags verif -o ../bin/engine ./cmd/engine && go build -race -tags verif -o ../bin/engine-race ./cmd/engine ) || exit 1
java -cp /opt/veriftools/tla/tla2tools.jar tlc2.TLC -h >/dev/null 2>&1
echo setup ok

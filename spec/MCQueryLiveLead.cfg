SPECIFICATION FairSpec
CONSTANTS
  Reqs = {"r1", "r2", "r3"}
  Cap = 2
  SubscribeCanFail = FALSE
  ListenerEndsQuery = FALSE
INVARIANTS AtMostOneReply NilAtMostOnce NilLast FailedSub
PROPERTIES Released
CHECK_DEADLOCK FALSE

------------------------------ MODULE ResSched ------------------------------
(***************************************************************************)
(* Service life cycle, per-group work queues, worker pool, Shutdown and     *)
(* restart of go-res (service.go: Serve/serve, Shutdown, close, runWith;    *)
(* worker.go: startWorker, processQueue).  Properties C01, C02, C03, C16.    *)
(*                                                                         *)
(* One action per critical section of the code, or per step between two     *)
(* critical sections:                                                       *)
(*                                                                         *)
(*   RwCheck(p)      runWith: load state; not started => callback dropped   *)
(*   RwEnqueue(p)    runWith: Lock; rwork lookup; new work appended to the  *)
(*                   work queue | callback appended to the live work; Unlock*)
(*   RwSignal(p)     runWith: workcond.Signal (only after a new work)       *)
(*   WkLock(w)       startWorker: first Lock, then the dispatch loop up to  *)
(*                   the next point where the mutex is released             *)
(*   WkReacquire(w)  return from workcond.Wait (mutex re-acquired)          *)
(*   WkRelock(w)     processQueue: callback returned, Lock, next callback   *)
(*                   of the same work | retire the work and dispatch        *)
(*   SdCas .. SdStopped   Shutdown/close, one step per statement            *)
(*   SvCas .. SvReturn    Serve/serve                                       *)
(*   ApiCheck/ApiUse(a)   Reset/ResetAll/TokenEvent/TokenReset: started-    *)
(*                   check, later use of the connection                     *)
(*                                                                         *)
(* Go facts the properties depend on: append to a nil slice gives a non-nil *)
(* slice; Cond.Wait registers the waiter before releasing the mutex and     *)
(* re-acquires it before returning; WaitGroup.Wait returns when the counter *)
(* is zero; calling a method on a nil interface panics.                     *)
(*                                                                         *)
(* Deviation switches (the real code's behaviour is the default):           *)
(*   RecheckUnderLock  runWith re-checks "closing" (work queue nil) under   *)
(*                     the lock and drops the callback (the repaired code)  *)
(*   GuardedConn       event publication reads the connection under the     *)
(*                     mutex and refuses when it is nil (the repaired code) *)
(*   PerCycleWG        every serve cycle has its own WaitGroup (the repaired *)
(*                     code); with one shared WaitGroup a restart that       *)
(*                     overtakes the previous Serve call, still inside Wait, *)
(*                     can make sync.WaitGroup panic ("reused before         *)
(*                     previous Wait has returned")                          *)
(*                                                                         *)
(* Restart: the service can be served again as soon as Shutdown has returned *)
(* (state stopped); the previous Serve call may not have returned yet - it   *)
(* is then counted in `old` and returns on its own (OldServeReturn).         *)
(***************************************************************************)
EXTENDS Naturals, Sequences, FiniteSets, TLC, SequencesExt

CONSTANTS
    Workers,            \* worker ids
    Producers,          \* goroutines submitting callbacks (With*, listener)
    ApiCallers,         \* goroutines calling Reset/TokenEvent/... or emitting events
    Groups,             \* worker group ids
    Par,                \* the id of the Parallel pseudo group (wid "")
    Nil,                \* model value: nil work queue
    MaxCycles,          \* number of Serve/Shutdown cycles explored
    RecheckUnderLock,   \* BOOLEAN
    GuardedConn,        \* BOOLEAN
    PerCycleWG,         \* BOOLEAN
    SubscribeMayFail,   \* BOOLEAN: explore the path on which Serve cannot subscribe and shuts itself down
    StartMayFail,       \* BOOLEAN: explore Serve/ListenAndServe calls that fail before anything is started
    ResetOnFailedStart  \* BOOLEAN: such a call puts the state back to stopped (the repaired design)

\* Script[p]: the groups producer p submits to, in program order (defined by the MC module)
CONSTANT Script

VARIABLES
    state,      \* "stopped" | "starting" | "started" | "stopping"
    wq,         \* Nil, or the sequence of work ids waiting for a worker
    rwork,      \* [Groups -> work id or 0]: the live work of a group
    wkq,        \* [work id -> Seq(callback)]: callbacks of a work, in append order
    nw,         \* number of work items created so far
    wpc,        \* [Workers -> "none"|"init"|"parked"|"woken"|"run"|"done"]
    cur,        \* [Workers -> work id being processed or 0]
    idx,        \* [Workers -> number of callbacks of cur already taken]
    wg,         \* WaitGroup counter
    ppc,        \* [Producers -> "idle"|"checked"|"signal"]
    pk,         \* [Producers -> index of the next submission]
    apc,        \* [ApiCallers -> "idle"|"checked"|"done"]
    sdpc,       \* Shutdown caller: "idle"|"nil"|"bcast"|"connclose"|"inch"|"wait"|"clear"|"stopped"|"returned"
    svpc,       \* Serve caller: "idle"|"init"|"started"|"subscribing"|"listen"|"failwait"|"wait"|"returned"
    nc,         \* "nil" | "set"
    closes,     \* how often the connection was closed
    cycle,      \* number of completed Serve calls
    old,        \* number of overtaken Serve calls (a later Serve started) that have not returned yet
    \* ---- history (observation only; hidden by the VIEW in exhaustive runs) ----
    subm,       \* [Groups -> Seq(callback)]: enqueue order per group
    strt,       \* [Groups -> Seq(callback)]: start order per group
    done,       \* set of callbacks that finished
    refused,    \* set of callbacks dropped as not-started
    lost,       \* callbacks accepted before Shutdown began
    accepted,   \* every callback that was enqueued
    panicked,   \* a nil connection was used / other Go panic
    lateStart   \* a callback started after Shutdown had returned (and before a restart)

vars == <<state, wq, rwork, wkq, nw, wpc, cur, idx, wg, ppc, pk, apc, sdpc, svpc, nc, closes, cycle, old,
          subm, strt, done, refused, lost, accepted, panicked, lateStart>>
view == <<state, wq, rwork, wkq, nw, wpc, cur, idx, wg, ppc, pk, apc, sdpc, svpc, nc, closes, cycle, old, panicked, lateStart>>

SeqSet(s) == {s[i] : i \in 1..Len(s)}
Cb(p) == <<p, pk[p]>>
GroupOfCb(cb) == Script[cb[1]][cb[2]]
WorkGroup(id) == GroupOfCb(wkq[id][1])

Init ==
    /\ state = "stopped" /\ wq = Nil /\ rwork = [g \in Groups |-> 0]
    /\ wkq = <<>> /\ nw = 0
    /\ wpc = [w \in Workers |-> "none"] /\ cur = [w \in Workers |-> 0] /\ idx = [w \in Workers |-> 0]
    /\ wg = 0
    /\ ppc = [p \in Producers |-> "idle"] /\ pk = [p \in Producers |-> 1]
    /\ apc = [a \in ApiCallers |-> "idle"]
    /\ sdpc = "idle" /\ svpc = "idle" /\ nc = "nil" /\ closes = 0 /\ cycle = 0 /\ old = 0
    /\ subm = [g \in Groups \cup {Par} |-> <<>>] /\ strt = [g \in Groups \cup {Par} |-> <<>>]
    /\ done = {} /\ refused = {} /\ lost = {} /\ accepted = {} /\ panicked = FALSE /\ lateStart = FALSE

\* ---------------------------------------------------------------------------
\* The worker's dispatch loop, entered with the mutex held.  q, rw are the
\* values of wq, rwork at that moment.  Result: the new <<wq, rwork, pc, cur>>.
\* ---------------------------------------------------------------------------
Dispatch(q, rw) ==
    IF q = Nil THEN [wq |-> q, rwork |-> rw, pc |-> "done", cur |-> 0]
    ELSE IF q = <<>> THEN [wq |-> q, rwork |-> rw, pc |-> "parked", cur |-> 0]
    ELSE [wq |-> Tail(q), rwork |-> rw, pc |-> "run", cur |-> Head(q)]

\* bookkeeping when worker w leaves a dispatch with outcome d, having (maybe) finished callback fin
Apply(w, d, fin) ==
    /\ wq' = d.wq /\ rwork' = d.rwork
    /\ wpc' = [wpc EXCEPT ![w] = d.pc]
    /\ cur' = [cur EXCEPT ![w] = d.cur]
    /\ idx' = [idx EXCEPT ![w] = IF d.pc = "run" THEN 1 ELSE 0]
    /\ wg' = IF d.pc = "done" THEN wg - 1 ELSE wg
    /\ done' = done \cup fin
    /\ IF d.pc = "run"
       THEN LET cb == wkq[d.cur][1] g == GroupOfCb(cb) IN
            /\ strt' = [strt EXCEPT ![g] = Append(@, cb)]
            /\ lateStart' = (lateStart \/ sdpc = "returned")
       ELSE UNCHANGED <<strt, lateStart>>

WkLock0(w) ==
    /\ wpc[w] = "init"
    /\ Apply(w, Dispatch(wq, rwork), {})
    /\ UNCHANGED <<state, wkq, nw, ppc, pk, apc, sdpc, svpc, nc, closes, cycle, subm, refused, lost, accepted, panicked>>

WkReacquire0(w) ==
    /\ wpc[w] = "woken"
    /\ Apply(w, Dispatch(wq, rwork), {})
    /\ UNCHANGED <<state, wkq, nw, ppc, pk, apc, sdpc, svpc, nc, closes, cycle, subm, refused, lost, accepted, panicked>>

\* the running callback returns; Lock; continue with the same work or retire it
WkRelock0(w) ==
    /\ wpc[w] = "run"
    /\ LET id == cur[w]
           fin == {wkq[id][idx[w]]}
       IN IF Len(wkq[id]) > idx[w]
          THEN \* next callback of the same work: mutex released again, still "run"
               LET cb == wkq[id][idx[w] + 1] g == GroupOfCb(cb) IN
               /\ idx' = [idx EXCEPT ![w] = @ + 1]
               /\ done' = done \cup fin
               /\ strt' = [strt EXCEPT ![g] = Append(@, cb)]
               /\ lateStart' = (lateStart \/ sdpc = "returned")
               /\ UNCHANGED <<wq, rwork, wpc, cur, wg>>
          ELSE \* retire: delete(rwork, wid) unless Parallel, then the outer loop
               LET g == WorkGroup(id)
                   rw == IF g = Par THEN rwork ELSE [rwork EXCEPT ![g] = 0]
               IN Apply(w, Dispatch(wq, rw), fin)
    /\ UNCHANGED <<state, wkq, nw, ppc, pk, apc, sdpc, svpc, nc, closes, cycle, subm, refused, lost, accepted, panicked>>

\* ---------------------------------------------------------------------------
\* runWith
\* ---------------------------------------------------------------------------
HasNext(p) == pk[p] <= Len(Script[p])

RwCheck0(p) ==
    /\ ppc[p] = "idle" /\ HasNext(p)
    /\ IF state = "started"
       THEN /\ ppc' = [ppc EXCEPT ![p] = "checked"]
            /\ UNCHANGED <<pk, refused>>
       ELSE /\ refused' = refused \cup {Cb(p)}
            /\ pk' = [pk EXCEPT ![p] = @ + 1]
            /\ UNCHANGED ppc
    /\ UNCHANGED <<state, wq, rwork, wkq, nw, wpc, cur, idx, wg, apc, sdpc, svpc, nc, closes, cycle,
                   subm, strt, done, lost, accepted, panicked, lateStart>>

RwEnqueue0(p) ==
    /\ ppc[p] = "checked"
    /\ LET cb == Cb(p) g == GroupOfCb(cb) IN
       IF RecheckUnderLock /\ wq = Nil
       THEN \* repaired code: closing detected under the lock, callback dropped
            /\ refused' = refused \cup {cb}
            /\ ppc' = [ppc EXCEPT ![p] = "idle"] /\ pk' = [pk EXCEPT ![p] = @ + 1]
            /\ UNCHANGED <<wq, rwork, wkq, nw, subm, lost, accepted>>
       ELSE /\ subm' = [subm EXCEPT ![g] = Append(@, cb)]
            /\ lost' = IF sdpc = "idle" THEN lost \cup {cb} ELSE lost   \* accepted before Shutdown began
            /\ accepted' = accepted \cup {cb}
            /\ IF g # Par /\ rwork[g] # 0
               THEN /\ wkq' = [wkq EXCEPT ![rwork[g]] = Append(@, cb)]
                    /\ ppc' = [ppc EXCEPT ![p] = "idle"] /\ pk' = [pk EXCEPT ![p] = @ + 1]
                    /\ UNCHANGED <<wq, rwork, nw>>
               ELSE /\ nw' = nw + 1
                    /\ wkq' = Append(wkq, <<cb>>)
                    /\ rwork' = IF g = Par THEN rwork ELSE [rwork EXCEPT ![g] = nw + 1]
                    /\ wq' = IF wq = Nil THEN <<nw + 1>> ELSE Append(wq, nw + 1)   \* append(nil, w) is non-nil
                    /\ ppc' = [ppc EXCEPT ![p] = "signal"]
                    /\ UNCHANGED pk
            /\ UNCHANGED refused
    /\ UNCHANGED <<state, wpc, cur, idx, wg, apc, sdpc, svpc, nc, closes, cycle, strt, done, panicked, lateStart>>

Parked == {w \in Workers : wpc[w] = "parked"}

RwSignal0(p) ==
    /\ ppc[p] = "signal"
    /\ \/ /\ Parked = {} /\ UNCHANGED wpc
       \/ \E w \in Parked : wpc' = [wpc EXCEPT ![w] = "woken"]
    /\ ppc' = [ppc EXCEPT ![p] = "idle"] /\ pk' = [pk EXCEPT ![p] = @ + 1]
    /\ UNCHANGED <<state, wq, rwork, wkq, nw, cur, idx, wg, apc, sdpc, svpc, nc, closes, cycle,
                   subm, strt, done, refused, lost, accepted, panicked, lateStart>>

\* ---------------------------------------------------------------------------
\* API calls that publish (Reset, ResetAll, TokenEvent, TokenReset, events)
\* ---------------------------------------------------------------------------
ApiCheck0(a) ==
    /\ apc[a] = "idle"
    /\ apc' = [apc EXCEPT ![a] = IF state = "started" THEN "checked" ELSE "done"]
    /\ UNCHANGED <<state, wq, rwork, wkq, nw, wpc, cur, idx, wg, ppc, pk, sdpc, svpc, nc, closes, cycle,
                   subm, strt, done, refused, lost, accepted, panicked, lateStart>>
ApiUse0(a) ==
    /\ apc[a] = "checked"
    /\ apc' = [apc EXCEPT ![a] = "done"]
    /\ panicked' = (panicked \/ (nc = "nil" /\ ~GuardedConn))
    /\ UNCHANGED <<state, wq, rwork, wkq, nw, wpc, cur, idx, wg, ppc, pk, sdpc, svpc, nc, closes, cycle,
                   subm, strt, done, refused, lost, accepted, lateStart>>

\* ---------------------------------------------------------------------------
\* Shutdown / close
\* ---------------------------------------------------------------------------
SdStep(from, to) == sdpc = from /\ sdpc' = to
\* (the caller is a user goroutine, or the goroutine Serve starts when it could not subscribe)
SdCas0 == /\ sdpc = "idle" /\ state = "started" /\ svpc \in {"subscribing", "listen", "failwait"}
         /\ state' = "stopping" /\ sdpc' = "nil"
         /\ UNCHANGED <<wq, rwork, wkq, nw, wpc, cur, idx, wg, ppc, pk, apc, svpc, nc, closes, cycle,
                        subm, strt, done, refused, lost, accepted, panicked, lateStart>>
ClNil0 == /\ SdStep("nil", "bcast") /\ wq' = Nil
         /\ UNCHANGED <<state, rwork, wkq, nw, wpc, cur, idx, wg, ppc, pk, apc, svpc, nc, closes, cycle,
                        subm, strt, done, refused, lost, accepted, panicked, lateStart>>
ClBroadcast0 == /\ SdStep("bcast", "connclose")
               /\ wpc' = [w \in Workers |-> IF wpc[w] = "parked" THEN "woken" ELSE wpc[w]]
               /\ UNCHANGED <<state, wq, rwork, wkq, nw, cur, idx, wg, ppc, pk, apc, svpc, nc, closes, cycle,
                              subm, strt, done, refused, lost, accepted, panicked, lateStart>>
ClConnClose0 == /\ SdStep("connclose", "inch") /\ closes' = closes + 1
               /\ UNCHANGED <<state, wq, rwork, wkq, nw, wpc, cur, idx, wg, ppc, pk, apc, svpc, nc, cycle,
                              subm, strt, done, refused, lost, accepted, panicked, lateStart>>
ClCloseInCh0 == /\ SdStep("inch", "wait")
               /\ UNCHANGED <<state, wq, rwork, wkq, nw, wpc, cur, idx, wg, ppc, pk, apc, svpc, nc, closes, cycle,
                              subm, strt, done, refused, lost, accepted, panicked, lateStart>>
SdWait0 == /\ SdStep("wait", "clear") /\ wg = 0
          /\ UNCHANGED <<state, wq, rwork, wkq, nw, wpc, cur, idx, wg, ppc, pk, apc, svpc, nc, closes, cycle,
                         subm, strt, done, refused, lost, accepted, panicked, lateStart>>
SdClear0 == /\ SdStep("clear", "stopped") /\ nc' = "nil"
           /\ UNCHANGED <<state, wq, rwork, wkq, nw, wpc, cur, idx, wg, ppc, pk, apc, svpc, closes, cycle,
                          subm, strt, done, refused, lost, accepted, panicked, lateStart>>
SdStopped0 == /\ SdStep("stopped", "returned") /\ state' = "stopped"
             /\ UNCHANGED <<wq, rwork, wkq, nw, wpc, cur, idx, wg, ppc, pk, apc, svpc, nc, closes, cycle,
                            subm, strt, done, refused, lost, accepted, panicked, lateStart>>

\* ---------------------------------------------------------------------------
\* Serve / serve.  The listener's requests are the submissions of the
\* producers (a listener is a producer whose program order is channel order).
\* ---------------------------------------------------------------------------
\* Serve: CAS stopped -> starting.  After a Shutdown has returned the previous Serve call may still be
\* in its listener loop or in its final Wait: it is overtaken and finishes on its own.
\* (cycle + old + the call in progress = number of Serve calls made so far)
SvCas == /\ state = "stopped" /\ cycle + old + (IF svpc \in {"idle", "returned"} THEN 0 ELSE 1) < MaxCycles
         /\ \/ svpc = "idle"
            \/ svpc \in {"returned", "listen", "wait", "failwait"} /\ sdpc = "returned"
         /\ state' = "starting" /\ svpc' = "init"
         /\ sdpc' = "idle"
         /\ old' = IF svpc \in {"listen", "wait", "failwait"} THEN old + 1 ELSE old
         /\ UNCHANGED <<wq, rwork, wkq, nw, wpc, cur, idx, wg, ppc, pk, apc, nc, closes, cycle,
                        subm, strt, done, refused, lost, accepted, panicked, lateStart>>
\* an overtaken Serve call returns (its workers are gone since the Shutdown of its cycle returned)
OldServeReturn == /\ old > 0 /\ old' = old - 1 /\ cycle' = cycle + 1
                  /\ UNCHANGED <<state, wq, rwork, wkq, nw, wpc, cur, idx, wg, ppc, pk, apc, sdpc, svpc, nc, closes,
                                 subm, strt, done, refused, lost, accepted, panicked, lateStart>>
SvInit == /\ svpc = "init" /\ svpc' = "started"
          /\ nc' = "set" /\ wq' = <<>> /\ rwork' = [g \in Groups |-> 0]
          /\ wg' = wg + Cardinality(Workers)
          /\ wpc' = [w \in Workers |-> "init"] /\ cur' = [w \in Workers |-> 0] /\ idx' = [w \in Workers |-> 0]
          /\ subm' = strt      \* what the previous Shutdown did not reach was dropped for good
          \* WaitGroup.Add on a WaitGroup that an overtaken Serve call is still waiting on may panic
          /\ panicked' \in (IF ~PerCycleWG /\ old > 0 THEN {panicked, TRUE} ELSE {panicked})
          /\ UNCHANGED <<state, wkq, nw, ppc, pk, apc, sdpc, closes, cycle, old, strt, done, refused, lost, accepted, lateStart>>
\* Serve / ListenAndServe gives up right after its CAS: no connection (ListenAndServe), or a listener on a
\* pattern without handler (ValidateListeners).  Nothing was allocated; the call returns its error.
SvEarlyFail == /\ StartMayFail /\ svpc = "init" /\ svpc' = "idle"
               /\ state' = IF ResetOnFailedStart THEN "stopped" ELSE state
               /\ UNCHANGED <<wq, rwork, wkq, nw, wpc, cur, idx, wg, ppc, pk, apc, sdpc, nc, closes, cycle, old,
                              subm, strt, done, refused, lost, accepted, panicked, lateStart>>
SvStarted0 == /\ svpc = "started" /\ svpc' = "subscribing" /\ state' = "started"
             /\ UNCHANGED <<wq, rwork, wkq, nw, wpc, cur, idx, wg, ppc, pk, apc, sdpc, nc, closes, cycle,
                            subm, strt, done, refused, lost, accepted, panicked, lateStart>>
\* subscribe(): callbacks are accepted from SvStarted on, i.e. while the subscriptions are still being made
SvSubscribed0 == /\ svpc = "subscribing" /\ svpc' = "listen"
                 /\ UNCHANGED <<state, wq, rwork, wkq, nw, wpc, cur, idx, wg, ppc, pk, apc, sdpc, nc, closes, cycle,
                                subm, strt, done, refused, lost, accepted, panicked, lateStart>>
\* a subscription fails: Serve starts a goroutine that calls Shutdown (SdCas is then due), skips the
\* listener and waits for the workers
SvSubFail0 == /\ SubscribeMayFail /\ svpc = "subscribing" /\ svpc' = "failwait"
              /\ UNCHANGED <<state, wq, rwork, wkq, nw, wpc, cur, idx, wg, ppc, pk, apc, sdpc, nc, closes, cycle,
                             subm, strt, done, refused, lost, accepted, panicked, lateStart>>
\* the in-channel was closed by close(): the listener loop ends, Serve waits for the workers
SvListenEnd0 == /\ svpc = "listen" /\ sdpc \in {"wait", "clear", "stopped", "returned"} /\ svpc' = "wait"
               /\ UNCHANGED <<state, wq, rwork, wkq, nw, wpc, cur, idx, wg, ppc, pk, apc, sdpc, nc, closes, cycle,
                              subm, strt, done, refused, lost, accepted, panicked, lateStart>>
SvReturn0 == /\ svpc \in {"wait", "failwait"} /\ wg = 0 /\ svpc' = "returned" /\ cycle' = cycle + 1
            /\ UNCHANGED <<state, wq, rwork, wkq, nw, wpc, cur, idx, wg, ppc, pk, apc, sdpc, nc, closes,
                           subm, strt, done, refused, lost, accepted, panicked, lateStart>>

\* the overtaking bookkeeping is touched by SvCas, SvInit and OldServeReturn only
WkLock(w) == WkLock0(w) /\ UNCHANGED old
WkReacquire(w) == WkReacquire0(w) /\ UNCHANGED old
WkRelock(w) == WkRelock0(w) /\ UNCHANGED old
RwCheck(p) == RwCheck0(p) /\ UNCHANGED old
RwEnqueue(p) == RwEnqueue0(p) /\ UNCHANGED old
RwSignal(p) == RwSignal0(p) /\ UNCHANGED old
ApiCheck(a) == ApiCheck0(a) /\ UNCHANGED old
ApiUse(a) == ApiUse0(a) /\ UNCHANGED old
SdCas == SdCas0 /\ UNCHANGED old
ClNil == ClNil0 /\ UNCHANGED old
ClBroadcast == ClBroadcast0 /\ UNCHANGED old
ClConnClose == ClConnClose0 /\ UNCHANGED old
ClCloseInCh == ClCloseInCh0 /\ UNCHANGED old
SdWait == SdWait0 /\ UNCHANGED old
SdClear == SdClear0 /\ UNCHANGED old
SdStopped == SdStopped0 /\ UNCHANGED old
SvStarted == SvStarted0 /\ UNCHANGED old
SvListenEnd == SvListenEnd0 /\ UNCHANGED old
SvReturn == SvReturn0 /\ UNCHANGED old
SvSubscribed == SvSubscribed0 /\ UNCHANGED old
SvSubFail == SvSubFail0 /\ UNCHANGED old

Next ==
    \/ \E w \in Workers : WkLock(w) \/ WkReacquire(w) \/ WkRelock(w)
    \/ \E p \in Producers : RwCheck(p) \/ RwEnqueue(p) \/ RwSignal(p)
    \/ \E a \in ApiCallers : ApiCheck(a) \/ ApiUse(a)
    \/ SdCas \/ ClNil \/ ClBroadcast \/ ClConnClose \/ ClCloseInCh \/ SdWait \/ SdClear \/ SdStopped
    \/ SvCas \/ SvInit \/ SvStarted \/ SvSubscribed \/ SvSubFail \/ SvListenEnd \/ SvReturn \/ OldServeReturn \/ SvEarlyFail

\* everything that can happen has happened (used to tell a hang from termination)
Finished ==
    /\ \A p \in Producers : ~HasNext(p) /\ ppc[p] = "idle"
    /\ \A a \in ApiCallers : apc[a] = "done"
    /\ \A w \in Workers : wpc[w] \in {"none", "done", "parked"}
    /\ old = 0
    /\ (sdpc = "returned" /\ svpc = "returned") \/ (sdpc = "idle" /\ svpc = "listen" /\ wq = <<>>)
Terminated == Finished /\ UNCHANGED vars

Spec == Init /\ [][Next \/ Terminated]_vars
FairSpec == Spec
            /\ \A w \in Workers : WF_vars(WkLock(w) \/ WkReacquire(w) \/ WkRelock(w))
            /\ \A p \in Producers : WF_vars(RwCheck(p) \/ RwEnqueue(p) \/ RwSignal(p))
            /\ \A a \in ApiCallers : WF_vars(ApiCheck(a) \/ ApiUse(a))
            /\ WF_vars(ClNil \/ ClBroadcast \/ ClConnClose \/ ClCloseInCh \/ SdWait \/ SdClear \/ SdStopped)
            /\ WF_vars(SvInit \/ SvStarted \/ SvSubscribed \/ SvListenEnd \/ SvReturn \/ OldServeReturn)
            /\ WF_vars(SdCas /\ svpc = "failwait")     \* the Shutdown goroutine started by a Serve that could not subscribe

\* ===========================================================================
\* Properties
\* ===========================================================================
Running(g) == {w \in Workers : wpc[w] = "run" /\ WorkGroup(cur[w]) = g}

\* C01: at most one callback of a (non-parallel) group executes at any instant
MutualExclusion == \A g \in Groups : Cardinality(Running(g)) <= 1

\* C02: callbacks of a group start in enqueue order, each at most once
FifoPrefix == \A g \in Groups : IsPrefix(strt[g], subm[g])
AtMostOnce == \A g \in Groups \cup {Par} : \A i, j \in 1..Len(strt[g]) : strt[g][i] = strt[g][j] => i = j
\* every callback accepted before Shutdown began has run when everything is finished and no Shutdown happened
ExactlyOnce == (Finished /\ sdpc = "idle") => \A g \in Groups \cup {Par} : SeqSet(strt[g]) = SeqSet(subm[g])
\* start and enqueue histories only grow
AppendOnly == [][\A g \in Groups \cup {Par} : IsPrefix(strt[g], strt'[g]) /\ (IsPrefix(subm[g], subm'[g]) \/ subm'[g] = strt[g])]_vars

\* C03: no panic; after Shutdown returned nothing runs, workers are gone, the connection was closed once per cycle
NoPanic == ~panicked
AfterShutdown ==
    (sdpc = "returned" /\ state = "stopped") =>
        /\ \A w \in Workers : wpc[w] = "done"
        /\ wg = 0
        /\ closes = cycle + old + (IF svpc = "returned" THEN 0 ELSE 1)
NoLateStart == ~lateStart
\* the state is "starting" only while a Serve call is between its CAS and the moment it declares the service
\* started: a call that gave up does not leave a service that can neither be served nor shut down
NotStuckStarting == state = "starting" => svpc \in {"init", "started"}
\* a submission is either accepted or refused, never both, never silently vanished
Accounted ==
    \A p \in Producers : \A k \in 1..(pk[p] - 1) :
        LET cb == <<p, k>> IN (cb \in refused) # (cb \in accepted)

\* liveness (FairSpec): Shutdown returns, Serve returns, accepted callbacks run unless Shutdown began
ShutdownReturns == (sdpc = "nil") ~> (sdpc = "returned")
ServeReturns == (sdpc = "nil") ~> (svpc = "returned")
\* a Serve call that could not subscribe shuts the service down by itself and returns
FailedServeReturns == (svpc = "failwait") ~> (svpc = "returned" /\ state = "stopped")
AcceptedRuns == \A p \in Producers : \A k \in 1..Len(Script[p]) :
                   (<<p, k>> \in lost) ~> (<<p, k>> \in done \/ sdpc # "idle")

=============================================================================

------------------------------ MODULE TraceSched ------------------------------
(***************************************************************************)
(* Implementation-level trace validation of ResSched (C01, C02, C03): the   *)
(* hook events recorded from ONE real run of the service are a behaviour of  *)
(* the specification.                                                        *)
(*                                                                         *)
(* Trace[1] is a header: the worker ids, the producer ids (one per           *)
(* goroutine that called runWith) with the groups each submitted to in       *)
(* program order (the constant Script), and the set of groups.  Every other  *)
(* line is one event: e (name), p (process), wid, new, a, b, pp, k.          *)
(*                                                                         *)
(* Events logged while the service mutex is held (rw.enq, rw.closing,        *)
(* wk.park, pq.take, wk.exit, cl.nil ...) are linearization points: the      *)
(* spec action is taken when the line is consumed, and the logged outcome    *)
(* (parked / which work is run / exit; new work or appended; queue lengths)  *)
(* must be the model's outcome.  Steps outside the mutex (the atomic load    *)
(* in runWith, Cond.Signal/Broadcast, the CAS and stores of the state, the   *)
(* steps of Shutdown and Serve) are logged before and after: the spec        *)
(* action is a silent step that TLC places somewhere between the two lines,  *)
(* and the second line pins the process's program counter.                   *)
(***************************************************************************)
EXTENDS ResSched, Json

Trace == ndJsonDeserialize("trace.ndjson")
Hdr == Trace[1]
TraceWorkers == ToSet(Hdr.workers)
TraceProducers == ToSet(Hdr.producers)
TraceGroups == ToSet(Hdr.wgroups)
TraceScript == Hdr.scripts

VARIABLES
    l,      \* next line of the trace
    pn,     \* [producer -> number of rw.enter lines consumed]
    pgo,    \* [producer -> the atomic state check of its current runWith call may happen]
    sdgo,   \* number of Shutdown calls entered and not yet returned
    svgo,   \* a Serve call has been made and its CAS has not happened yet
    svn     \* number of Serve calls made

aux == <<l, pn, pgo, sdgo, svgo, svn>>
tvars == <<vars, aux>>
E == Trace[l]

TraceInit ==
    /\ Init
    /\ l = 2
    /\ pn = [p \in Producers |-> 0] /\ pgo = [p \in Producers |-> FALSE]
    /\ sdgo = 0 /\ svgo = FALSE /\ svn = 0
    /\ TLCSet(1, 0)

Consume == l <= Len(Trace) /\ l' = l + 1
Stutter == UNCHANGED vars
Same(v) == UNCHANGED v

\* ---------------------------------------------------------------- workers
WAct(w) == WkLock(w) \/ WkReacquire(w) \/ WkRelock(w)
EvWkPark == /\ E.e = "wk.park" /\ Consume /\ WAct(E.p) /\ wpc'[E.p] = "parked" /\ Same(<<pn, pgo, sdgo, svgo, svn>>)
EvWkExit == /\ E.e = "wk.exit" /\ Consume /\ WAct(E.p) /\ wpc'[E.p] = "done" /\ Same(<<pn, pgo, sdgo, svgo, svn>>)
\* pq.take(wid, index taken, queue length): the worker runs callback a+1 of a work of group wid
EvPqTake == /\ E.e = "pq.take" /\ Consume /\ WAct(E.p)
            /\ wpc'[E.p] = "run" /\ idx'[E.p] = E.a + 1
            /\ WorkGroup(cur'[E.p]) = E.wid /\ Len(wkq[cur'[E.p]]) = E.b
            /\ Same(<<pn, pgo, sdgo, svgo, svn>>)
\* assertions on the state between two linearization points of a worker
EvWkWake == /\ E.e = "wk.wake" /\ Consume /\ Stutter /\ wpc[E.p] = "woken" /\ (E.new <=> wq = Nil) /\ Same(<<pn, pgo, sdgo, svgo, svn>>)
EvWkPop  == /\ E.e = "wk.pop" /\ Consume /\ Stutter /\ wq # Nil /\ Len(wq) = E.a + 1 /\ WorkGroup(Head(wq)) = E.wid /\ Same(<<pn, pgo, sdgo, svgo, svn>>)
EvRetire == /\ E.e = "pq.retire" /\ Consume /\ Stutter /\ wpc[E.p] = "run" /\ WorkGroup(cur[E.p]) = E.wid
            /\ idx[E.p] = Len(wkq[cur[E.p]]) /\ Same(<<pn, pgo, sdgo, svgo, svn>>)
\* the harness callback that runs is the callback the model says runs (pp, k = submitter and its k-th submission)
EvCbStart == /\ E.e = "cb.start" /\ Consume /\ Stutter /\ wpc[E.p] = "run"
             /\ wkq[cur[E.p]][idx[E.p]] = <<E.pp, E.k>> /\ Same(<<pn, pgo, sdgo, svgo, svn>>)

\* ---------------------------------------------------------------- runWith
EvRwEnter == /\ E.e = "rw.enter" /\ Consume /\ Stutter
             /\ ppc[E.p] = "idle" /\ pk[E.p] = pn[E.p] + 1 /\ ~pgo[E.p]
             /\ HasNext(E.p) /\ Script[E.p][pk[E.p]] = E.wid
             /\ pn' = [pn EXCEPT ![E.p] = @ + 1] /\ pgo' = [pgo EXCEPT ![E.p] = TRUE]
             /\ Same(<<sdgo, svgo, svn>>)
SilentRwCheck(p) == /\ pgo[p] /\ RwCheck(p) /\ pgo' = [pgo EXCEPT ![p] = FALSE] /\ Same(<<l, pn, sdgo, svgo, svn>>)
EvRwChecked == /\ E.e = "rw.checked" /\ Consume /\ Stutter /\ ~pgo[E.p] /\ ppc[E.p] = "checked" /\ Same(<<pn, pgo, sdgo, svgo, svn>>)
EvRwRefused1 == /\ E.e = "rw.refused1" /\ Consume /\ Stutter /\ ~pgo[E.p] /\ ppc[E.p] = "idle"
                /\ pk[E.p] = pn[E.p] + 1 /\ <<E.p, pn[E.p]>> \in refused /\ Same(<<pn, pgo, sdgo, svgo, svn>>)
\* rw.enq(wid, new, length of the work's queue, length of the work queue)
EvRwEnq == /\ E.e = "rw.enq" /\ Consume /\ RwEnqueue(E.p)
           /\ <<E.p, pn[E.p]>> \in accepted'
           /\ (E.new <=> ppc'[E.p] = "signal")
           /\ wq' # Nil /\ Len(wq') = E.b
           /\ LET g == Script[E.p][pn[E.p]]
                  id == IF E.new THEN nw' ELSE rwork[g]
              IN Len(wkq'[id]) = E.a
           /\ Same(<<pn, pgo, sdgo, svgo, svn>>)
EvRwClosing == /\ E.e = "rw.closing" /\ Consume /\ RwEnqueue(E.p) /\ <<E.p, pn[E.p]>> \in refused' /\ Same(<<pn, pgo, sdgo, svgo, svn>>)
SilentRwSignal(p) == /\ RwSignal(p) /\ Same(aux)
EvRwSignaled == /\ E.e = "rw.signaled" /\ Consume /\ Stutter /\ ppc[E.p] = "idle" /\ pk[E.p] = pn[E.p] + 1 /\ Same(<<pn, pgo, sdgo, svgo, svn>>)

\* ---------------------------------------------------------------- Shutdown
EvSdEnter == /\ E.e = "sd.enter" /\ Consume /\ Stutter /\ sdgo' = sdgo + 1 /\ Same(<<pn, pgo, svgo, svn>>)
EvSdRet   == /\ E.e = "sd.ret" /\ Consume /\ Stutter /\ sdgo > 0 /\ sdgo' = sdgo - 1 /\ Same(<<pn, pgo, svgo, svn>>)
SilentSd  == /\ \/ (sdgo > 0 \/ svpc = "failwait") /\ SdCas
                \/ ClBroadcast \/ ClConnClose \/ ClCloseInCh \/ SdWait \/ SdClear \/ SdStopped
             /\ Same(aux)
EvClNil   == /\ E.e = "cl.nil" /\ Consume /\ ClNil /\ Same(<<pn, pgo, sdgo, svgo, svn>>)
\* a line of the Shutdown thread pins its program counter
SdPin == [x \in {"sd.cas", "cl.bcast", "cl.connclosed", "cl.inchclosed", "sd.waited", "sd.cleared", "sd.stopped"} |->
            CASE x = "sd.cas" -> "nil" [] x = "cl.bcast" -> "connclose" [] x = "cl.connclosed" -> "inch"
              [] x = "cl.inchclosed" -> "wait" [] x = "sd.waited" -> "clear" [] x = "sd.cleared" -> "stopped" [] OTHER -> "returned"]
EvSdPin == /\ E.e \in DOMAIN SdPin /\ Consume /\ Stutter /\ sdpc = SdPin[E.e] /\ Same(<<pn, pgo, sdgo, svgo, svn>>)

\* ---------------------------------------------------------------- Serve
EvServeGo  == /\ E.e = "serve.go" /\ Consume /\ Stutter /\ svgo' = TRUE /\ svn' = svn + 1 /\ Same(<<pn, pgo, sdgo>>)
EvServeRet == /\ E.e = "serve.ret" /\ Consume /\ Stutter /\ Same(<<pn, pgo, sdgo, svgo, svn>>)
SilentSv   == /\ \/ svgo /\ SvCas /\ svgo' = FALSE
                 \/ (SvInit \/ SvStarted \/ SvSubscribed \/ SvSubFail \/ SvListenEnd) /\ Same(svgo)
              /\ Same(<<l, pn, pgo, sdgo, svn>>)
SvPin == [x \in {"sv.init", "sv.started"} |-> IF x = "sv.init" THEN "started" ELSE "subscribing"]
EvSvPin == /\ E.e \in DOMAIN SvPin /\ Consume /\ Stutter /\ svpc = SvPin[E.e] /\ Same(<<pn, pgo, sdgo, svgo, svn>>)
\* sv.subscribed(new = the subscriptions failed)
EvSvSubscribed == /\ E.e = "sv.subscribed" /\ Consume /\ Stutter /\ svpc = (IF E.new THEN "failwait" ELSE "listen")
                  /\ Same(<<pn, pgo, sdgo, svgo, svn>>)
\* a Serve call (number k) that leaves its listener loop / returns is the current one or an overtaken one
EvSvListenEnd == /\ E.e = "sv.listenend" /\ Consume /\ Stutter /\ (E.k = svn => svpc = "wait")
                 /\ Same(<<pn, pgo, sdgo, svgo, svn>>)
EvSvWaited == /\ E.e = "sv.waited" /\ Consume /\ (IF E.k = svn THEN SvReturn ELSE OldServeReturn)
              /\ Same(<<pn, pgo, sdgo, svgo, svn>>)

TraceNext ==
    \/ EvWkPark \/ EvWkExit \/ EvPqTake \/ EvWkWake \/ EvWkPop \/ EvRetire \/ EvCbStart
    \/ EvRwEnter \/ EvRwChecked \/ EvRwRefused1 \/ EvRwEnq \/ EvRwClosing \/ EvRwSignaled
    \/ EvSdEnter \/ EvSdRet \/ EvClNil \/ EvSdPin
    \/ EvServeGo \/ EvServeRet \/ EvSvPin \/ EvSvSubscribed \/ EvSvListenEnd \/ EvSvWaited
    \/ \E p \in Producers : SilentRwCheck(p) \/ SilentRwSignal(p)
    \/ SilentSd \/ SilentSv

TraceSpec == TraceInit /\ [][TraceNext]_tvars

\* The trace is accepted iff its end can be reached: TLC reports this "invariant" as violated.
NotAccepted == l <= Len(Trace)
\* how far the best explanation got (printed when the trace is rejected)
HighWater == IF l > TLCGet(1) THEN TLCSet(1, l) ELSE TRUE
Report == PrintT(<<"HIGHWATER", TLCGet(1), Len(Trace)>>)
=============================================================================

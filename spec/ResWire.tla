------------------------------- MODULE ResWire -------------------------------
(***************************************************************************)
(* Values and responses on the wire (property C18): types.go Ref/SoftRef,   *)
(* store/value.go Value, resprot MarshalDataValue/UnmarshalDataValue and    *)
(* ParseResponse.                                                           *)
(*                                                                         *)
(* Abstract JSON: [k |-> "null"] | [k |-> "bool", b] | [k |-> "num", n]      *)
(* | [k |-> "str", s] | [k |-> "arr", a |-> sequence] | [k |-> "obj",        *)
(* m |-> sequence of <<key, value>> pairs (keys distinct)].  Strings and     *)
(* numbers are atoms; validrid says whether a string is a valid resource id. *)
(* A "data" member counts as present even when it is null ({"data":null} is   *)
(* the data value null), a null "rid" or "action" member counts as absent.     *)
(***************************************************************************)
EXTENDS Naturals, Sequences, FiniteSets, TLC
HasKey(j, key) == \E i \in 1..Len(j.m) : j.m[i][1] = key
Get(j, key) == j.m[CHOOSE i \in 1..Len(j.m) : j.m[i][1] = key][2]
NonNull(j, key) == HasKey(j, key) /\ Get(j, key).k # "null"

\* The RES value a JSON value stands for:
\*   [c |-> "primitive", v |-> the JSON primitive] | [c |-> "ref", rid] | [c |-> "softref", rid]
\*   | [c |-> "data", v |-> the wrapped JSON] | [c |-> "delete"] | [c |-> "invalid"]
Invalid == [c |-> "invalid"]
Classify(j) ==
    CASE j.k \in {"null", "bool", "num", "str"} -> [c |-> "primitive", v |-> j]
      [] j.k = "arr" -> Invalid
      [] j.k = "obj" ->
            \* the protocol's own members must have their types: rid and action strings, soft a boolean
            IF \/ (NonNull(j, "rid") /\ Get(j, "rid").k # "str")
               \/ (NonNull(j, "action") /\ Get(j, "action").k # "str")
               \/ (NonNull(j, "soft") /\ Get(j, "soft").k # "bool") THEN Invalid
            ELSE IF NonNull(j, "rid") THEN
                LET r == Get(j, "rid") IN
                IF r.k # "str" \/ ~r.validrid \/ NonNull(j, "action") \/ HasKey(j, "data") THEN Invalid
                ELSE IF HasKey(j, "soft") /\ Get(j, "soft").k \notin {"bool", "null"} THEN Invalid
                ELSE IF HasKey(j, "soft") /\ Get(j, "soft").k = "bool" /\ Get(j, "soft").b THEN [c |-> "softref", rid |-> r.s]
                ELSE [c |-> "ref", rid |-> r.s]
            ELSE IF NonNull(j, "action") THEN
                LET a == Get(j, "action") IN
                IF a.k = "str" /\ a.s = "delete" /\ ~HasKey(j, "data") THEN [c |-> "delete"] ELSE Invalid
            ELSE IF HasKey(j, "data") THEN
                LET d == Get(j, "data") IN
                IF d.k \in {"arr", "obj"} THEN [c |-> "data", v |-> d] ELSE [c |-> "primitive", v |-> d]
            ELSE Invalid
      [] OTHER -> Invalid

\* structural equality of abstract JSON (objects as maps)
RECURSIVE JEq(_, _)
JEq(a, b) ==
    IF a.k # b.k THEN FALSE
    ELSE CASE a.k = "null" -> TRUE
           [] a.k = "bool" -> a.b = b.b
           [] a.k = "num"  -> a.n = b.n
           [] a.k = "str"  -> a.s = b.s
           [] a.k = "arr"  -> Len(a.a) = Len(b.a) /\ \A i \in 1..Len(a.a) : JEq(a.a[i], b.a[i])
           [] a.k = "obj"  -> /\ {a.m[i][1] : i \in 1..Len(a.m)} = {b.m[i][1] : i \in 1..Len(b.m)}
                              /\ \A i \in 1..Len(a.m) : JEq(a.m[i][2], Get(b, a.m[i][1]))
           [] OTHER -> FALSE
\* two RES values are the same value
SameValue(x, y) ==
    /\ x.c = y.c
    /\ CASE x.c \in {"primitive", "data"} -> JEq(x.v, y.v)
         [] x.c \in {"ref", "softref"}    -> x.rid = y.rid
         [] OTHER -> TRUE
\* data-value wrapping: objects and arrays are wrapped, primitives are not
Wrapped(j) == j.k \in {"arr", "obj"}
=============================================================================

SPECIFICATION Spec
CONSTANTS MaxLen = 2
INVARIANTS C04_ExactlyOne C04_AtMostOne C07_MetaOnlyHttp C08_EventOrder C08_ProgramOrder C05_Dispatch C08_NoPublishOnFailure C08_ListenersSurviveRecovery
CHECK_DEADLOCK FALSE

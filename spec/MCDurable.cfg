SPECIFICATION Spec
CONSTANTS MaxOps = 4
INVARIANTS DurableInv InitOnce NeverHalfSeeded
CHECK_DEADLOCK FALSE

------------------------------ MODULE ResLegacy ------------------------------
(***************************************************************************)
(* The deprecated BadgerDB middleware (property C20): middleware/badgerdb.go *)
(* and middleware/resbadger.  What get and Value() serve is the fold of the  *)
(* successfully applied events over the initial value (missing, or the       *)
(* default).  Values are atoms (canonical JSON); models are <<key,value>>     *)
(* pair lists, collections are sequences; [t |-> "missing"].                 *)
(*                                                                         *)
(* LStep(s, def, e) = [s |-> new stored value, pub |-> the event is published *)
(* (applied and effective), old |-> what listeners get as old values].       *)
(***************************************************************************)
EXTENDS ResClient
Base(s, def) == IF IsMissing(s) THEN def ELSE s          \* what the event is applied to
OldVals(m, vals) == [i \in 1..Len(vals) |-> <<vals[i][1], IF vals[i][1] \in Keys(m) THEN Val(m, vals[i][1]) ELSE Del>>]
\* the part of a change that really changes something
Effective(m, vals) == SelectSeq(vals, LAMBDA p : IF p[2] = Del THEN p[1] \in Keys(m) ELSE (p[1] \notin Keys(m) \/ Val(m, p[1]) # p[2]))
NoOp(s) == [s |-> s, pub |-> FALSE, any |-> FALSE, old |-> <<>>]
LStep(s, def, e) ==
    CASE e.ev = "change" ->
            LET b == Base(s, def) IN
            IF b.t # "model" THEN NoOp(s)
            ELSE LET eff == Effective(b.m, e.vals) IN
                 IF eff = <<>> THEN NoOp(s)
                 ELSE [s |-> [t |-> "model", m |-> Merge(b.m, eff)], pub |-> TRUE, any |-> FALSE, old |-> OldVals(b.m, eff)]
      [] e.ev = "add" ->
            LET b == IF IsMissing(s) /\ IsMissing(def) THEN [t |-> "collection", c |-> <<>>] ELSE Base(s, def) IN
            IF b.t # "collection" \/ e.idx < 0 \/ e.idx > Len(b.c) THEN NoOp(s)
            ELSE [s |-> [t |-> "collection", c |-> InsertAt(b.c, e.v, e.idx)], pub |-> TRUE, any |-> FALSE, old |-> <<>>]
      [] e.ev = "remove" ->
            LET b == Base(s, def) IN
            IF b.t # "collection" \/ e.idx < 0 \/ e.idx >= Len(b.c) THEN NoOp(s)
            ELSE [s |-> [t |-> "collection", c |-> RemoveAt(b.c, e.idx)], pub |-> TRUE, any |-> FALSE, old |-> <<>>]
      [] e.ev = "create" ->
            IF ~IsMissing(s) \/ ~IsMissing(def) THEN NoOp(s)
            ELSE [s |-> e.data, pub |-> TRUE, any |-> FALSE, old |-> <<>>]
      \* deleting what is not stored: whether the event is still published is not specified (any)
      [] e.ev = "delete" -> [s |-> Missing, pub |-> TRUE, any |-> IsMissing(s), old |-> <<>>]
      [] OTHER -> NoOp(s)
Served(s, def) == Base(s, def)

\* first event (1-based) of an observed history that deviates; 0 if none.
\* evs[i]: the event, pub (observed), old (listener old values, pairs), served (get after it), value (Value() after it)
RECURSIVE LFirstBad(_, _, _, _)
LFirstBad(s, def, evs, i) ==
    IF i > Len(evs) THEN 0
    ELSE LET e == evs[i] r == LStep(s, def, e) IN
         IF (e.pub # r.pub /\ ~r.any)
            \/ ~SameRes(e.served, Served(r.s, def))
            \/ ~SameRes(e.value, Served(r.s, def))
            \/ (e.ev = "change" /\ r.pub /\ ~ModelEq(e.old, r.old))
            \/ (e.ev = "delete" /\ e.hasdata /\ ~SameRes(e.deleted, s))
            \* a stored resource that is deleted: the listeners are handed its stored value (datajudged: the
            \* configuration hands over the stored document itself, not a projection onto a Go type)
            \/ (e.ev = "delete" /\ e.datajudged /\ e.pub /\ ~IsMissing(s) /\ ~e.hasdata)
         THEN i ELSE LFirstBad(r.s, def, evs, i + 1)
\* what is stored after a whole history (events that cannot be applied leave it unchanged)
RECURSIVE LFold(_, _, _, _)
LFold(s, def, evs, i) == IF i > Len(evs) THEN s ELSE LFold(LStep(s, def, evs[i]).s, def, evs, i + 1)
=============================================================================

------------------------------ MODULE ResClient ------------------------------
(***************************************************************************)
(* Reference RES client cache (properties C10, C14, C20): what a client     *)
(* holds after applying, in order, the events a service publishes for one   *)
(* resource.  Values are atoms (canonical JSON texts); "DELETE" is the      *)
(* delete action.                                                           *)
(*   Missing                 the resource does not exist for the client     *)
(*   [t |-> "model", m |-> sequence of <<key, value>> pairs]                *)
(*   [t |-> "collection", c |-> sequence of values]                         *)
(* Events: [ev |-> "change", vals |-> <<<<k, v>>, ...>>]                    *)
(*         [ev |-> "add", v |-> value, idx |-> i]   [ev |-> "remove", idx]  *)
(*         [ev |-> "create"]  [ev |-> "delete"]                             *)
(* Apply returns "BAD" when the event cannot be applied to the cache: index *)
(* out of range at the moment it is applied, change on a collection, create *)
(* of something the client already holds, and so on.                        *)
(***************************************************************************)
EXTENDS Naturals, Sequences, FiniteSets, TLC
Missing == [t |-> "missing"]
Bad == [t |-> "bad"]
IsMissing(x) == x.t = "missing"
IsBad(x) == x.t = "bad"
Del == "DELETE"

Keys(m) == {m[i][1] : i \in 1..Len(m)}
Val(m, k) == m[CHOOSE i \in 1..Len(m) : m[i][1] = k][2]
\* models are compared as maps, not as pair lists
ModelEq(a, b) == Keys(a) = Keys(b) /\ \A k \in Keys(a) : Val(a, k) = Val(b, k)
SameRes(x, y) ==
    IF x.t # y.t THEN FALSE
    ELSE IF x.t = "model" THEN ModelEq(x.m, y.m)
    ELSE IF x.t = "collection" THEN x.c = y.c
    ELSE TRUE

\* merge changed values into a model
RECURSIVE Merge(_, _)
Merge(m, vals) ==
    IF vals = <<>> THEN m
    ELSE LET k == Head(vals)[1] v == Head(vals)[2]
             without == SelectSeq(m, LAMBDA p : p[1] # k)
         IN Merge(IF v = Del THEN without ELSE Append(without, <<k, v>>), Tail(vals))

InsertAt(c, v, i) == SubSeq(c, 1, i) \o <<v>> \o SubSeq(c, i + 1, Len(c))     \* i = 0-based position
RemoveAt(c, i) == SubSeq(c, 1, i) \o SubSeq(c, i + 2, Len(c))

\* fresh: what a get returns after the whole mutation (a create event makes the client fetch it)
Apply(cache, e, fresh) ==
    IF IsBad(cache) THEN Bad
    ELSE CASE e.ev = "change" -> IF cache.t # "model" \/ e.vals = <<>> THEN Bad
                                 ELSE [t |-> "model", m |-> Merge(cache.m, e.vals)]
           [] e.ev = "add"    -> IF cache.t # "collection" \/ e.idx < 0 \/ e.idx > Len(cache.c) THEN Bad
                                 ELSE [t |-> "collection", c |-> InsertAt(cache.c, e.v, e.idx)]
           [] e.ev = "remove" -> IF cache.t # "collection" \/ e.idx < 0 \/ e.idx >= Len(cache.c) THEN Bad
                                 ELSE [t |-> "collection", c |-> RemoveAt(cache.c, e.idx)]
           [] e.ev = "create" -> IF ~IsMissing(cache) THEN Bad ELSE fresh
           [] e.ev = "delete" -> IF IsMissing(cache) THEN Bad ELSE Missing
           [] OTHER -> Bad

RECURSIVE Fold(_, _, _)
Fold(cache, evs, fresh) == IF evs = <<>> THEN cache ELSE Fold(Apply(cache, Head(evs), fresh), Tail(evs), fresh)

\* C10 for one mutation: before/after are what get served, evs what was published for the resource id
Coherent(before, evs, after) == SameRes(Fold(before, evs, after), after)
Silent(before, evs, after) == SameRes(before, after) => evs = <<>>
\* change events carry only keys that really changed
Minimal(before, evs) ==
    \A i \in 1..Len(evs) : evs[i].ev = "change" =>
        \A j \in 1..Len(evs[i].vals) :
            LET k == evs[i].vals[j][1] v == evs[i].vals[j][2] IN
            IF v = Del THEN before.t = "model" /\ k \in Keys(before.m)
            ELSE before.t # "model" \/ k \notin Keys(before.m) \/ Val(before.m, k) # v
=============================================================================

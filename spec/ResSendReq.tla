------------------------------ MODULE ResSendReq ------------------------------
(***************************************************************************)
(* resprot.SendRequest (property C19): marshal, subscribe to a fresh inbox,  *)
(* publish, then wait for the first message that is not a pre-response;      *)
(* each timeout pre-response restarts the deadline.  Time is discrete; the    *)
(* inbox script is a sequence of                                              *)
(*    <<"wait", t>>      t ticks pass                                         *)
(*    <<"pre", d>>       timeout pre-response announcing d ticks              *)
(*    <<"prebad">>       a pre-response without (valid) timeout: ignored      *)
(*    <<"resp", kind>>   a response: "result" | "resource" | "error" |        *)
(*                       "garbage" (not a valid response: internal error;     *)
(*                       also texts that begin with a byte order mark, a       *)
(*                       non-ASCII letter or a digit: only an ASCII letter     *)
(*                       starts a pre-response)                                *)
(* deliveries happen strictly between ticks, deadlines fall on ticks.         *)
(* fail: "" | "marshal" | "subscribe" | "publish".                            *)
(***************************************************************************)
EXTENDS Naturals, Sequences, TLC

\* Outcome: [res |-> what SendRequest returns, at |-> tick count when it returns, ext |-> announced extensions]
RECURSIVE Wait(_, _, _, _, _)
\* now: current time (ticks), dl: current deadline, s: remaining script, ext: extensions so far
Wait(now, dl, s, ext, subscribed) ==
    IF s = <<>> THEN [res |-> "timeout", at |-> dl, ext |-> ext]
    ELSE LET e == Head(s) IN
         CASE e[1] = "wait"   -> IF now + e[2] >= dl THEN [res |-> "timeout", at |-> dl, ext |-> ext]
                                 ELSE Wait(now + e[2], dl, Tail(s), ext, subscribed)
           [] e[1] = "pre"    -> Wait(now, now + e[2], Tail(s), Append(ext, e[2]), subscribed)
           [] e[1] = "prebad" -> Wait(now, dl, Tail(s), ext, subscribed)
           [] e[1] = "resp"   -> [res |-> (IF e[2] \in {"garbage", "garbage-bom", "garbage-latin", "garbage-digit"} THEN "internal" ELSE e[2]), at |-> now, ext |-> ext]
           [] OTHER -> [res |-> "bad-script", at |-> now, ext |-> ext]
Outcome(fail, t0, script) ==
    IF fail # "" THEN [res |-> "internal", at |-> 0, ext |-> <<>>]
    ELSE Wait(0, t0, script, <<>>, TRUE)
=============================================================================

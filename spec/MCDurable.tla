------------------------------ MODULE MCDurable ------------------------------
(* Model of commit / acknowledge / crash / reopen / re-init (C12): a workload  *)
(* of calls is executed step by step; every call is "started", then committed  *)
(* atomically, then acknowledged; Crash can strike between any two steps; the   *)
(* invariant says the disk is always a possible outcome of the acknowledged    *)
(* calls, and re-running Init never duplicates or resurrects seeds.            *)
EXTENDS ResDurable
CONSTANTS MaxOps
Seeds == << <<"s1", "x">>, <<"s2", "y">> >>
OpsAlphabet == { [op |-> "init", id |-> "", v |-> "", seeds |-> Seeds] }
    \cup { [op |-> o, id |-> i, v |-> v, seeds |-> <<>>] : o \in {"create", "update", "delete"}, i \in {"s1", "a"}, v \in {"v1"} }
VARIABLES disk, acked, inflight, phase, crashes
vars == <<disk, acked, inflight, phase, crashes>>
Init == disk = EmptyDisk /\ acked = <<>> /\ inflight = <<>> /\ phase = "idle" /\ crashes = 0
Start(o) == /\ phase = "idle" /\ Len(acked) < MaxOps /\ inflight' = <<o>> /\ phase' = "started" /\ UNCHANGED <<disk, acked, crashes>>
Commit == /\ phase = "started" /\ disk' = ApplyOp(disk, inflight[1]) /\ phase' = "committed" /\ UNCHANGED <<acked, inflight, crashes>>
Ack == /\ phase = "committed" /\ acked' = Append(acked, inflight[1]) /\ inflight' = <<>> /\ phase' = "idle" /\ UNCHANGED <<disk, crashes>>
\* a crash loses the volatile state: the call in flight is never acknowledged, but stays "possibly applied"
Crash == /\ crashes < 2 /\ crashes' = crashes + 1 /\ phase' = "crashed" /\ UNCHANGED <<disk, acked, inflight>>
\* after a restart the application settles which it was by reading the disk; the history goes on from there
Reopen == /\ phase = "crashed"
          /\ acked' = IF inflight # <<>> /\ disk = ApplyOp(Fold(EmptyDisk, acked), inflight[1]) THEN acked \o inflight ELSE acked
          /\ inflight' = <<>> /\ phase' = "idle" /\ UNCHANGED <<disk, crashes>>
Next == (\E o \in OpsAlphabet : Start(o)) \/ Commit \/ Ack \/ Crash \/ Reopen
Spec == Init /\ [][Next]_vars
DurableInv == disk \in Possible(acked, inflight)
\* seeds are written by at most one Init: once the marker is set, a seed is missing only if it was deleted
Deleted(id) == (\E i \in 1..Len(acked) : acked[i].op = "delete" /\ acked[i].id = id)
               \/ (inflight # <<>> /\ inflight[1].op = "delete" /\ inflight[1].id = id)
Created(id) == (\E i \in 1..Len(acked) : acked[i].op = "create" /\ acked[i].id = id)
               \/ (inflight # <<>> /\ inflight[1].op = "create" /\ inflight[1].id = id)
InitOnce == disk.marker => \A k \in 1..Len(Seeds) : Has(disk, Seeds[k][1]) \/ Deleted(Seeds[k][1])
\* never half-seeded: without the marker a seed id is present only if it was created explicitly
NeverHalfSeeded == ~disk.marker => \A k \in 1..Len(Seeds) : Has(disk, Seeds[k][1]) => Created(Seeds[k][1])
=============================================================================

------------------------------ MODULE TraceMux ------------------------------
(***************************************************************************)
(* Binding of ResMux to the implementation (C06).  One record = one mux     *)
(* configuration built on the real code: the registration operations in     *)
(* the order they were made (with their full patterns and whether the real  *)
(* mux accepted them) and a list of lookups with everything GetHandler      *)
(* returned.  ConfigOK recomputes acceptance and every lookup result.       *)
(***************************************************************************)
EXTENDS ResMux, Json
Trace == ndJsonDeserialize("trace.ndjson")
VARIABLE l
\* records are visited in Stride interleaved chains so that TLC's workers share the work
Stride == 64
Init == l \in 1..(IF Len(Trace) < Stride THEN Len(Trace) ELSE Stride)
Next == l + Stride <= Len(Trace) /\ l' = l + Stride
R == Trace[l]

IsHandle(o) == o.k = "handle"
Reg(o) == [pat |-> o.pat, grp |-> o.grp, par |-> o.par, id |-> o.id]
\* accepted registrations among ops[1..k]
RECURSIVE AccRegs(_, _)
AccRegs(ops, k) == IF k = 0 THEN <<>>
                   ELSE IF IsHandle(ops[k]) /\ ops[k].acc THEN Append(AccRegs(ops, k - 1), Reg(ops[k]))
                   ELSE AccRegs(ops, k - 1)
Regs == AccRegs(R.ops, Len(R.ops))

AcceptOK ==
    \A k \in 1..Len(R.ops) :
        LET o == R.ops[k] IN
        (IsHandle(o) /\ o.via # "through") =>
            LET prior == AccRegs(R.ops, k - 1) IN
            /\ MustReject(prior, Reg(o)) => ~o.acc
            /\ MustAccept(prior, Reg(o)) => o.acc

\* listener ids (in registration order) attached to exactly the structure of pattern p
RECURSIVE ListenersOn(_, _, _)
ListenersOn(ops, k, p) ==
    IF k = 0 THEN <<>>
    ELSE IF ops[k].k = "listen" /\ ops[k].acc /\ ValidPattern(ops[k].pat) /\ Conflict(ops[k].pat, p)
         THEN Append(ListenersOn(ops, k - 1, p), ops[k].lid)
         ELSE ListenersOn(ops, k - 1, p)

PairSet(m) == {m[i] : i \in 1..Len(m)}

\* A lookup is [i |-> index into the name table] when nothing was found,
\* [i, x |-> 1] when GetHandler panicked, and otherwise carries the handler id,
\* the params, the group and the listener ids that were returned.
Names == ndJsonDeserialize("names.ndjson")[1].names
Found(L) == "id" \in DOMAIN L
LookupOK(L, regs) ==
    /\ "x" \notin DOMAIN L
    /\ ValidName(Names[L.i]) =>
         LET n == Names[L.i]
             i == Route(regs, n) IN
         IF i = 0 THEN ~Found(L)
         ELSE /\ Found(L)
              /\ L.id = regs[i].id
              /\ PairSet(L.pa) = ParamsOf(regs[i], n)
              /\ L.g = GroupOf(regs[i], n)
              /\ L.ls = ListenersOn(R.ops, Len(R.ops), regs[i].pat)

\* judge: "all" (first pass) | "accept" | "lookup" (second pass, to localise a failure)
ConfigOK == /\ (R.judge # "lookup" => AcceptOK)
            /\ (R.judge # "accept" => LET regs == Regs IN \A j \in 1..Len(R.lookups) : LookupOK(R.lookups[j], regs))
=============================================================================

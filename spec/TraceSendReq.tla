------------------------------ MODULE TraceSendReq ------------------------------
(* Binding for C19: one record per real SendRequest call driven by a script.      *)
EXTENDS ResSendReq, Json
Trace == ndJsonDeserialize("trace.ndjson")
VARIABLE l
Stride == 64
Init == l \in 1..(IF Len(Trace) < Stride THEN Len(Trace) ELSE Stride)
Next == l + Stride <= Len(Trace) /\ l' = l + Stride
R == Trace[l]
Ref == Outcome(R.fail, R.t0, R.script)
RecordOK == /\ R.res = Ref.res
            /\ R.ext = Ref.ext
            /\ R.released                      \* the inbox subscription was released when SendRequest returned
            /\ (R.fail # "" => R.fast)         \* failures are reported without waiting
=============================================================================

------------------------------ MODULE TraceSendReq ------------------------------
(* Binding for C19: one record per real SendRequest call driven by a script.      *)
EXTENDS ResSendReq, Json
Trace == ndJsonDeserialize("trace.ndjson")
VARIABLE l
Stride == 64
Init == l \in 1..(IF Len(Trace) < Stride THEN Len(Trace) ELSE Stride)
Next == l + Stride <= Len(Trace) /\ l' = l + Stride
R == Trace[l]
Ref == Outcome(R.fail, R.t0, R.script)
\* a slow extension callback (see runSlowCallback): giving up before the second pre-response is taken, or going
\* on with it, are both runs of the loop; a timeout AFTER the second extension was reported is not
SlowCallbackOK == /\ R.res \in {"timeout", "result"}
                  /\ (R.res = "timeout" => Len(R.ext) = 1)
                  /\ (R.res = "result" => Len(R.ext) = 2 /\ R.ext[2] = 2000)
\* many concurrent calls on one connection (see runConcurrentEcho): every call has an inbox of its own and is answered
\* with the response to its own request
EchoOK == R.wrong = 0 /\ R.shared = 0      \* (a time-out alone, without a shared inbox, says the machine was busy)
\* t0 pre-responses (500, 501, ... ms) and the response back to back: the response is returned and by then the callbacks
\* have been told every extension, in order
BackToBackOK == R.res = "result" /\ R.ext = [i \in 1..R.t0 |-> 499 + i]
RecordOK == IF R.judge = "backtoback" THEN BackToBackOK ELSE IF R.judge = "slowcb" THEN SlowCallbackOK ELSE IF R.judge = "echo" THEN EchoOK ELSE
            /\ R.res = Ref.res
            /\ R.ext = Ref.ext
            /\ R.released                      \* the inbox subscription was released when SendRequest returned
            /\ (R.fail # "" => R.fast)         \* failures are reported without waiting
=============================================================================

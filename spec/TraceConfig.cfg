INIT TInit
NEXT TNext
CONSTANTS
  Vals = {0, 1, 2}
  MaxLives = 100
  Carried = {}
INVARIANT RunOK
CHECK_DEADLOCK FALSE

SPECIFICATION Spec
INVARIANT Report
POSTCONDITION Consumed
CHECK_DEADLOCK FALSE

SPECIFICATION Spec
CONSTANTS
  Vals = {0, 1, 2}
  MaxLives = 4
  Carried = {}
INVARIANTS TypeOK

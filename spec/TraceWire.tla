------------------------------ MODULE TraceWire ------------------------------
(* Binding for C18: one record per observation of the real codec functions.    *)
EXTENDS ResWire, Json
Trace == ndJsonDeserialize("trace.ndjson")
VARIABLE l
Stride == 64
Init == l \in 1..(IF Len(Trace) < Stride THEN Len(Trace) ELSE Stride)
Next == l + Stride <= Len(Trace) /\ l' = l + Stride
R == Trace[l]
ClassOf(x) == IF x.c \in {"ref", "softref"} THEN <<x.c, x.rid>> ELSE <<x.c>>
RecordOK ==
    CASE R.op = "classify" ->          \* store.Value.UnmarshalJSON on a JSON text of the abstract value j
            LET ref == Classify(R.j) IN
            /\ R.cls = ref.c
            /\ (ref.c \in {"ref", "softref"} => R.rid = ref.rid)
      [] R.op = "equal" ->             \* store.Value.Equal on two parsed values
            /\ R.eqab = R.eqba /\ R.eqaa
            /\ (R.eqab => SameValue(Classify(R.a), Classify(R.b)))
            /\ (R.sametext => R.eqab)
            /\ R.stable                  \* a parsed value owns its bytes: it still marshals to its JSON after the input buffer was reused
      [] R.op = "ref" -> R.ok          \* Ref/SoftRef marshal to the reference object and back
      [] R.op = "datavalue" -> R.roundtrip /\ (R.wrapped = Wrapped(R.j))
      [] R.op = "envelope" -> R.classes = 1 /\ R.cls = R.expect /\ R.decoded
      [] OTHER -> FALSE
=============================================================================

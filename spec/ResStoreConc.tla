----------------------------- MODULE ResStoreConc -----------------------------
(* Concurrent model of the stores (C11): goroutines open read/write          *)
(* transactions under the per-id readers/writer lock, perform calls (the     *)
(* sequential reference SeqStep of ResStore) and close.                      *)
EXTENDS ResStore
\* ---- concurrent model ------------------------------------------------------------
CONSTANTS Procs, Ids, Vals, MaxOps
VARIABLES db, readers, writer, txn, nops, cblog
vars == <<db, readers, writer, txn, nops, cblog>>
\* txn[p]: [mode |-> "none"|"r"|"w", id]
CInit == /\ db = <<>> /\ readers = [i \in Ids |-> {}] /\ writer = [i \in Ids |-> "none"]
         /\ txn = [p \in Procs |-> [mode |-> "none", id |-> ""]] /\ nops = [p \in Procs |-> 0] /\ cblog = <<>>
OpenRead(p, i) == /\ txn[p].mode = "none" /\ writer[i] = "none" /\ nops[p] < MaxOps
                  /\ readers' = [readers EXCEPT ![i] = @ \cup {p}] /\ txn' = [txn EXCEPT ![p] = [mode |-> "r", id |-> i]]
                  /\ UNCHANGED <<db, writer, nops, cblog>>
OpenWrite(p, i) == /\ txn[p].mode = "none" /\ writer[i] = "none" /\ readers[i] = {} /\ nops[p] < MaxOps
                   /\ writer' = [writer EXCEPT ![i] = p] /\ txn' = [txn EXCEPT ![p] = [mode |-> "w", id |-> i]]
                   /\ UNCHANGED <<db, readers, nops, cblog>>
Call(p, op, v) ==
    /\ txn[p].mode # "none" /\ nops[p] < MaxOps
    /\ (txn[p].mode = "r" => op \in {"value", "exists"})
    /\ LET r == SeqStep(db, [op |-> op, id |-> txn[p].id, v |-> v], FALSE) IN
       /\ db' = r.db
       /\ cblog' = IF r.cb = <<>> THEN cblog ELSE Append(cblog, r.cb)
    /\ nops' = [nops EXCEPT ![p] = @ + 1]
    /\ UNCHANGED <<readers, writer, txn>>
Close(p) == /\ txn[p].mode # "none"
            /\ readers' = [readers EXCEPT ![txn[p].id] = @ \ {p}]
            /\ writer' = [writer EXCEPT ![txn[p].id] = IF @ = p THEN "none" ELSE @]
            /\ txn' = [txn EXCEPT ![p] = [mode |-> "none", id |-> ""]]
            /\ UNCHANGED <<db, nops, cblog>>
CNext == \E p \in Procs : \/ \E i \in Ids : OpenRead(p, i) \/ OpenWrite(p, i)
                          \/ \E op \in {"create", "update", "delete", "value", "exists"}, v \in Vals \cup {"WRONG"} : Call(p, op, v)
                          \/ Close(p)
CSpec == CInit /\ [][CNext]_vars
ExclusiveWrite == \A i \in Ids : writer[i] # "none" => (readers[i] = {} /\ Cardinality({p \in Procs : txn[p].mode = "w" /\ txn[p].id = i}) = 1)
\* per id, the callbacks chain: each before-value is the previous after-value, the first is "none"
Chain == \A i \in Ids :
            LET s == SelectSeq(cblog, LAMBDA e : e[1] = i) IN
            /\ (s # <<>> => s[1][2] = NoVal)
            /\ \A k \in 1..(Len(s) - 1) : s[k + 1][2] = s[k][3]
            /\ (s # <<>> => (IF Has(db, i) THEN s[Len(s)][3] = db[i] ELSE s[Len(s)][3] = NoVal))
=============================================================================

------------------------------ MODULE TraceClient ------------------------------
(* Binding for C10 (and the client part of C14/C20): one record per store       *)
(* mutation observed on the real service: what a get served before, the events  *)
(* published for the resource id, what a get serves afterwards.                 *)
EXTENDS ResClient, Json
Trace == ndJsonDeserialize("trace.ndjson")
VARIABLE l
Stride == 64
Init == l \in 1..(IF Len(Trace) < Stride THEN Len(Trace) ELSE Stride)
Next == l + Stride <= Len(Trace) /\ l' = l + Stride
R == Trace[l]
Res(x) == x
Clause(c) ==
    CASE c = "coherent" -> Coherent(Res(R.before), R.evs, Res(R.after))
      [] c = "silent"   -> Silent(Res(R.before), R.evs, Res(R.after))
      [] c = "minimal"  -> Minimal(Res(R.before), R.evs)
      [] c = "rid"      -> R.stray = <<>>        \* no event for the mutation was published on another resource id
      [] OTHER -> FALSE
RecordOK == IF R.judge = "all" THEN \A c \in {"coherent", "silent", "minimal", "rid"} : Clause(c) ELSE Clause(R.judge)
=============================================================================

SPECIFICATION Spec
CONSTANTS
  MaxEvents = 5
  WithDefault = FALSE
INVARIANTS ClientCoherent NeverBad
CHECK_DEADLOCK FALSE

------------------------------- MODULE ResSubs -------------------------------
(***************************************************************************)
(* Ownership, subscriptions and system.reset (property C09).                *)
(*                                                                         *)
(* A configuration: service name sn, explicit ownership lists rr / ra (or   *)
(* the flag that they were left nil), which handler kinds are registered,   *)
(* and the queue group.  From it the reference derives the owned patterns   *)
(* and the set of concrete request subjects the service must receive; the   *)
(* observed subscription list is judged against that set with NATS subject  *)
(* matching (only * and > are wildcards for NATS).                          *)
(***************************************************************************)
EXTENDS ResPattern

\* ---- NATS subject matching ------------------------------------------------
RECURSIVE NCoversT(_, _)
NCoversT(pt, st) ==
    IF pt = <<>> THEN st = <<>>
    ELSE IF Head(pt) = <<">">> THEN st # <<>>
    ELSE IF st = <<>> THEN FALSE
    ELSE IF Head(pt) = <<"*">> THEN Head(st) # <<">">> /\ NCoversT(Tail(pt), Tail(st))
    ELSE Head(pt) = Head(st) /\ NCoversT(Tail(pt), Tail(st))
\* subscription subject x receives subject (or covers subscription subject) s
NMatches(x, s) == NCoversT(Tokens(x), Tokens(s))

ValidNatsSubject(s) ==
    /\ s # <<>>
    /\ LET ts == Tokens(s) IN
       \A i \in 1..Len(ts) :
          /\ ts[i] # <<>>
          /\ "INV" \notin Chars(ts[i])
          /\ ("*" \in Chars(ts[i]) \/ ">" \in Chars(ts[i])) => (ts[i] = <<"*">> \/ (ts[i] = <<">">> /\ i = Len(ts)))

\* ---- ownership --------------------------------------------------------------
Cat(a, b) == IF a = <<>> THEN b ELSE IF b = <<>> THEN a ELSE a \o <<Dot>> \o b
DefaultOwned(sn) == IF sn = <<>> THEN << <<">">> >> ELSE <<sn, Cat(sn, <<">">>)>>
\* cfg.rr / cfg.ra are sequences of patterns; cfg.rrnil / cfg.ranil say the list was left nil
OwnedRes(cfg) == IF cfg.rrnil THEN (IF cfg.hasRes THEN DefaultOwned(cfg.sn) ELSE <<>>) ELSE cfg.rr
OwnedAcc(cfg) == IF cfg.ranil THEN (IF cfg.hasAcc THEN DefaultOwned(cfg.sn) ELSE <<>>) ELSE cfg.ra
SeqSet(s) == {s[i] : i \in 1..Len(s)}

\* explicit entries must be usable subjects themselves
WellFormedCfg(cfg) ==
    /\ \A p \in SeqSet(OwnedRes(cfg)) \cup SeqSet(OwnedAcc(cfg)) : ValidNatsSubject(p)
    /\ (cfg.sn = <<>> \/ ValidNatsSubject(cfg.sn))

\* ---- the subjects a service must receive ------------------------------------
\* name universe: names of 1..k tokens over the literal tokens of the configuration plus "z"
LitToks(cfg) ==
    LET pats == SeqSet(OwnedRes(cfg)) \cup SeqSet(OwnedAcc(cfg))
    IN UNION {{Tokens(p)[i] : i \in {j \in 1..Len(Tokens(p)) : Tokens(p)[j] \notin {<<"*">>, <<">">>}}} : p \in pats} \cup {<<"z">>}
MaxPatLen(cfg) ==
    LET pats == SeqSet(OwnedRes(cfg)) \cup SeqSet(OwnedAcc(cfg))
        RECURSIVE Mx(_)
        Mx(S) == IF S = {} THEN 0 ELSE LET x == CHOOSE x \in S : TRUE IN
                 LET r == Mx(S \ {x}) IN IF Len(Tokens(x)) > r THEN Len(Tokens(x)) ELSE r
    IN Mx(pats)
Universe(cfg) == {Join(ts) : ts \in (SeqsUpTo(LitToks(cfg), MaxPatLen(cfg) + 1) \ {<<>>})}

Method == <<"m">>
Needed(cfg) ==
    LET U == Universe(cfg) IN
    {Cat(<<"g","e","t">>, n) : n \in {n \in U : \E p \in SeqSet(OwnedRes(cfg)) : NMatches(p, n)}}
    \cup {Cat(Cat(<<"c","a","l","l">>, n), Method) : n \in {n \in U : \E p \in SeqSet(OwnedRes(cfg)) : NMatches(p, n)}}
    \cup {Cat(Cat(<<"a","u","t","h">>, n), Method) : n \in {n \in U : \E p \in SeqSet(OwnedRes(cfg)) : NMatches(p, n)}}
    \cup {Cat(<<"a","c","c","e","s","s">>, n) : n \in {n \in U : \E p \in SeqSet(OwnedAcc(cfg)) : NMatches(p, n)}}

\* ---- properties of an observed subscription list S (sequence of subjects) ----
Coverage(cfg, S) == \A s \in Needed(cfg) : \E i \in 1..Len(S) : NMatches(S[i], s)
NonRedundant(S) == \A i, j \in 1..Len(S) : i # j => ~NMatches(S[i], S[j])
ValidSubjects(S) == \A i \in 1..Len(S) : ValidNatsSubject(S[i])
\* nothing outside the owned space is subscribed: every subscription lies under an owned pattern
Typed(x, t) == Len(Tokens(x)) > 1 /\ Head(Tokens(x)) = t
Exactness(cfg, S) ==
    \A i \in 1..Len(S) :
        \/ Typed(S[i], <<"a","c","c","e","s","s">>) /\ \E p \in SeqSet(OwnedAcc(cfg)) : NMatches(Cat(<<"a","c","c","e","s","s">>, p), S[i])
        \/ Typed(S[i], <<"g","e","t">>) /\ \E p \in SeqSet(OwnedRes(cfg)) : NMatches(Cat(<<"g","e","t">>, p), S[i])
        \/ \E t \in {<<"c","a","l","l">>, <<"a","u","t","h">>} :
              Typed(S[i], t) /\ \E p \in SeqSet(OwnedRes(cfg)) :
                  NMatches(Cat(t, p), S[i]) \/ NMatches(Cat(Cat(t, p), <<"*">>), S[i])
ResetAnnounces(cfg, res, acc) == SeqSet(res) = SeqSet(OwnedRes(cfg)) /\ SeqSet(acc) = SeqSet(OwnedAcc(cfg))
=============================================================================

SPECIFICATION Spec
CONSTANTS
  MaxRegs = 3
  MaxToks = 2
  MaxNameToks = 3
INVARIANTS UniqueMostSpecific RouteSound OrderSane
CHECK_DEADLOCK FALSE

SPECIFICATION Spec
CONSTANTS
  Ids = {1, 2}
  MaxMut = 3
  SentinelFlush = TRUE
INVARIANTS AfterFlush NotifiedAfterCommit ChainPerId
CHECK_DEADLOCK FALSE

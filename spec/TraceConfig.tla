------------------------------ MODULE TraceConfig ------------------------------
(* Binding for ResConfig: one record per run of ONE real Service value through a     *)
(* behaviour of ResConfig (setter calls, Serve, Shutdown).  evs[i] is the step and    *)
(* what was observed on the real service right after it:                              *)
(*   set      x, v, panic (the setter panicked)                                       *)
(*   serve    inch (capacity of the request channel), queue, subs (ownership the      *)
(*            subscriptions were made for), reset (ownership announced by the reset   *)
(*            that Serve sends), dur ("short" | "long" | "unobserved"), conn (number of *)
(*            the Serve call whose connection an event sent through a Resource value    *)
(*            of the first life went out on)                                            *)
(*   probe    reset: ownership announced by a ResetAll made now                        *)
(*   shutdown workers: worker goroutines that ended                                    *)
(* Values are abstracted to ResConfig's Vals by the harness; 99 = none of them.        *)
EXTENDS ResConfig, Json
Trace == ndJsonDeserialize("trace.ndjson")
VARIABLE l
Stride == 64
TInit == /\ l \in 1..(IF Len(Trace) < Stride THEN Len(Trace) ELSE Stride)
         /\ Init
TNext == l + Stride <= Len(Trace) /\ l' = l + Stride /\ UNCHANGED st
R == Trace[l]
S0 == [life |-> "stopped", lives |-> 0, cfg |-> [x \in Settings |-> 0], eff |-> [x \in Settings |-> 0], panic |-> FALSE, conn |-> 0]
StepE(s, e) == CASE e.a = "set" -> SetF(s, e.x, e.v)
                 [] e.a = "serve" -> ServeF(s)
                 [] e.a = "shutdown" -> ShutdownF(s)
                 [] OTHER -> s
DurClass(v) == IF v = 1 THEN "short" ELSE "long"
J(f) == R.judge = "all" \/ R.judge = f
\* e was observed in state s (the state after the step; for shutdown the life that ended is still in s.eff)
EvOK(s, e) ==
    CASE e.a = "set" -> J("panic") => e.panic = s.panic
      [] e.a = "serve" -> /\ J("inch") => e.inch = ObsInCh(s)
                          /\ J("queue") => e.queue = ObsQueue(s)
                          /\ J("subs") => e.subs = ObsSubs(s)
                          /\ J("reset") => e.reset = ObsReset(s)
                          /\ J("conn") => e.conn = ObsConn(s)
                          /\ J("dur") => (e.dur = "unobserved" \/ e.dur = DurClass(ObsDur(s)))
      [] e.a = "probe" -> J("reset") => e.reset = ObsReset(s)
      [] e.a = "shutdown" -> J("workers") => e.workers = ObsWorkers(s)
      [] OTHER -> FALSE
RECURSIVE FirstBad(_, _, _)
FirstBad(s, evs, i) ==
    IF i > Len(evs) THEN 0
    ELSE LET n == StepE(s, evs[i]) IN IF EvOK(n, evs[i]) THEN FirstBad(n, evs, i + 1) ELSE i
RunOK == FirstBad(S0, R.evs, 1) = 0
=============================================================================

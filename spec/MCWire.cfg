SPECIFICATION Spec
INVARIANTS Total Equivalence Protocol
CHECK_DEADLOCK FALSE

------------------------------ MODULE TraceLegacy ------------------------------
(* Binding for C20: one record per event history on a real middleware-backed     *)
(* resource: per event what was published, what listeners received, what get and *)
(* Value() served afterwards; and what get serves after the database is reopened. *)
EXTENDS ResLegacy, Json
Trace == ndJsonDeserialize("trace.ndjson")
VARIABLE l
Stride == 64
Init == l \in 1..(IF Len(Trace) < Stride THEN Len(Trace) ELSE Stride)
Next == l + Stride <= Len(Trace) /\ l' = l + Stride
R == Trace[l]
Upto == IF R.upto = 0 THEN Len(R.evs) ELSE R.upto
\* upto = 99999: a resource whose history ran while other resources of the pattern were changed too: only the
\* end is observed - what get serves, before and after reopening, is the fold of the resource's own events
ConcurrentOK == LET s == Served(LFold(Missing, R.def, R.evs, 1), R.def)
                IN /\ SameRes(R.last, s) /\ SameRes(R.reopened, s)
                   \* gets made while the other resources of the pattern were read too
                   /\ \A k \in 1..Len(R.reads) : SameRes(R.reads[k], s)
HistoryOK == IF R.upto = 99999 THEN ConcurrentOK ELSE
             /\ LFirstBad(Missing, R.def, SubSeq(R.evs, 1, Upto), 1) = 0
             /\ (R.upto = 0 => SameRes(R.reopened, R.last))     \* the same after close and reopen
=============================================================================

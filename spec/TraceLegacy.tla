------------------------------ MODULE TraceLegacy ------------------------------
(* Binding for C20: one record per event history on a real middleware-backed     *)
(* resource: per event what was published, what listeners received, what get and *)
(* Value() served afterwards; and what get serves after the database is reopened. *)
EXTENDS ResLegacy, Json
Trace == ndJsonDeserialize("trace.ndjson")
VARIABLE l
Stride == 64
Init == l \in 1..(IF Len(Trace) < Stride THEN Len(Trace) ELSE Stride)
Next == l + Stride <= Len(Trace) /\ l' = l + Stride
R == Trace[l]
Upto == IF R.upto = 0 THEN Len(R.evs) ELSE R.upto
HistoryOK == /\ LFirstBad(Missing, R.def, SubSeq(R.evs, 1, Upto), 1) = 0
             /\ (R.upto = 0 => SameRes(R.reopened, R.last))     \* the same after close and reopen
=============================================================================

SPECIFICATION Spec
CONSTANTS
  Vals = {0, 1, 2}
  MaxLives = 3
  Carried = {}
INVARIANTS TypeOK RunsAsConfigured OwnConnection
PROPERTIES ServeTakesAll RefusedStoresNothing

------------------------------- MODULE ResStore -------------------------------
(***************************************************************************)
(* Stores as a per-id linearizable map with exact change callbacks (C11):   *)
(* store/store.go (the contract), badgerstore/store.go, mockstore/store.go. *)
(*                                                                         *)
(* Sequential reference (used by the binding): SeqStep applies one call to  *)
(* the map and says what the call must return and which callback it makes.  *)
(* Concurrent model (checked by TLC): goroutines open read/write            *)
(* transactions under the per-id readers/writer lock, perform calls and     *)
(* close; ExclusiveWrite and Chain are invariants of every interleaving.    *)
(***************************************************************************)
EXTENDS Naturals, Sequences, FiniteSets, TLC
NoVal == "NONE"

\* ---- sequential reference -----------------------------------------------------
\* db: function id -> value over the ids present.  A call c:
\*   [op, id, v]  with op in create|update|delete|value|exists ; v is the argument ("" if none),
\*   "WRONG" a value of the wrong type, "VETO" a value the BeforeChange hook refuses.
\* genids: the store generates ids for Create on the empty id.  Reads, updates and deletes on the empty
\* id fail (not-found, or another error where the backend rejects the empty key).
Has(db, id) == id \in DOMAIN db
Put(db, id, v) == [x \in DOMAIN db \cup {id} |-> IF x = id THEN v ELSE db[x]]
Drop(db, id) == [x \in DOMAIN db \ {id} |-> db[x]]
\* result: [res |-> "ok"|"duplicate"|"notfound"|"error", val |-> value read or NoVal, db |-> new map, cb |-> <<>> or <<id, before, after>>]
SeqStep(db, c0, genids) ==
    \* a Create on the empty id of a store that generates ids is a Create on the generated id (c0.gen)
    LET c == IF c0.op = "create" /\ c0.id = "" /\ genids THEN [c0 EXCEPT !.id = c0.gen] ELSE c0
        same(r) == [res |-> r, alt |-> r, val |-> NoVal, db |-> db, cb |-> <<>>]
        \* two reasons to fail at once: either error is acceptable
        either(r1, r2) == [res |-> r1, alt |-> r2, val |-> NoVal, db |-> db, cb |-> <<>>] IN
    CASE c.op = "create" ->
            IF c.id = "" THEN same("error")
            ELSE IF Has(db, c.id) THEN (IF c.v \in {"WRONG", "VETO"} THEN either("duplicate", "error") ELSE same("duplicate"))
            ELSE IF c.v \in {"WRONG", "VETO"} THEN same("error")
            ELSE [res |-> "ok", alt |-> "ok", val |-> NoVal, db |-> Put(db, c.id, c.v), cb |-> <<c.id, NoVal, c.v>>]
      [] c.op = "update" ->
            IF c.id = "" THEN either("notfound", "error")
            ELSE IF ~Has(db, c.id) THEN (IF c.v \in {"WRONG", "VETO"} THEN either("notfound", "error") ELSE same("notfound"))
            ELSE IF c.v \in {"WRONG", "VETO"} THEN same("error")
            ELSE [res |-> "ok", alt |-> "ok", val |-> NoVal, db |-> Put(db, c.id, c.v), cb |-> <<c.id, db[c.id], c.v>>]
      [] c.op = "delete" ->
            IF c.id = "" THEN either("notfound", "error")
            ELSE IF ~Has(db, c.id) THEN same("notfound")
            ELSE IF c.v = "VETO" THEN same("error")
            ELSE [res |-> "ok", alt |-> "ok", val |-> NoVal, db |-> Drop(db, c.id), cb |-> <<c.id, db[c.id], NoVal>>]
      [] c.op = "value" ->
            IF c.id = "" THEN either("notfound", "error")
            ELSE IF ~Has(db, c.id) THEN same("notfound") ELSE [res |-> "ok", alt |-> "ok", val |-> db[c.id], db |-> db, cb |-> <<>>]
      [] c.op = "exists" -> same(IF Has(db, c.id) THEN "ok" ELSE "notfound")
      [] OTHER -> same("error")

\* first index (1-based) at which the observed history deviates from the reference, 0 if none.
\* calls[i] carries the observed result res, value val and callbacks cbs (sequence of <<id,before,after>>), ncb = registered callbacks
RECURSIVE FirstBad(_, _, _, _, _)
FirstBad(db, calls, i, genids, ncb) ==
    IF i > Len(calls) THEN 0
    ELSE LET c == calls[i]
             r == SeqStep(db, c, genids)
             expCbs == IF r.cb = <<>> THEN <<>> ELSE [k \in 1..ncb |-> r.cb]
         IN IF (c.res # r.res /\ c.res # r.alt) \/ c.val # r.val \/ c.cbs # expCbs THEN i
            ELSE FirstBad(r.db, calls, i + 1, genids, ncb)

=============================================================================

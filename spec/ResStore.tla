------------------------------- MODULE ResStore -------------------------------
(***************************************************************************)
(* Stores as a per-id linearizable map with exact change callbacks (C11):   *)
(* store/store.go (the contract), badgerstore/store.go, mockstore/store.go. *)
(*                                                                         *)
(* Sequential reference (used by the binding): SeqStep applies one call to  *)
(* the map and says what the call must return and which callback it makes.  *)
(* Concurrent model (checked by TLC): goroutines open read/write            *)
(* transactions under the per-id readers/writer lock, perform calls and     *)
(* close; ExclusiveWrite and Chain are invariants of every interleaving.    *)
(***************************************************************************)
EXTENDS Naturals, Sequences, FiniteSets, TLC
NoVal == "NONE"

\* ---- sequential reference -----------------------------------------------------
\* db: function id -> value over the ids present.  A call c:
\*   [op, id, v]  with op in create|update|delete|value|exists ; v is the argument ("" if none),
\*   "WRONG" a value of the wrong type, "VETO" a value the BeforeChange hook refuses.
\* genids: the store generates ids for Create on the empty id.
Has(db, id) == id \in DOMAIN db
Put(db, id, v) == [x \in DOMAIN db \cup {id} |-> IF x = id THEN v ELSE db[x]]
Drop(db, id) == [x \in DOMAIN db \ {id} |-> db[x]]
\* result: [res |-> "ok"|"duplicate"|"notfound"|"error", val |-> value read or NoVal, db |-> new map, cb |-> <<>> or <<id, before, after>>]
SeqStep(db, c, genids) ==
    LET same(r) == [res |-> r, val |-> NoVal, db |-> db, cb |-> <<>>] IN
    CASE c.op = "create" ->
            IF c.id = "" /\ ~genids THEN same("error")
            ELSE IF Has(db, c.id) THEN same("duplicate")
            ELSE IF c.v \in {"WRONG", "VETO"} THEN same("error")
            ELSE [res |-> "ok", val |-> NoVal, db |-> Put(db, c.id, c.v), cb |-> <<c.id, NoVal, c.v>>]
      [] c.op = "update" ->
            IF ~Has(db, c.id) THEN same("notfound")
            ELSE IF c.v \in {"WRONG", "VETO"} THEN same("error")
            ELSE [res |-> "ok", val |-> NoVal, db |-> Put(db, c.id, c.v), cb |-> <<c.id, db[c.id], c.v>>]
      [] c.op = "delete" ->
            IF ~Has(db, c.id) THEN same("notfound")
            ELSE IF c.v = "VETO" THEN same("error")
            ELSE [res |-> "ok", val |-> NoVal, db |-> Drop(db, c.id), cb |-> <<c.id, db[c.id], NoVal>>]
      [] c.op = "value" ->
            IF ~Has(db, c.id) THEN same("notfound") ELSE [res |-> "ok", val |-> db[c.id], db |-> db, cb |-> <<>>]
      [] c.op = "exists" -> [res |-> (IF Has(db, c.id) THEN "ok" ELSE "notfound"), val |-> NoVal, db |-> db, cb |-> <<>>]
      [] OTHER -> same("error")

\* first index (1-based) at which the observed history deviates from the reference, 0 if none.
\* calls[i] carries the observed result res, value val and callbacks cbs (sequence of <<id,before,after>>), ncb = registered callbacks
RECURSIVE FirstBad(_, _, _, _, _)
FirstBad(db, calls, i, genids, ncb) ==
    IF i > Len(calls) THEN 0
    ELSE LET c == calls[i]
             r == SeqStep(db, c, genids)
             expCbs == IF r.cb = <<>> THEN <<>> ELSE [k \in 1..ncb |-> r.cb]
         IN IF c.res # r.res \/ c.val # r.val \/ c.cbs # expCbs THEN i
            ELSE FirstBad(r.db, calls, i + 1, genids, ncb)

\* ---- concurrent model ------------------------------------------------------------
CONSTANTS Procs, Ids, Vals, MaxOps
VARIABLES db, readers, writer, txn, nops, cblog
vars == <<db, readers, writer, txn, nops, cblog>>
\* txn[p]: [mode |-> "none"|"r"|"w", id]
CInit == /\ db = <<>> /\ readers = [i \in Ids |-> {}] /\ writer = [i \in Ids |-> "none"]
         /\ txn = [p \in Procs |-> [mode |-> "none", id |-> ""]] /\ nops = [p \in Procs |-> 0] /\ cblog = <<>>
OpenRead(p, i) == /\ txn[p].mode = "none" /\ writer[i] = "none" /\ nops[p] < MaxOps
                  /\ readers' = [readers EXCEPT ![i] = @ \cup {p}] /\ txn' = [txn EXCEPT ![p] = [mode |-> "r", id |-> i]]
                  /\ UNCHANGED <<db, writer, nops, cblog>>
OpenWrite(p, i) == /\ txn[p].mode = "none" /\ writer[i] = "none" /\ readers[i] = {} /\ nops[p] < MaxOps
                   /\ writer' = [writer EXCEPT ![i] = p] /\ txn' = [txn EXCEPT ![p] = [mode |-> "w", id |-> i]]
                   /\ UNCHANGED <<db, readers, nops, cblog>>
Call(p, op, v) ==
    /\ txn[p].mode # "none" /\ nops[p] < MaxOps
    /\ (txn[p].mode = "r" => op \in {"value", "exists"})
    /\ LET r == SeqStep(db, [op |-> op, id |-> txn[p].id, v |-> v], FALSE) IN
       /\ db' = r.db
       /\ cblog' = IF r.cb = <<>> THEN cblog ELSE Append(cblog, r.cb)
    /\ nops' = [nops EXCEPT ![p] = @ + 1]
    /\ UNCHANGED <<readers, writer, txn>>
Close(p) == /\ txn[p].mode # "none"
            /\ readers' = [readers EXCEPT ![txn[p].id] = @ \ {p}]
            /\ writer' = [writer EXCEPT ![txn[p].id] = IF @ = p THEN "none" ELSE @]
            /\ txn' = [txn EXCEPT ![p] = [mode |-> "none", id |-> ""]]
            /\ UNCHANGED <<db, nops, cblog>>
CNext == \E p \in Procs : \/ \E i \in Ids : OpenRead(p, i) \/ OpenWrite(p, i)
                          \/ \E op \in {"create", "update", "delete", "value", "exists"}, v \in Vals \cup {"WRONG"} : Call(p, op, v)
                          \/ Close(p)
CSpec == CInit /\ [][CNext]_vars
ExclusiveWrite == \A i \in Ids : writer[i] # "none" => (readers[i] = {} /\ Cardinality({p \in Procs : txn[p].mode = "w" /\ txn[p].id = i}) = 1)
\* per id, the callbacks chain: each before-value is the previous after-value, the first is "none"
Chain == \A i \in Ids :
            LET s == SelectSeq(cblog, LAMBDA e : e[1] = i) IN
            /\ (s # <<>> => s[1][2] = NoVal)
            /\ \A k \in 1..(Len(s) - 1) : s[k + 1][2] = s[k][3]
            /\ (s # <<>> => (IF Has(db, i) THEN s[Len(s)][3] = db[i] ELSE s[Len(s)][3] = NoVal))
=============================================================================

----------------------------- MODULE TraceRequest -----------------------------
(* Binding of ResRequest to the implementation (C04, C05, C07, C08): one       *)
(* record per request executed on the real service.                            *)
(*   sc    the scenario (request, handler configuration, script)               *)
(*   inv   the handler kind that actually ran ("none" if none)                 *)
(*   out   the messages published while the request was processed, abstracted  *)
(*         by the harness' protocol parser: [to, kind, code, meta]             *)
(*   log   apply / publish / listener effects in the order they happened       *)
(*   sent / seen   request data as sent and as the handler saw it              *)
(*   probe the service answered a follow-up request                            *)
EXTENDS ResRequest, Json
Trace == ndJsonDeserialize("trace.ndjson")
VARIABLE l
Stride == 64
Init == l \in 1..(IF Len(Trace) < Stride THEN Len(Trace) ELSE Stride)
Next == l + Stride <= Len(Trace) /\ l' = l + Stride
R == Trace[l]
SetOf(s) == {s[i] : i \in 1..Len(s)}
Sc == [R.sc EXCEPT !.calls = SetOf(R.sc.calls), !.auths = SetOf(R.sc.auths)]
Ref == Run(Sc)
ReplyMsgs(out) == SelectSeq(out, LAMBDA m : m.to = "reply")
Clause(c) ==
    CASE c = "C04:exactly-one"  -> ExactlyOne(Sc, [out |-> R.out])
      [] c = "C04:survives"     -> R.probe
      [] c = "C05:dispatch"     -> R.inv = Ref.inv
      [] c = "C05:unaltered"    -> R.seen = R.sent
      [] c = "C05:response"     -> ReplyMsgs(R.out) = ReplyMsgs(Ref.out)
      [] c = "C07:wellformed"   -> R.malformed = <<>>
      [] c = "C07:meta"         -> MetaOnlyHttp(Sc, [out |-> R.out])
      [] c = "C07:messages"     -> R.out = Ref.out
      [] c = "C08:log"          -> R.log = Ref.log
      [] c = "C08:order"        -> EventOrder(Sc, [log |-> R.log]) /\ ProgramOrder([log |-> R.log])
      [] OTHER -> FALSE
All == {"C04:exactly-one", "C04:survives", "C05:dispatch", "C05:unaltered", "C05:response", "C07:wellformed", "C07:meta", "C07:messages", "C08:log", "C08:order"}
RecordOK == IF R.judge = "all" THEN \A c \in All : Clause(c) ELSE Clause(R.judge)
=============================================================================

------------------------------ MODULE MCRequest ------------------------------
(* Model check of ResRequest: every scenario of the bound with every script   *)
(* of up to MaxLen steps; the properties are evaluated on the reference       *)
(* outcome of every (scenario, script) pair.                                   *)
EXTENDS ResRequest
CONSTANTS MaxLen
Replies(rt) ==
    CASE rt = "access" -> {"access", "access-none", "accessdenied", "accessgranted", "notfound", "invalidquery", "error-res", "error-plain"}
      [] rt = "get"    -> {"model", "querymodel", "collection", "model-bad", "notfound", "invalidquery", "error-res", "error-plain"}
      [] rt = "new"    -> {"new", "new-bad", "notfound", "methodnotfound", "invalidparams", "error-res"}
      [] OTHER         -> {"ok", "ok-nil", "ok-bad", "resource", "resource-bad", "notfound", "methodnotfound", "invalidparams", "invalidparams-msg", "invalidquery", "error-res", "error-plain"}
Others(rt) ==
    {"ev-custom-bad", "ev-change-bad", "ev-add-bad", "timeout", "timeout-neg", "ev-custom", "ev-reserved", "ev-malformed", "ev-change", "ev-change-empty", "ev-add", "ev-add-neg", "ev-remove",
     "ev-remove-neg", "ev-create", "ev-delete", "ev-reaccess", "ev-reset", "panic-res", "panic-err", "panic-str", "panic-int", "panic-nil", "panic-typednil"}
    \cup {"ev-dollar", "ev-empty", "ev-wild"}
    \cup {"try-ev-custom", "try-ev-change", "try-ev-add", "try-ev-create", "try-panic-str"}
    \cup (IF rt \in {"access", "call", "auth"} THEN {"status", "header", "status-redirect", "header-location"} ELSE {})
    \cup (IF rt = "auth" THEN {"tokenevent"} ELSE {})
    \cup (IF rt # "get" THEN {"value"} ELSE {})
\* steps that the reference treats exactly like another step of the alphabet (same branch of Do): left out of the
\* scripts of length 3, where the alphabet enters the state count to the third power
Redundant == {"panic-str", "panic-int", "panic-typednil", "ev-empty", "ev-wild", "ev-add-neg", "ev-remove-neg", "invalidparams-msg",
              "header-location", "status-redirect", "try-ev-add", "try-ev-create"}
Alphabet(rt) == IF MaxLen >= 3 THEN (Replies(rt) \cup Others(rt)) \ Redundant ELSE Replies(rt) \cup Others(rt)

Aps == { [change |-> "absent", add |-> "absent", remove |-> "absent", create |-> "absent", delete |-> "absent"],
         [change |-> "ok", add |-> "ok", remove |-> "ok", create |-> "ok", delete |-> "ok"],
         [change |-> "fail", add |-> "fail", remove |-> "fail", create |-> "fail", delete |-> "fail"],
         [change |-> "noop", add |-> "ok", remove |-> "ok", create |-> "ok", delete |-> "ok"] }
Scenarios ==
  LET All ==
    { [rtype |-> (IF k = "new" THEN "call" ELSE k), method |-> (IF k = "new" THEN "new" ELSE IF k \in {"call", "auth"} THEN "m" ELSE ""),
       matched |-> mt, payload |-> pl, http |-> h, hasAccess |-> hc, hasGet |-> hc, hasNew |-> (k = "new" /\ hc),
       calls |-> (IF hc THEN {"m"} ELSE {"*"}), auths |-> (IF hc THEN {"m"} ELSE {}), rt |-> rt, ap |-> ap, nl |-> nl, script |-> <<>>, kind |-> k, pubfail |-> pf, lpanic |-> lp]
      : k \in {"access", "get", "call", "auth", "new"}, mt \in BOOLEAN, pl \in {"empty", "valid", "malformed"}, h \in BOOLEAN,
        hc \in BOOLEAN, rt \in {"model", "collection", "unset"}, ap \in Aps, nl \in {0, 2}, pf \in BOOLEAN, lp \in {0, 1} }
  IN {s \in All : s.nl = 0 => s.lpanic = 0}

VARIABLE sc
Init == sc \in Scenarios
Next == /\ Len(sc.script) < MaxLen
        /\ Invoked(sc) # "none"
        /\ Steps(sc, St0, 1).pan = ""
        /\ \E a \in Alphabet(sc.kind) : sc' = [sc EXCEPT !.script = Append(@, a)]
Spec == Init /\ [][Next]_sc

O == Run(sc)
C04_ExactlyOne == ExactlyOne(sc, O)
C04_AtMostOne == Responses(O.out) <= 1
C07_MetaOnlyHttp == MetaOnlyHttp(sc, O)
C08_EventOrder == EventOrder(sc, O)
C08_ProgramOrder == ProgramOrder(O)
C05_Dispatch == (O.inv = "none") <=> (~sc.matched \/ sc.payload = "malformed" \/ Invoked(sc) = "none")
\* nothing is published for a failed or no-op apply, nor for an invalid event call
\* a listener's panic, recovered by the handler, does not silence the listeners of later events
C08_ListenersSurviveRecovery ==
    \A i \in 1..Len(O.log) : (O.log[i][1] = "pub" /\ sc.nl > 0 /\ ~sc.pubfail) =>
        \E j \in 1..Len(O.log) : O.log[j][1] = "listen" /\ O.log[j][3] = O.log[i][3] /\ O.log[j][4] = 1
C08_NoPublishOnFailure ==
    \A i \in 1..Len(O.log) : O.log[i][1] = "apply" =>
        LET ev == O.log[i][2] k == O.log[i][3] IN
        (sc.ap[ev] \in {"fail", "noop"}) => ~\E j \in 1..Len(O.log) : O.log[j][3] = k /\ O.log[j][1] \in {"pub", "listen"}
=============================================================================

------------------------------- MODULE ResIndex -------------------------------
(***************************************************************************)
(* Index queries of the BadgerDB query store (properties C13, C14):         *)
(* badgerstore/index.go FetchCollection, querystore.go updateIndex /        *)
(* affectsQuery.  Keys and ids are byte strings (sequences of numbers).     *)
(*                                                                         *)
(* An entry is [id, key, idx]: the stored value of id has index key `key`   *)
(* (idx = FALSE: the key function returned nil - not indexed).              *)
(* A query is [prefix, filter ("none" | "odd": last byte of the key is      *)
(* odd), offset, limit (negative = unlimited), reverse].                    *)
(***************************************************************************)
EXTENDS Naturals, Integers, Sequences, FiniteSets, TLC

\* bytewise order on byte strings
RECURSIVE BLess(_, _)
BLess(a, b) == IF a = <<>> THEN b # <<>>
               ELSE IF b = <<>> THEN FALSE
               ELSE IF Head(a) # Head(b) THEN Head(a) < Head(b)
               ELSE BLess(Tail(a), Tail(b))
\* order of index entries: by key, then by id
ELess(x, y) == IF x.key # y.key THEN BLess(x.key, y.key) ELSE BLess(x.id, y.id)

IsPrefixOf(p, k) == Len(p) <= Len(k) /\ SubSeq(k, 1, Len(p)) = p
PassFilter(f, k) == f = "none" \/ (k # <<>> /\ k[Len(k)] % 2 = 1)

RECURSIVE SortSet(_)
SortSet(S) == IF S = {} THEN <<>>
              ELSE LET m == CHOOSE x \in S : \A y \in S \ {x} : ELess(x, y) IN <<m>> \o SortSet(S \ {m})
Rev(s) == [i \in 1..Len(s) |-> s[Len(s) + 1 - i]]

\* entries: a set of entries with distinct ids
Matching(entries, q) == {e \in entries : e.idx /\ IsPrefixOf(q.prefix, e.key) /\ PassFilter(q.filter, e.key)}
RefQuery(entries, q) ==
    LET ordered == IF q.reverse THEN Rev(SortSet(Matching(entries, q))) ELSE SortSet(Matching(entries, q))
        from == IF q.offset < Len(ordered) THEN q.offset + 1 ELSE Len(ordered) + 1
        avail == Len(ordered) - from + 1
        n == IF q.limit < 0 THEN avail ELSE IF q.limit < avail THEN q.limit ELSE avail
    IN [i \in 1..n |-> ordered[from + i - 1].id]

\* ---- query change (C14) -------------------------------------------------------
\* a mutation of one id: before / after are entries (idx = FALSE also stands for "no value")
KeyChanged(b, a) == (b.idx # a.idx) \/ (b.idx /\ a.idx /\ b.key # a.key)
Hits(e, q) == e.idx /\ IsPrefixOf(q.prefix, e.key) /\ PassFilter(q.filter, e.key)
\* the change must be reported as affecting q whenever the result of q differs ...
MustAffect(entriesBefore, entriesAfter, q) == RefQuery(entriesBefore, q) # RefQuery(entriesAfter, q)
\* ... and as not affecting it when neither the old nor the new key matches
MustNotAffect(b, a, q) == ~Hits(b, q) /\ ~Hits(a, q)
=============================================================================

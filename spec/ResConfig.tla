------------------------------ MODULE ResConfig ------------------------------
(***************************************************************************)
(* The configuration of a Service over its lives (Serve ... Shutdown,       *)
(* Serve ... Shutdown, ...): which value of a setting the running service   *)
(* works with.  service.go: SetQueryEventDuration, SetWorkerCount,          *)
(* SetInChannelSize (refused with a panic while the service runs),          *)
(* SetQueueGroup, SetOwnedResources (accepted at any time), serve()         *)
(* (allocates channel, work queue, workers and timer queue of the life from *)
(* the configured values, subscribes with queue group and ownership),       *)
(* ResetAll (announces the ownership configured at that moment).            *)
(*                                                                         *)
(* "A stopped service can be served again and then gives all the same       *)
(* guarantees" (C03), the subscriptions and reset announcements (C09) and   *)
(* the query event duration (C15) all rest on one rule: a life works with   *)
(* the values configured when its Serve call was made - nothing is carried  *)
(* over from an earlier life.                                               *)
(*                                                                         *)
(* The state is one record st so that the transition functions can be used  *)
(* both as actions (model checking, simulation) and for judging recorded    *)
(* runs of the real service (TraceConfig).                                  *)
(***************************************************************************)
EXTENDS Naturals, Sequences, FiniteSets, TLC
CONSTANTS Vals,        \* abstract values of a setting; 0 is the value a new service has
          MaxLives,    \* bound on Serve calls (model checking only)
          Carried      \* settings whose value a later life (wrongly) inherits from the first: {} is the design
Guarded == {"dur", "workers", "inch"}   \* setters refused with a panic while the service runs
Free == {"queue", "owned"}              \* setters accepted at any time
Settings == Guarded \cup Free
VARIABLE st
\* st.life    "stopped" | "started"
\* st.lives   number of Serve calls made
\* st.cfg     [Settings -> Vals]  what the setters have stored
\* st.eff     [Settings -> Vals]  what the current (or last) life was started with
\* st.panic   the last step was a setter that panicked
\* st.conn    the connection the service publishes on (each Serve call is given a new one; 0: none yet)
Init == st = [life |-> "stopped", lives |-> 0, cfg |-> [x \in Settings |-> 0], eff |-> [x \in Settings |-> 0], panic |-> FALSE, conn |-> 0]

SetF(s, x, v) ==
    IF s.life = "started" /\ x \in Guarded
    THEN [s EXCEPT !.panic = TRUE]                       \* panic(serviceAlreadyStarted), nothing stored
    ELSE [s EXCEPT !.cfg[x] = v, !.panic = FALSE]
ServeF(s) ==
    [s EXCEPT !.life = "started", !.lives = @ + 1, !.panic = FALSE, !.conn = s.lives + 1,
              !.eff = [x \in Settings |-> IF x \in Carried /\ s.lives > 0 THEN s.eff[x] ELSE s.cfg[x]]]
ShutdownF(s) == [s EXCEPT !.life = "stopped", !.panic = FALSE]

\* ---- what can be observed on a running service ----------------------------
\* workers started, capacity of the request channel, queue group and subjects of the subscriptions, duration
\* after which a query event ends: all as the life was started
ObsWorkers(s) == s.eff["workers"]
ObsInCh(s) == s.eff["inch"]
ObsQueue(s) == s.eff["queue"]
ObsSubs(s) == s.eff["owned"]
ObsDur(s) == s.eff["dur"]
\* events - also those sent through a Resource value obtained in an earlier life - go out on the connection of this life
ObsConn(s) == s.conn
\* ResetAll announces the ownership that is configured now
ObsReset(s) == s.cfg["owned"]

Set(x, v) == st.life \in {"stopped", "started"} /\ st' = SetF(st, x, v)
Serve == st.life = "stopped" /\ st.lives < MaxLives /\ st' = ServeF(st)
Shutdown == st.life = "started" /\ st' = ShutdownF(st)
Next == (\E x \in Settings, v \in Vals : Set(x, v)) \/ Serve \/ Shutdown
Spec == Init /\ [][Next]_st

TypeOK == /\ st.life \in {"stopped", "started"} /\ st.lives \in 0..MaxLives
          /\ st.cfg \in [Settings -> Vals] /\ st.eff \in [Settings -> Vals] /\ st.conn \in 0..MaxLives
\* a running service works with what was configured when it was started: the guarded settings cannot have
\* changed since, the free ones show at the next Serve
RunsAsConfigured == st.life = "started" => \A x \in Guarded : st.eff[x] = st.cfg[x]
\* Serve takes every setting from the configuration (action property)
ServeTakesAll == [][(st.life = "stopped" /\ st'.life = "started") => st'.eff = st.cfg]_st
\* a running service publishes on the connection its Serve call was given
OwnConnection == st.life = "started" => st.conn = st.lives
\* a refused setter stores nothing
RefusedStoresNothing == [][st'.panic => st'.cfg = st.cfg]_st
=============================================================================

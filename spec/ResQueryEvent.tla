--------------------------- MODULE ResQueryEvent ---------------------------
(***************************************************************************)
(* One query event from QueryEvent() to its release (property C15):         *)
(* resource.go QueryEvent, queryevent.go startQueryListener /               *)
(* handleQueryRequest, service.go queryEventExpire.  The worker group of    *)
(* the resource is abstracted to a FIFO executed one callback at a time     *)
(* (that is C01/C02).                                                       *)
(*                                                                         *)
(*   Subscribe        ChanSubscribe on a fresh inbox (may fail)             *)
(*   Deliver(i)       the NATS client puts request i into the channel;      *)
(*                    possible until the subscription is removed, i.e. also *)
(*                    after the drain was requested                         *)
(*   ListenerTake     the listener goroutine receives from the channel      *)
(*   ListenerEnqueue  ... and hands the request to the group (runWith)      *)
(*   TimerFire, Drain the duration elapsed: queryEventExpire, sub.Drain()   *)
(*   EndQuery         the final callback with nil is queued in the group    *)
(*   RunCallback      the group runs its next callback: a request callback  *)
(*                    (always followed by exactly one reply - the wrapper   *)
(*                    replies when the callback did not) or the nil call    *)
(*   SubRemoved       NATS finished the drain                               *)
(*   ListenerExit     the listener goroutine ends                           *)
(*                                                                         *)
(* ListenerEndsQuery = FALSE is the code as shipped: queryEventExpire       *)
(* queues the nil call itself right after Drain and the listener never      *)
(* ends.  TRUE is the repaired design: expiry tells the listener to stop;   *)
(* the listener first hands over what is already in the channel, then       *)
(* queues the nil call and exits.                                           *)
(***************************************************************************)
EXTENDS Naturals, Sequences, FiniteSets, TLC
CONSTANTS Reqs,               \* request ids
          Cap,                \* channel capacity
          SubscribeCanFail,   \* BOOLEAN
          ListenerEndsQuery   \* BOOLEAN
None == "none"
NilCb == "nil"

VARIABLES sub,      \* "init" | "failed" | "active" | "draining" | "removed"
          ch,       \* channel content
          lis,      \* "none" | "run" | "exited"
          held,     \* request taken by the listener, not yet handed to the group
          timer,    \* "off" | "armed" | "fired" | "drained" | "done"
          stop,     \* the listener was told to stop (repaired design)
          gq,       \* the group's FIFO of pending callbacks
          cblog,    \* callbacks executed, in order
          replies,  \* [Reqs -> number of responses published]
          sent,     \* requests the NATS client has put into the channel
          published \* the query event itself was published
vars == <<sub, ch, lis, held, timer, stop, gq, cblog, replies, sent, published>>

Init == /\ sub = "init" /\ ch = <<>> /\ lis = "none" /\ held = None /\ timer = "off" /\ stop = FALSE
        /\ gq = <<>> /\ cblog = <<>> /\ replies = [i \in Reqs |-> 0] /\ sent = {} /\ published = FALSE

Subscribe ==
    /\ sub = "init"
    /\ \/ /\ sub' = "active" /\ published' = TRUE /\ lis' = "run" /\ timer' = "armed"
          /\ UNCHANGED <<gq>>
       \/ /\ SubscribeCanFail
          /\ sub' = "failed" /\ gq' = Append(gq, NilCb)   \* cb(nil) directly, nothing published
          /\ UNCHANGED <<published, lis, timer>>
    /\ UNCHANGED <<ch, held, stop, cblog, replies, sent>>

Deliver(i) ==
    /\ sub \in {"active", "draining"} /\ i \notin sent /\ Len(ch) < Cap
    /\ ch' = Append(ch, i) /\ sent' = sent \cup {i}
    /\ UNCHANGED <<sub, lis, held, timer, stop, gq, cblog, replies, published>>

ListenerTake ==
    /\ lis = "run" /\ held = None /\ ch # <<>>
    /\ held' = Head(ch) /\ ch' = Tail(ch)
    /\ UNCHANGED <<sub, lis, timer, stop, gq, cblog, replies, sent, published>>

ListenerEnqueue ==
    /\ lis = "run" /\ held # None
    /\ gq' = Append(gq, held) /\ held' = None
    /\ UNCHANGED <<sub, ch, lis, timer, stop, cblog, replies, sent, published>>

TimerFire == /\ timer = "armed" /\ timer' = "fired"
             /\ UNCHANGED <<sub, ch, lis, held, stop, gq, cblog, replies, sent, published>>
Drain == /\ timer = "fired" /\ timer' = "drained" /\ sub' = "draining"
         /\ UNCHANGED <<ch, lis, held, stop, gq, cblog, replies, sent, published>>
\* code as shipped: the expiry goroutine queues the nil call
ExpireEndQuery ==
    /\ ~ListenerEndsQuery /\ timer = "drained" /\ timer' = "done"
    /\ gq' = Append(gq, NilCb)
    /\ UNCHANGED <<sub, ch, lis, held, stop, cblog, replies, sent, published>>
\* repaired design: expiry only tells the listener to stop
ExpireStop ==
    /\ ListenerEndsQuery /\ timer = "drained" /\ timer' = "done" /\ stop' = TRUE
    /\ UNCHANGED <<sub, ch, lis, held, gq, cblog, replies, sent, published>>
ListenerEndQuery ==
    /\ ListenerEndsQuery /\ lis = "run" /\ stop /\ held = None /\ ch = <<>>
    /\ gq' = Append(gq, NilCb) /\ lis' = "exited"
    /\ UNCHANGED <<sub, ch, held, timer, stop, cblog, replies, sent, published>>
SubRemoved == /\ sub = "draining" /\ sub' = "removed"
              /\ UNCHANGED <<ch, lis, held, timer, stop, gq, cblog, replies, sent, published>>

RunCallback ==
    /\ gq # <<>>
    /\ cblog' = Append(cblog, Head(gq)) /\ gq' = Tail(gq)
    /\ replies' = IF Head(gq) \in Reqs THEN [replies EXCEPT ![Head(gq)] = @ + 1] ELSE replies
    /\ UNCHANGED <<sub, ch, lis, held, timer, stop, sent, published>>

Next == Subscribe \/ (\E i \in Reqs : Deliver(i)) \/ ListenerTake \/ ListenerEnqueue \/ TimerFire \/ Drain
        \/ ExpireEndQuery \/ ExpireStop \/ ListenerEndQuery \/ SubRemoved \/ RunCallback
Spec == Init /\ [][Next]_vars
FairSpec == Spec /\ WF_vars(Subscribe) /\ WF_vars(ListenerTake) /\ WF_vars(ListenerEnqueue) /\ WF_vars(TimerFire) /\ WF_vars(Drain)
                 /\ WF_vars(ExpireEndQuery) /\ WF_vars(ExpireStop) /\ WF_vars(ListenerEndQuery) /\ WF_vars(SubRemoved) /\ WF_vars(RunCallback)

\* ---- properties ---------------------------------------------------------
Count(x, s) == Cardinality({k \in 1..Len(s) : s[k] = x})
AtMostOneReply == \A i \in Reqs : replies[i] <= 1
NilAtMostOnce == Count(NilCb, cblog) <= 1
\* the nil call is the last callback ever made
NilLast == Count(NilCb, cblog) = 1 => cblog[Len(cblog)] = NilCb
FailedSub == sub = "failed" => ~published /\ (\A k \in 1..Len(cblog) : cblog[k] = NilCb)
\* liveness: every request the listener received is answered; the query ends with nil; everything is released
Answered == \A i \in Reqs : (held = i \/ \E k \in 1..Len(gq) : gq[k] = i) ~> (replies[i] = 1)
Ends == (sub = "active") ~> (Count(NilCb, cblog) = 1)
Released == (sub = "active") ~> (lis = "exited" /\ sub = "removed")
=============================================================================

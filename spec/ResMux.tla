------------------------------- MODULE ResMux -------------------------------
(***************************************************************************)
(* Registration and routing reference (property C06).                       *)
(*                                                                         *)
(* A registration is a record                                               *)
(*   [pat |-> full pattern (characters), grp |-> group template characters, *)
(*    par |-> Parallel flag, id |-> handler identity]                       *)
(* where the full pattern already includes service name, mount points and   *)
(* sub-mux paths.  Routing picks, among the registrations whose pattern     *)
(* matches the name, the most specific one: compare token by token from the *)
(* left, literal < placeholder (named or anonymous) < full wildcard.        *)
(***************************************************************************)
EXTENDS ResPattern

Rank(t) == IF IsFullTok(t) THEN 2 ELSE IF IsWildTok(t) THEN 1 ELSE 0

RECURSIVE MoreSpecificT(_, _)
MoreSpecificT(pt, qt) ==
    IF pt = <<>> \/ qt = <<>> THEN FALSE
    ELSE IF Rank(Head(pt)) # Rank(Head(qt)) THEN Rank(Head(pt)) < Rank(Head(qt))
    ELSE MoreSpecificT(Tail(pt), Tail(qt))
MoreSpecific(p, q) == MoreSpecificT(Tokens(p), Tokens(q))

\* the routing structure of a pattern: placeholder names do not matter
Struct(p) == LET ts == Tokens(p) IN [i \in 1..Len(ts) |-> IF IsWildTok(ts[i]) THEN <<"*">> ELSE ts[i]]
Conflict(p, q) == Struct(p) = Struct(q)

\* ---- group templates ----------------------------------------------------
TagChar(c) == c \in {"a","b","c","d","e","f","g","h","i","j","k","l","m","n","o","p","q","r","s","t","u","v","w","x","y","z",
                     "A","B","C","D","E","F","G","H","I","J","K","L","M","N","O","P","Q","R","S","T","U","V","W","X","Y","Z",
                     "0","1","2","3","4","5","6","7","8","9","_","-"}

\* Parse a template into parts <<"s", chars>> / <<"t", name>>; <<"ERR">> marks a malformed template.
RECURSIVE GParse(_, _, _, _)
GParse(g, i, cur, acc) ==
    LET flush == IF cur = <<>> THEN acc ELSE Append(acc, <<"s", cur>>) IN
    IF i > Len(g) THEN flush
    ELSE IF g[i] = "$" THEN
        IF i + 1 > Len(g) \/ g[i + 1] # "{" THEN <<<<"ERR">>>>
        ELSE LET ends == {j \in (i + 2)..Len(g) : g[j] = "}"} IN
             IF ends = {} THEN <<<<"ERR">>>>
             ELSE LET e == CHOOSE j \in ends : \A k \in ends : j <= k
                      name == SubSeq(g, i + 2, e - 1)
                  IN IF name = <<>> \/ \E c \in Chars(name) : ~TagChar(c) THEN <<<<"ERR">>>>
                     ELSE GParse(g, e + 1, <<>>, Append(flush, <<"t", name>>))
    ELSE GParse(g, i + 1, Append(cur, g[i]), acc)
GroupParts(g) == GParse(g, 1, <<>>, <<>>)

ValidGroup(g, p) ==
    LET ps == GroupParts(g) IN
    /\ \A i \in 1..Len(ps) : ps[i][1] # "ERR"
    /\ \A i \in 1..Len(ps) : ps[i][1] = "t" => ps[i][2] \in ParamNames(p)

RECURSIVE Concat(_)
Concat(ss) == IF ss = <<>> THEN <<>> ELSE Head(ss) \o Concat(Tail(ss))

\* the group id of resource name n handled by registration r
GroupOf(r, n) ==
    IF r.par THEN <<>>
    ELSE IF r.grp = <<>> THEN n
    ELSE LET ps == GroupParts(r.grp)
             vals == Values(r.pat, n)
         IN Concat([i \in 1..Len(ps) |-> IF ps[i][1] = "s" THEN ps[i][2] ELSE Lookup(vals, ps[i][2])[2]])

\* ---- acceptance ---------------------------------------------------------
\* what a registration must satisfy on its own
WellFormedReg(r) == ValidPattern(r.pat) /\ DistinctParams(r.pat) /\ (r.par \/ ValidGroup(r.grp, r.pat))
\* rs: sequence of already accepted registrations
MustReject(rs, r) == ~WellFormedReg(r) \/ \E i \in 1..Len(rs) : Conflict(rs[i].pat, r.pat)
MustAccept(rs, r) == WellFormedReg(r) /\ \A i \in 1..Len(rs) : ~Conflict(rs[i].pat, r.pat)

\* ---- routing ------------------------------------------------------------
MatchSet(rs, n) == {i \in 1..Len(rs) : Matches(rs[i].pat, n)}
\* index of the most specific matching registration, 0 if none
Route(rs, n) ==
    LET M == MatchSet(rs, n) IN
    IF M = {} THEN 0
    ELSE CHOOSE i \in M : \A j \in M \ {i} : MoreSpecific(rs[i].pat, rs[j].pat)
ParamsOf(r, n) == {Values(r.pat, n)[k] : k \in 1..Len(Values(r.pat, n))}
=============================================================================

--------------------------- MODULE TraceSchedObs ---------------------------
(***************************************************************************)
(* Observer specification for C01, C02, C03: the abstract state of the      *)
(* scheduler (per group: accepted-but-not-started callbacks in enqueue      *)
(* order, callbacks executing; which callbacks ran; the life-cycle phase)   *)
(* is reconstructed from the events recorded on the REAL service - enqueue  *)
(* events carry the order of the critical sections of runWith (they are     *)
(* logged under the service mutex), start/end events come from inside the   *)
(* harness callbacks - and the properties are evaluated at every step.      *)
(* Many runs are concatenated; "begin" starts a run, "endrun" ends it.      *)
(* Violated clauses are collected in viols as <<line, run, clause>> and      *)
(* printed at the end (printing instead of failing keeps one TLC run able   *)
(* to judge thousands of runs).                                             *)
(***************************************************************************)
EXTENDS Naturals, Sequences, FiniteSets, TLC, Json
Trace == ndJsonDeserialize("trace.ndjson")

VARIABLES l, run, pend, exec, started, refused, serves, rets, nworkers, viols
vars == <<l, run, pend, exec, started, refused, serves, rets, nworkers, viols>>
\* no life of the service is open: every Serve so far has been followed by a returned Shutdown
Stopped == serves = rets

Get(f, g, default) == IF g \in DOMAIN f THEN f[g] ELSE default
Put(f, g, v) == [x \in DOMAIN f \cup {g} |-> IF x = g THEN v ELSE f[x]]
\* pend entries are <<callback, life>>: the life (number of Serve calls so far) in which it was accepted
RECURSIVE RemoveFirst(_, _)
RemoveFirst(s, x) == IF s = <<>> THEN <<>> ELSE IF Head(s)[1] = x THEN Tail(s) ELSE <<Head(s)>> \o RemoveFirst(Tail(s), x)
KeepNewer(s, k) == SelectSeq(s, LAMBDA en : en[2] > k)

Init == /\ l = 1 /\ run = 0 /\ pend = <<>> /\ exec = <<>> /\ started = {} /\ refused = {}
        /\ serves = 0 /\ rets = 0 /\ nworkers = 0 /\ viols = <<>>

Flag(cond, clause) == IF cond THEN <<<<l, run, clause>>>> ELSE <<>>

Step ==
    LET e == Trace[l] IN
    /\ l <= Len(Trace)
    /\ l' = l + 1
    /\ CASE e.e = "begin" ->
              /\ run' = e.run /\ pend' = <<>> /\ exec' = <<>> /\ started' = {} /\ refused' = {}
              /\ serves' = 0 /\ rets' = 0 /\ nworkers' = e.workers /\ UNCHANGED viols
         [] e.e = "enq" ->
              /\ pend' = Put(pend, e.g, Append(Get(pend, e.g, <<>>), <<e.cb, serves>>))
              /\ UNCHANGED <<run, exec, started, refused, serves, rets, nworkers, viols>>
         [] e.e = "refuse" ->
              /\ refused' = refused \cup {e.cb}
              /\ UNCHANGED <<run, pend, exec, started, serves, rets, nworkers, viols>>
         [] e.e = "start" ->
              LET q == Get(pend, e.g, <<>>)
                  x == Get(exec, e.g, {}) IN
              /\ viols' = viols
                    \o Flag(e.g # "" /\ x # {}, "C01:overlap")                    \* another callback of the group is executing
                    \o Flag(e.g # "" /\ (q = <<>> \/ Head(q)[1] # e.cb), "C02:order")  \* not the oldest accepted callback of the group
                    \o Flag(e.cb \in started, "C02:twice")
                    \o Flag(e.cb \in refused, "C02:refused-ran")
                    \o Flag(Stopped, "C03:start-after-shutdown")
              /\ exec' = Put(exec, e.g, x \cup {e.cb})
              /\ pend' = Put(pend, e.g, RemoveFirst(q, e.cb))
              /\ started' = started \cup {e.cb}
              /\ UNCHANGED <<run, refused, serves, rets, nworkers>>
         [] e.e = "end" ->
              /\ exec' = Put(exec, e.g, Get(exec, e.g, {}) \ {e.cb})
              /\ viols' = viols \o Flag(Stopped, "C03:running-after-shutdown")
              /\ UNCHANGED <<run, pend, started, refused, serves, rets, nworkers>>
         [] e.e = "started" -> serves' = serves + 1 /\ UNCHANGED <<run, pend, exec, started, refused, rets, nworkers, viols>>
         [] e.e = "sdret" ->
              \* the k-th Shutdown returned; e.w = worker exits observed so far (all lives)
              /\ rets' = rets + 1
              /\ viols' = viols
                    \o Flag(serves = rets + 1 /\ \E g \in DOMAIN exec : exec[g] # {}, "C03:running-after-shutdown")
                    \o Flag(e.w < nworkers * e.k, "C03:workers-alive")
              /\ pend' = [g \in DOMAIN pend |-> KeepNewer(pend[g], rets + 1)]   \* what this life did not reach may be dropped
              /\ UNCHANGED <<run, exec, started, refused, serves, nworkers>>
         [] e.e = "quiesced" ->
              \* producers are done, the queues had time to drain and no Shutdown was called yet:
              \* every accepted callback must have run
              /\ LET lost == \E g \in DOMAIN pend : \E k \in 1..Len(pend[g]) : pend[g][k][2] = serves IN
                 viols' = viols \o Flag(lost, "C02:lost")
                                \o Flag(lost /\ serves > 1, "C03:restart-lost")   \* a restarted service gives the same guarantees
              /\ UNCHANGED <<run, pend, exec, started, refused, serves, rets, nworkers>>
         [] e.e = "endrun" ->
              /\ viols' = viols \o Flag(\E g \in DOMAIN exec : exec[g] # {}, "C03:unfinished")
              /\ UNCHANGED <<run, pend, exec, started, refused, serves, rets, nworkers>>
         [] OTHER -> UNCHANGED <<run, pend, exec, started, refused, serves, rets, nworkers, viols>>

Done == l = Len(Trace) + 1 /\ UNCHANGED vars
Next == Step \/ Done
Spec == Init /\ [][Next]_vars

\* The clauses, as invariants of the reconstructed state sequence.  Report prints the
\* collected violations when the whole trace has been consumed.
Report == (l = Len(Trace) + 1) => PrintT("VIOLS " \o ToJson(viols))
Consumed == TLCGet("stats").diameter - 1 = Len(Trace)
=============================================================================

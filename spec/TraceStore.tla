------------------------------ MODULE TraceStore ------------------------------
(* Binding for C11: one record per history of calls on one store id space     *)
(* (sequential, or the per-id serialisation of a concurrent run).             *)
EXTENDS ResStore, Json
Trace == ndJsonDeserialize("trace.ndjson")
VARIABLE l
Stride == 64
Init == l \in 1..(IF Len(Trace) < Stride THEN Len(Trace) ELSE Stride)
Next == l + Stride <= Len(Trace) /\ l' = l + Stride
R == Trace[l]
Upto == IF R.upto = 0 THEN Len(R.calls) ELSE R.upto
HistoryOK == /\ FirstBad(<<>>, SubSeq(R.calls, 1, Upto), 1, R.genids, R.ncb) = 0
             /\ R.overlap = <<>>       \* no write transaction overlapped another transaction on its id
=============================================================================

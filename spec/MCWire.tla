------------------------------- MODULE MCWire -------------------------------
(* Model check of the classification: every abstract JSON object built from    *)
(* the member alphabet below, and every pair of them: classification is total, *)
(* SameValue is an equivalence, and it implies JSON equality of the values the  *)
(* two texts stand for.                                                         *)
EXTENDS ResWire
Str(s, ok) == [k |-> "str", s |-> s, validrid |-> ok]
Prims == { [k |-> "null"], [k |-> "bool", b |-> TRUE], [k |-> "num", n |-> 1], Str("delete", TRUE), Str("a.b", TRUE), Str("bad rid", FALSE) }
Inner == Prims \cup { [k |-> "arr", a |-> <<[k |-> "num", n |-> 1]>>], [k |-> "obj", m |-> <<<<"x", [k |-> "num", n |-> 1]>>>>] }
Keys == {"rid", "soft", "action", "data", "other"}
VARIABLES a, b
Init == a = [k |-> "obj", m |-> <<>>] /\ b = [k |-> "obj", m |-> <<>>]
Extend(j) == { [k |-> "obj", m |-> Append(j.m, <<key, v>>)] : key \in {x \in Keys : ~HasKey(j, x)}, v \in Inner }
Next == \/ Len(a.m) < 2 /\ \E j \in Extend(a) : a' = j /\ UNCHANGED b
        \/ Len(b.m) < 2 /\ \E j \in Extend(b) : b' = j /\ UNCHANGED a
Spec == Init /\ [][Next]_<<a, b>>
Total == Classify(a).c \in {"primitive", "ref", "softref", "data", "delete", "invalid"}
Equivalence == /\ SameValue(Classify(a), Classify(a))
               /\ (SameValue(Classify(a), Classify(b)) <=> SameValue(Classify(b), Classify(a)))
\* references need a valid rid; a delete action is exactly {"action":"delete"}; data wraps only arrays/objects
Protocol == /\ (Classify(a).c \in {"ref", "softref"} => Get(a, "rid").validrid)
            /\ (Classify(a).c = "data" => Wrapped(Classify(a).v))
            /\ (Classify(a).c = "delete" => Get(a, "action").s = "delete")
=============================================================================

---------------------------- MODULE TracePattern ----------------------------
(***************************************************************************)
(* Binding of ResPattern to the implementation (C17): every line of         *)
(* trace.ndjson is one call of a real pattern operation with its observed   *)
(* result; Conforms recomputes the result from the reference grammar.       *)
(* Every record is an initial state, so a violated record is reported as a  *)
(* one-state counterexample carrying its line number l.                     *)
(***************************************************************************)
EXTENDS ResPattern, Json
Trace == ndJsonDeserialize("trace.ndjson")
VARIABLE l
\* records are visited in Stride interleaved chains so that TLC's workers share the work
Stride == 64
Init == l \in 1..(IF Len(Trace) < Stride THEN Len(Trace) ELSE Stride)
Next == l + Stride <= Len(Trace) /\ l' = l + Stride
R == Trace[l]

PairSet(m) == {m[i] : i \in 1..Len(m)}

Conforms ==
    CASE R.op = "valid"   -> R.got = ValidPattern(R.p)
      [] R.op = "rid"     -> R.got = ValidRID(R.p)
      [] R.op = "part"    -> R.got = ValidPart(R.p)
      [] R.op = "path"    -> R.got = ValidPath(R.p)
      [] R.op = "iw"      -> ValidPattern(R.p) => R.got = IndexWildcard(R.p)
      [] R.op = "matches" -> (ValidPattern(R.p) /\ (ValidName(R.n) \/ ValidPattern(R.n))) =>
                                 R.got = Matches(R.p, R.n)
      [] R.op = "values"  -> (ValidPattern(R.p) /\ ValidName(R.n) /\ DistinctParams(R.p)) =>
                                 /\ R.ok = Matches(R.p, R.n)
                                 /\ R.ok => PairSet(R.vals) = PairSet(Values(R.p, R.n))
      [] R.op = "replace" -> (ValidPattern(R.p) /\ DistinctParams(R.p)) => R.got = ReplaceTags(R.p, R.m)
      [] R.op = "idrt"    -> ValidPart(R.id) => (R.ok /\ R.got = R.id)
      [] OTHER -> FALSE
=============================================================================

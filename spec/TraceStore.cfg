INIT Init
NEXT Next
CONSTANTS
  Procs = {"p1"}
  Ids = {"a"}
  Vals = {"v1"}
  MaxOps = 1
INVARIANT HistoryOK
CHECK_DEADLOCK FALSE

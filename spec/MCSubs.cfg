SPECIFICATION Spec
CONSTANTS MaxEntries = 2
INVARIANT PlanOK
CHECK_DEADLOCK FALSE

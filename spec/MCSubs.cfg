SPECIFICATION Spec
CONSTANTS MaxRR = 2 MaxRA = 2
INVARIANT PlanOK
CHECK_DEADLOCK FALSE

------------------------------- MODULE MCSubs -------------------------------
(***************************************************************************)
(* Model of the subscription planner (C09): from the owned lists build the  *)
(* candidate subjects (get.p, call.p[.*], auth.p[.*], access.p), drop every *)
(* candidate that another candidate covers (keeping the first of equal      *)
(* ones), and check Coverage / NonRedundant / ValidSubjects / Exactness for *)
(* every ownership configuration of the bound.                              *)
(***************************************************************************)
EXTENDS ResSubs
CONSTANTS MaxRR, MaxRA   \* bounds on the owned-resource and owned-access lists
Entries == { <<"s">>, <<"s",".",">">>, <<"s",".","a">>, <<"s",".","a",".",">">>, <<"s",".","*">>, <<">">>, <<"t">> }
VARIABLES rr, ra, phase
vars == <<rr, ra, phase>>
Init == rr = <<>> /\ ra = <<>> /\ phase = "build"
Next == /\ phase = "build"
        /\ \/ Len(rr) < MaxRR /\ \E e \in Entries : rr' = Append(rr, e) /\ UNCHANGED <<ra, phase>>
           \/ Len(ra) < MaxRA /\ \E e \in Entries : ra' = Append(ra, e) /\ UNCHANGED <<rr, phase>>
Spec == Init /\ [][Next]_vars
Cfg == [sn |-> <<"s">>, rr |-> rr, ra |-> ra, rrnil |-> FALSE, ranil |-> FALSE, hasRes |-> TRUE, hasAcc |-> TRUE]
EndsFull(p) == Tokens(p)[Len(Tokens(p))] = <<">">>
Candidates ==
    [i \in 1..Len(rr) |-> Cat(<<"g","e","t">>, rr[i])]
    \o [i \in 1..Len(rr) |-> IF EndsFull(rr[i]) THEN Cat(<<"c","a","l","l">>, rr[i]) ELSE Cat(Cat(<<"c","a","l","l">>, rr[i]), <<"*">>)]
    \o [i \in 1..Len(rr) |-> IF EndsFull(rr[i]) THEN Cat(<<"a","u","t","h">>, rr[i]) ELSE Cat(Cat(<<"a","u","t","h">>, rr[i]), <<"*">>)]
    \o [i \in 1..Len(ra) |-> Cat(<<"a","c","c","e","s","s">>, ra[i])]
Keep(C, i) == \A j \in 1..Len(C) : (j # i /\ NMatches(C[j], C[i])) => (C[j] = C[i] /\ j > i)
Planned == LET C == Candidates IN SelectSeq([i \in 1..Len(C) |-> <<C[i], Keep(C, i)>>], LAMBDA x : x[2])
PlannedSubjects == [i \in 1..Len(Planned) |-> Planned[i][1]]
PlanOK == /\ Coverage(Cfg, PlannedSubjects)
          /\ NonRedundant(PlannedSubjects)
          /\ ValidSubjects(PlannedSubjects)
          /\ Exactness(Cfg, PlannedSubjects)
=============================================================================

INIT Init
NEXT Next
INVARIANT HistoryOK
CHECK_DEADLOCK FALSE

SPECIFICATION Spec
CONSTANTS
  MaxLen = 5
  T0 = 2
INVARIANTS FirstReal TimeoutLater FailFast ExtensionsReported
CHECK_DEADLOCK FALSE

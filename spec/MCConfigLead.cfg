SPECIFICATION Spec
CONSTANTS
  Vals = {0, 1}
  MaxLives = 2
  Carried = {"dur", "workers", "inch", "queue", "owned"}
INVARIANTS TypeOK RunsAsConfigured

INIT Init
NEXT Next
INVARIANT RecordOK
CHECK_DEADLOCK FALSE

---------------------------- MODULE ResPattern ----------------------------
(***************************************************************************)
(* The one token-wise grammar of resource patterns (property C17), written *)
(* as reference definitions that do not follow the Go code: a string is a  *)
(* sequence of one-character strings, a pattern is split on "." and each   *)
(* token is classified on its own.  "$", "*" and ">" are wildcards only at *)
(* the start of a token:                                                   *)
(*    $name   placeholder (named wildcard for exactly one token)           *)
(*    *       anonymous wildcard for exactly one token (whole token)       *)
(*    >       full wildcard, one or more tokens, only as the last token    *)
(* The character "INV" stands for any character outside 33..126.           *)
(*                                                                         *)
(* ResMux and ResSubs extend this module.                                  *)
(***************************************************************************)
EXTENDS Naturals, Integers, Sequences, FiniteSets, TLC

Dot == "."

\* ---- generic helpers over sequences ------------------------------------
RECURSIVE SplitFrom(_, _, _, _)
SplitFrom(s, i, cur, acc) ==
    IF i > Len(s) THEN Append(acc, cur)
    ELSE IF s[i] = Dot THEN SplitFrom(s, i + 1, <<>>, Append(acc, cur))
    ELSE SplitFrom(s, i + 1, Append(cur, s[i]), acc)

\* Tokens of a non-empty string; the empty string has no tokens.
Tokens(s) == IF s = <<>> THEN <<>> ELSE SplitFrom(s, 1, <<>>, <<>>)

RECURSIVE Join(_)
Join(ts) == IF ts = <<>> THEN <<>>
            ELSE IF Len(ts) = 1 THEN ts[1]
            ELSE ts[1] \o <<Dot>> \o Join(Tail(ts))

Chars(t) == {t[i] : i \in 1..Len(t)}

\* ---- character and token classes ---------------------------------------
\* characters that may appear in a token of a name or a pattern
PlainChar(c) == c \notin {"INV", "?", Dot}
\* characters of a resource-name part: additionally no "*" and no ">"
PartChar(c) == PlainChar(c) /\ c \notin {"*", ">"}

IsParamTok(t) == Len(t) > 1 /\ t[1] = "$"
IsAnonTok(t)  == t = <<"*">>
IsFullTok(t)  == t = <<">">>
IsWildTok(t)  == IsParamTok(t) \/ IsAnonTok(t)
ParamName(t)  == Tail(t)

ValidPart(t) == t # <<>> /\ \A c \in Chars(t) : PartChar(c)

ValidPatternTok(t, last) ==
    /\ t # <<>>
    /\ \A c \in Chars(t) : PlainChar(c)
    /\ ("*" \in Chars(t) => t = <<"*">>)
    /\ (">" \in Chars(t) => t = <<">">> /\ last)
    /\ (t[1] = "$" => Chars(t) # {"$"})          \* a placeholder needs a name

ValidPattern(s) ==
    \/ s = <<>>
    \/ LET ts == Tokens(s) IN \A i \in 1..Len(ts) : ValidPatternTok(ts[i], i = Len(ts))

\* a concrete resource name: non-empty parts, no wildcard characters
ValidName(s) == s # <<>> /\ LET ts == Tokens(s) IN \A i \in 1..Len(ts) : ValidPart(ts[i])

HasWildcard(s) == \E i \in 1..Len(Tokens(s)) : IsWildTok(Tokens(s)[i]) \/ IsFullTok(Tokens(s)[i])

\* a path (mux path, mount path, token reset subject): a pattern without wildcards
ValidPath(s) == s = <<>> \/ (ValidPattern(s) /\ ~HasWildcard(s))

\* resource id: name, optionally followed by "?" and anything
ValidRID(s) ==
    LET qi == IF \E i \in 1..Len(s) : s[i] = "?"
              THEN CHOOSE i \in 1..Len(s) : s[i] = "?" /\ \A j \in 1..(i-1) : s[j] # "?"
              ELSE Len(s) + 1
    IN ValidName(SubSeq(s, 1, qi - 1))

\* ---- matching / covering ------------------------------------------------
\* pt covers nt, both token sequences; nt may itself contain wildcards.
RECURSIVE CoversT(_, _)
CoversT(pt, nt) ==
    IF pt = <<>> THEN nt = <<>>
    ELSE IF IsFullTok(Head(pt)) THEN nt # <<>>
    ELSE IF nt = <<>> THEN FALSE
    ELSE IF IsWildTok(Head(pt)) THEN ~IsFullTok(Head(nt)) /\ CoversT(Tail(pt), Tail(nt))
    ELSE Head(pt) = Head(nt) /\ CoversT(Tail(pt), Tail(nt))

\* Pattern p matches name (or pattern) n.
Matches(p, n) == CoversT(Tokens(p), Tokens(n))

\* Values extracted by p from name n: a sequence of <<name, token>> pairs in
\* pattern order (only defined when Matches(p, n)).
RECURSIVE ValuesT(_, _)
ValuesT(pt, nt) ==
    IF pt = <<>> \/ nt = <<>> \/ IsFullTok(Head(pt)) THEN <<>>
    ELSE IF IsParamTok(Head(pt))
         THEN <<<<ParamName(Head(pt)), Head(nt)>>>> \o ValuesT(Tail(pt), Tail(nt))
         ELSE ValuesT(Tail(pt), Tail(nt))
Values(p, n) == ValuesT(Tokens(p), Tokens(n))

ParamNames(p) == LET ts == Tokens(p) IN {ParamName(ts[i]) : i \in {j \in 1..Len(ts) : IsParamTok(ts[j])}}
DistinctParams(p) == LET ts == Tokens(p)
                         ix == {j \in 1..Len(ts) : IsParamTok(ts[j])}
                     IN \A i, j \in ix : ts[i] = ts[j] => i = j

\* m is a sequence of <<name, value>> pairs (a tag map); the first pair of a name wins.
Lookup(m, name) == LET ix == {i \in 1..Len(m) : m[i][1] = name}
                   IN IF ix = {} THEN <<FALSE, <<>>>>
                      ELSE <<TRUE, m[CHOOSE i \in ix : \A j \in ix : i <= j][2]>>

ReplaceTags(p, m) ==
    LET ts == Tokens(p)
        rt(t) == IF IsParamTok(t) /\ Lookup(m, ParamName(t))[1] THEN Lookup(m, ParamName(t))[2] ELSE t
    IN Join([i \in 1..Len(ts) |-> rt(ts[i])])

\* 0-based offset of the first wildcard token, or -1
IndexWildcard(p) ==
    LET ts == Tokens(p)
        ix == {i \in 1..Len(ts) : IsWildTok(ts[i]) \/ IsFullTok(ts[i])}
        RECURSIVE Off(_)
        Off(k) == IF k = 1 THEN 0 ELSE Off(k - 1) + Len(ts[k - 1]) + 1
    IN IF ix = {} THEN -1 ELSE Off(CHOOSE i \in ix : \A j \in ix : i <= j)

AnonFree(p) == \A i \in 1..Len(Tokens(p)) : ~IsAnonTok(Tokens(p)[i]) /\ ~IsFullTok(Tokens(p)[i])

\* ---- enumeration helpers (used by the model-checking configs) -----------
RECURSIVE SeqsUpTo(_, _)
SeqsUpTo(S, n) == IF n = 0 THEN {<<>>}
                  ELSE LET R == SeqsUpTo(S, n - 1) IN R \cup {Append(s, c) : s \in R, c \in S}

=============================================================================

--------------------------- MODULE TraceQueryObs ---------------------------
(* Binding for C15: one record per query event observed on the real service. *)
(*   recv     request ids the listener goroutine received (ql.recv hook)     *)
(*   cblog    callback invocations in order: request id, or "nil"            *)
(*   replies  <<id, number of responses published on its inbox>>             *)
(*   kinds    <<id, callback behaviour, kind of the single response>>          *)
(*   failed   the subscription failed;  published  the query event was sent  *)
(*   expired  the duration elapsed and the system was left time to settle    *)
(*   exited   the listener goroutine ended                                   *)
(*   overlap  a query callback started while a callback of the group ran      *)
EXTENDS Naturals, Sequences, FiniteSets, TLC, Json
Trace == ndJsonDeserialize("trace.ndjson")
VARIABLE l
Stride == 64
Init == l \in 1..(IF Len(Trace) < Stride THEN Len(Trace) ELSE Stride)
Next == l + Stride <= Len(Trace) /\ l' = l + Stride
R == Trace[l]
Count(x, s) == Cardinality({k \in 1..Len(s) : s[k] = x})
Replies(i) == LET ix == {k \in 1..Len(R.replies) : R.replies[k][1] = i}
              IN IF ix = {} THEN 0 ELSE R.replies[CHOOSE k \in ix : TRUE][2]
\* what a query request is answered with, by the behaviour of its callback: the events the callback
\* itself added (and nothing accumulated by earlier requests), the model/collection it replied with, or an error
Expected(b) ==
    CASE b = "" -> "events:0"
      [] b = "events" -> "events:1"
      [] b = "events2" -> "events:2"
      [] b \in {"collection", "reply-panic", "events-collection"} -> "collection"
      [] b \in {"error", "notfound", "twice", "events-notfound"} -> "error:system.notFound"
      [] b \in {"panic", "panic-nil", "events-panic", "badjson", "badnoq", "collection-panic-marshal", "error-panic-marshal", "panic-typednil"} -> "error:system.internalError"
      [] b = "panic-err" -> "error:system.invalidQuery"
      [] OTHER -> "unknown-behaviour"
Clause(c) ==
    CASE c = "one-reply"  -> \A k \in 1..Len(R.recv) : Replies(R.recv[k]) = 1
      [] c = "content"    -> \A k \in 1..Len(R.kinds) : R.kinds[k][3] = Expected(R.kinds[k][2])
      \* query events after an expired one: only the requests sent on their own subjects reach their listeners and
      \* callbacks (a request that arrives late on the subject of the expired event is not theirs), and only those are answered
      [] c = "foreign"    -> /\ \A k \in 1..Len(R.recv) : \E j \in 1..Len(R.sent) : R.sent[j] = R.recv[k]
                             /\ \A k \in 1..Len(R.cblog) : R.cblog[k] = "nil" \/ \E j \in 1..Len(R.sent) : R.sent[j] = R.cblog[k]
                             /\ \A k \in 1..Len(R.replies) : (\E j \in 1..Len(R.sent) : R.sent[j] = R.replies[k][1]) \/ R.replies[k][2] = 0
      [] c = "callback-per-request" -> \A k \in 1..Len(R.recv) : R.badpayload[k] \/ Count(R.recv[k], R.cblog) = 1
      [] c = "nil-once"   -> (R.expired \/ R.failed) => Count("nil", R.cblog) = 1
      [] c = "nil-at-most-once" -> Count("nil", R.cblog) <= 1
      [] c = "nil-last"   -> Count("nil", R.cblog) >= 1 => R.cblog[Len(R.cblog)] = "nil"
      [] c = "failed-sub" -> R.failed => (~R.published /\ R.cblog = <<"nil">>)
      [] c = "released"   -> R.expired => R.exited
      \* observed well inside the configured duration: the query event is active - its requests are answered,
      \* the callback has not been called with nil, the listener is there
      [] c = "active"     -> /\ Count("nil", R.cblog) = 0 /\ ~R.exited
                             /\ \A k \in 1..Len(R.replies) : R.replies[k][2] = 1
      \* two services on one connection: every query event has a subject of its own, a request on it is delivered to
      \* one subscription, answered once, and only that query event's callback sees it (evaluated by the harness)
      [] c = "fresh"      -> R.fresh
      \* a burst of requests while the group is busy: the listener keeps taking them out of the (small) subscription
      \* channel, none is dropped there, each is answered once
      [] c = "burst"      -> R.dropped = 0 /\ \A k \in 1..Len(R.replies) : R.replies[k][2] = 1
      [] c = "serialized" -> ~R.overlap     \* no query callback ran while another callback of the resource's group was inside
      [] OTHER -> FALSE
Clauses == {"serialized", "one-reply", "content", "callback-per-request", "nil-once", "nil-at-most-once", "nil-last", "failed-sub", "released"}
RecordOK == IF R.judge = "all" THEN \A c \in Clauses : Clause(c) ELSE Clause(R.judge)
=============================================================================

SPECIFICATION Spec
CONSTANTS
  Ids = {1, 2}
  MaxMut = 3
  SentinelFlush = FALSE
INVARIANTS AfterFlush NotifiedAfterCommit ChainPerId
CHECK_DEADLOCK FALSE

SPECIFICATION Spec
CONSTANTS
  Reqs = {"r1", "r2", "r3"}
  Cap = 2
  SubscribeCanFail = TRUE
  ListenerEndsQuery = TRUE
INVARIANTS AtMostOneReply NilAtMostOnce NilLast FailedSub

CHECK_DEADLOCK FALSE

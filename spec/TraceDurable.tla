------------------------------ MODULE TraceDurable ------------------------------
(* Binding for C12: one record per crashed (or completed) workload run on a real *)
(* BadgerDB: the acknowledged calls, the call in flight, what was read back      *)
(* after reopening, what a second Init left, and whether the rebuilt index       *)
(* agrees with the stored values.                                                 *)
EXTENDS ResDurable, Json
Trace == ndJsonDeserialize("trace.ndjson")
VARIABLE l
Stride == 64
Init == l \in 1..(IF Len(Trace) < Stride THEN Len(Trace) ELSE Stride)
Next == l + Stride <= Len(Trace) /\ l' = l + Stride
R == Trace[l]
Clause(c) ==
    CASE c = "durable" -> Durable(R.acked, R.inflight, R.obs)
      [] c = "reinit"  -> ReInitOK(R.acked, R.inflight, R.obs, R.seeds, R.obs2)
      [] c = "rebuild" -> R.rebuildError = "" /\ R.indexIds = R.expectIndexIds
      \* Init with a seed set that one database transaction cannot hold: all or nothing, whatever the crash point
      [] c = "biginit" -> /\ R.present \in {0, R.total}
                          /\ (R.initialised => R.present = R.total)
                          /\ (R.initacked => (R.initialised /\ R.present = R.total))
      [] OTHER -> FALSE
RecordOK == IF R.judge = "biginit" THEN Clause("biginit") ELSE IF R.judge = "all" THEN \A c \in {"durable", "reinit", "rebuild"} : Clause(c) ELSE Clause(R.judge)
=============================================================================

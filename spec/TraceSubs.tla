------------------------------ MODULE TraceSubs ------------------------------
(* Binding of ResSubs to the implementation (C09): one record per service     *)
(* configuration served on the recording connection.                          *)
EXTENDS ResSubs, Json
Trace == ndJsonDeserialize("trace.ndjson")
VARIABLE l
Stride == 64
Init == l \in 1..(IF Len(Trace) < Stride THEN Len(Trace) ELSE Stride)
Next == l + Stride <= Len(Trace) /\ l' = l + Stride
R == Trace[l]
Subjects == [i \in 1..Len(R.subs) |-> R.subs[i][1]]
\* "judge" selects one clause so that a failing record can be attributed
Clause(j) ==
    CASE j = "coverage"  -> Coverage(R, Subjects)
      [] j = "redundant" -> NonRedundant(Subjects)
      [] j = "valid"     -> ValidSubjects(Subjects)
      [] j = "exact"     -> Exactness(R, Subjects)
      [] j = "queue"     -> \A i \in 1..Len(R.subs) : R.subs[i][2] = R.queue
      [] j = "reset"     -> \A k \in 1..Len(R.resets) : ResetAnnounces(R, R.resets[k].resources, R.resets[k].access)
      [] j = "serves"    -> R.served = (OwnedRes(R) # <<>> \/ OwnedAcc(R) # <<>>)
      \* on a real NATS server: a probe request of type t for resource name n sent by another client is
      \* answered exactly once if an owned pattern (of that type's list) covers n (a name outside the owned
      \* space may still reach the service, e.g. call.s.m under the subscription for s.>: at most once)
      [] j = "delivered" -> \A k \in 1..Len(R.probes) :
                               LET t == R.probes[k][1]  n == R.probes[k][2]
                                   owned == IF t = <<"a","c","c","e","s","s">> THEN OwnedAcc(R) ELSE OwnedRes(R)
                                   covered == \E p \in SeqSet(owned) : NMatches(p, n)
                               IN IF covered THEN R.probes[k][3] = 1 ELSE R.probes[k][3] <= 1
      \* a reset at start-up, after the reconnect, and at the start of the second life of the service
      [] j = "reconnect" -> R.served => Len(R.resets) >= R.expectResets
      [] OTHER -> FALSE
Judged == {"coverage", "redundant", "valid", "exact", "queue", "reset", "serves"}
RealJudged == {"delivered", "reset", "reconnect", "serves"}
ConfigOK ==
    WellFormedCfg(R) =>
        IF R.judge = "real" THEN \A j \in (IF R.served THEN RealJudged ELSE {"serves"}) : Clause(j)
        ELSE IF R.judge = "all" THEN \A j \in (IF R.served THEN Judged ELSE {"serves"}) : Clause(j)
        ELSE (R.served \/ R.judge = "serves") => Clause(R.judge)
=============================================================================

------------------------------ MODULE TraceSubs ------------------------------
(* Binding of ResSubs to the implementation (C09): one record per service     *)
(* configuration served on the recording connection.                          *)
EXTENDS ResSubs, Json
Trace == ndJsonDeserialize("trace.ndjson")
VARIABLE l
Stride == 64
Init == l \in 1..(IF Len(Trace) < Stride THEN Len(Trace) ELSE Stride)
Next == l + Stride <= Len(Trace) /\ l' = l + Stride
R == Trace[l]
Subjects == [i \in 1..Len(R.subs) |-> R.subs[i][1]]
\* "judge" selects one clause so that a failing record can be attributed
Clause(j) ==
    CASE j = "coverage"  -> Coverage(R, Subjects)
      [] j = "redundant" -> NonRedundant(Subjects)
      [] j = "valid"     -> ValidSubjects(Subjects)
      [] j = "exact"     -> Exactness(R, Subjects)
      [] j = "queue"     -> \A i \in 1..Len(R.subs) : R.subs[i][2] = R.queue
      [] j = "reset"     -> \A k \in 1..Len(R.resets) : ResetAnnounces(R, R.resets[k].resources, R.resets[k].access)
      [] j = "serves"    -> R.served = (OwnedRes(R) # <<>> \/ OwnedAcc(R) # <<>>)
      [] OTHER -> FALSE
Judged == {"coverage", "redundant", "valid", "exact", "queue", "reset", "serves"}
ConfigOK ==
    WellFormedCfg(R) =>
        IF R.judge = "all" THEN \A j \in (IF R.served THEN Judged ELSE {"serves"}) : Clause(j)
        ELSE (R.served \/ R.judge = "serves") => Clause(R.judge)
=============================================================================

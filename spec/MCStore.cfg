SPECIFICATION CSpec
CONSTANTS
  Procs = {"p1", "p2"}
  Ids = {"a", "b"}
  Vals = {"v1", "v2"}
  MaxOps = 3
INVARIANTS ExclusiveWrite Chain
CHECK_DEADLOCK FALSE

SPECIFICATION Spec
CONSTANTS
  Vals = {"v1", "v2", "v3"}
  MaxLen = 4
  KeySet = {"k1", "k2", "k3"}
INVARIANTS CollectionsCoherent ModelsCoherent
CHECK_DEADLOCK FALSE

------------------------------ MODULE ResDurable ------------------------------
(***************************************************************************)
(* Durability of the BadgerDB store across crashes (property C12):          *)
(* badgerstore/store.go Create/Update/Delete/Init, querystore.go            *)
(* RebuildIndexes.                                                          *)
(*                                                                         *)
(* Reference: a disk is [vals |-> function id -> value, marker |-> BOOLEAN]. *)
(* ApplyOp is the effect of one acknowledged call; a call that fails leaves *)
(* the disk unchanged.  Init writes the seeds that are not present and the   *)
(* marker in one atomic step, and does nothing when the marker is present.   *)
(***************************************************************************)
EXTENDS Naturals, Sequences, FiniteSets, TLC
Has(d, id) == id \in DOMAIN d.vals
PutV(d, id, v) == [d EXCEPT !.vals = [x \in DOMAIN d.vals \cup {id} |-> IF x = id THEN v ELSE d.vals[x]]]
DelV(d, id) == [d EXCEPT !.vals = [x \in DOMAIN d.vals \ {id} |-> d.vals[x]]]
EmptyDisk == [vals |-> <<>>, marker |-> FALSE]

RECURSIVE Seed(_, _)
Seed(d, seeds) == IF seeds = <<>> THEN d
                  ELSE Seed(IF Has(d, seeds[1][1]) THEN d ELSE PutV(d, seeds[1][1], seeds[1][2]), Tail(seeds))

\* op: [op |-> "create"|"update"|"delete"|"init", id, v, seeds]
ApplyOp(d, o) ==
    CASE o.op = "create" -> IF Has(d, o.id) THEN d ELSE PutV(d, o.id, o.v)
      [] o.op = "update" -> IF Has(d, o.id) THEN PutV(d, o.id, o.v) ELSE d
      [] o.op = "delete" -> IF Has(d, o.id) THEN DelV(d, o.id) ELSE d
      [] o.op = "init"   -> IF d.marker THEN d ELSE [Seed(d, o.seeds) EXCEPT !.marker = TRUE]
      [] OTHER -> d
RECURSIVE Fold(_, _)
Fold(d, ops) == IF ops = <<>> THEN d ELSE Fold(ApplyOp(d, Head(ops)), Tail(ops))

\* what may be on disk after a crash: all acknowledged calls, and the call in flight fully or not at all
Possible(acked, inflight) == {Fold(EmptyDisk, acked)} \cup (IF inflight = <<>> THEN {} ELSE {Fold(EmptyDisk, acked \o inflight)})
SameVals(d, obs) == DOMAIN d.vals = {obs[i][1] : i \in 1..Len(obs)} /\ \A i \in 1..Len(obs) : d.vals[obs[i][1]] = obs[i][2]
\* obs: sequence of <<id, value>> read back after reopening
Durable(acked, inflight, obs) == \E d \in Possible(acked, inflight) : SameVals(d, obs)
\* Init run again after the restart, on the state that was found
ReInitOK(acked, inflight, obs, seeds, obs2) ==
    \E d \in Possible(acked, inflight) :
        /\ SameVals(d, obs)
        /\ SameVals(ApplyOp(d, [op |-> "init", seeds |-> seeds]), obs2)
=============================================================================

SPECIFICATION Spec
CONSTANTS MaxEntries = 3
INVARIANT PlanOK
CHECK_DEADLOCK FALSE

SPECIFICATION Spec
CONSTANTS MaxRR = 3 MaxRA = 2
INVARIANT PlanOK
CHECK_DEADLOCK FALSE

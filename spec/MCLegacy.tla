------------------------------ MODULE MCLegacy ------------------------------
(* Model check of the legacy fold: every event sequence of the bound; what a    *)
(* client that applies the published events holds equals what is served.        *)
EXTENDS ResLegacy
CONSTANTS MaxEvents, WithDefault
DefModel == [t |-> "model", m |-> << <<"a", "1">> >>]
Def == IF WithDefault THEN DefModel ELSE Missing
ModelEvents == { [ev |-> "change", vals |-> << <<k, v>> >>] : k \in {"a", "b"}, v \in {"1", "2", Del} }
                \cup { [ev |-> "create", data |-> [t |-> "model", m |-> << <<"b", "2">> >>]], [ev |-> "delete"] }
VARIABLES stored, client, n
Init == stored = Missing /\ client = Served(Missing, Def) /\ n = 0
Next == /\ n < MaxEvents /\ n' = n + 1
        /\ \E e \in ModelEvents :
             LET r == LStep(stored, Def, e) IN
             /\ stored' = r.s
             /\ client' = IF ~r.pub THEN client
                          ELSE IF e.ev = "change" THEN Apply(client, [ev |-> "change", vals |-> Effective(Base(stored, Def).m, e.vals)], Served(r.s, Def))
                          ELSE IF e.ev = "delete" THEN (IF IsMissing(client) THEN client ELSE Missing)
                          ELSE Apply(client, e, Served(r.s, Def))
Spec == Init /\ [][Next]_<<stored, client, n>>
\* without a default the client always holds what is served (with a default, delete events make the
\* client drop a resource that is still served as the default - the documented limitation of defaults)
ClientCoherent == ~WithDefault => SameRes(client, Served(stored, Def))
NeverBad == ~IsBad(client)
=============================================================================

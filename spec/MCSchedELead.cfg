SPECIFICATION Spec
CONSTANTS
  Workers = {w1}
  Producers = {p1, p2}
  ApiCallers = {}
  Groups = {g1, g2}
  Par = par
  Nil = nil
  p1 = p1
  p2 = p2
  g1 = g1
  g2 = g2
  MaxCycles = 2
  RecheckUnderLock = TRUE
  GuardedConn = TRUE
  PerCycleWG = FALSE
  SubscribeMayFail = FALSE
  StartMayFail = FALSE
  ResetOnFailedStart = TRUE
  Script <- MCScriptC
VIEW view
INVARIANTS MutualExclusion FifoPrefix AtMostOnce ExactlyOnce NoPanic AfterShutdown NoLateStart Accounted
PROPERTY AppendOnly
CHECK_DEADLOCK TRUE

INIT Init
NEXT Next
INVARIANT ConfigOK
CHECK_DEADLOCK FALSE

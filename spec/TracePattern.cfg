INIT Init
NEXT Next
INVARIANT Conforms
CHECK_DEADLOCK FALSE

------------------------------ MODULE TraceLoad ------------------------------
(* Binding for C04 under load and across restarts: one record per request that   *)
(* was delivered to a real Service value living through several Serve/Shutdown   *)
(* cycles.  kind says what the property promises for that request:               *)
(*   answer    delivered while the service was running and not stopping:         *)
(*             exactly one response, and the request was fully processed         *)
(*   noanswer  access request to a pattern without access handler: none          *)
(*   burst     delivered right before Shutdown (may be dropped with the queue):  *)
(*             at most one response                                              *)
(*   retained  (C08) effects of one event sent in a later life through a         *)
(*             Resource value kept from an earlier life                          *)
EXTENDS Naturals, Sequences, Json
Trace == ndJsonDeserialize("trace.ndjson")
VARIABLE l
Stride == 64
Init == l \in 1..(IF Len(Trace) < Stride THEN Len(Trace) ELSE Stride)
Next == l + Stride <= Len(Trace) /\ l' = l + Stride
R == Trace[l]
RecordOK ==
    CASE R.kind = "answer"   -> R.n = 1 /\ R.done
      [] R.kind = "noanswer" -> R.n = 0 /\ R.done
      [] R.kind = "burst"    -> R.n <= 1 /\ (R.n = 1 => R.done)
      \* (C08) an event sent through a Resource value obtained in an earlier life of the service: applied,
      \* published on the connection of the CURRENT life, then handed to the listeners
      [] R.kind = "retained" -> R.seq = <<"apply", "pub", "listen">>
      \* (C08) an event sent on the QueryRequest inside a query callback
      [] R.kind = "querycb"  -> R.seq = <<"apply", "pub", "listen">>
      \* (C08) listener A answers the custom event with a follow-up event sent through ev.Resource: the follow-up is
      \* published and handed to both listeners, and B still gets the custom event as it was sent
      [] R.kind = "nested"   -> R.seq = <<"pub:custom", "A:custom{\"n\":1}", "pub:followup", "A:followup{\"n\":2}",
                                          "B:followup{\"n\":2}", "B:custom{\"n\":1}">>
      [] OTHER -> FALSE
=============================================================================

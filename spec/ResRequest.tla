------------------------------ MODULE ResRequest ------------------------------
(***************************************************************************)
(* One request from its subject to the last message it causes (properties   *)
(* C04, C05, C07, C08): service.go handleRequest/processRequest, request.go  *)
(* executeHandler and the reply funnel, resource.go event methods.           *)
(*                                                                         *)
(* A scenario sc describes the request and the handler configuration:        *)
(*   rtype     "access" | "get" | "call" | "auth"                            *)
(*   method    call/auth method ("" otherwise); "new" is the deprecated new  *)
(*   matched   a resource pattern matches the resource name                  *)
(*   payload   "empty" | "valid" | "malformed"                               *)
(*   http      the request is flagged isHttp                                 *)
(*   hasAccess, hasGet, hasNew  handler present                              *)
(*   calls, auths   sets of registered method names (may contain "*")        *)
(*   rt        resource type "model" | "collection" | "unset"                *)
(*   ap        [change|add|remove|create|delete -> "absent"|"ok"|"fail"|     *)
(*              "noop"]  apply handlers ("noop": ApplyChange returns an      *)
(*              empty, non-nil revert map)                                   *)
(*   nl        number of listeners on the resource pattern                   *)
(*   lpanic    0, or the index of the listener that panics when it is called *)
(*   pubfail   the connection refuses to publish resource events             *)
(*   script    what the invoked handler does: a sequence of step names       *)
(*                                                                         *)
(* Invoked(sc) names the handler kind: "access" | "get" | "new" | "call" (the   *)
(* named method) | "call*" (the catch-all) | "auth" | "auth*" | "none".        *)
(*                                                                         *)
(* Run(sc) is the reference outcome: the messages published (out), the       *)
(* interleaving of apply / publish / listener effects (log) and which        *)
(* handler ran.  The state machine below explores every script of the bound  *)
(* step by step with the same step function.                                 *)
(***************************************************************************)
EXTENDS Naturals, Sequences, FiniteSets, TLC

\* ---- messages -------------------------------------------------------------
\* to: "reply" | "event" | "reset" | "token";  kind: "result" | "resource" | "error" | "pre" | event name
Msg(to, kind, code, meta) == [to |-> to, kind |-> kind, code |-> code, meta |-> meta]
IsResponse(m) == m.to = "reply" /\ m.kind \in {"result", "resource", "error"}
Responses(out) == Cardinality({i \in 1..Len(out) : IsResponse(out[i])})

\* ---- dispatch ---------------------------------------------------------------
\* which handler processRequest/executeHandler invokes: "none" when nothing is invoked
Invoked(sc) ==
    IF ~sc.matched \/ sc.payload = "malformed" THEN "none"
    ELSE CASE sc.rtype = "access" -> IF sc.hasAccess THEN "access" ELSE "none"
           [] sc.rtype = "get"    -> IF sc.hasGet THEN "get" ELSE "none"
           [] sc.rtype = "call"   -> IF sc.method = "new" /\ sc.hasNew THEN "new"
                                     ELSE IF sc.method \in sc.calls THEN "call"
                                     ELSE IF "*" \in sc.calls THEN "call*" ELSE "none"
           [] sc.rtype = "auth"   -> IF sc.method \in sc.auths THEN "auth"
                                     ELSE IF "*" \in sc.auths THEN "auth*" ELSE "none"
           [] OTHER -> "none"
\* the response when nothing is invoked ("" = no response at all)
Uninvoked(sc) ==
    IF ~sc.matched THEN "system.notFound"
    ELSE IF sc.payload = "malformed" THEN "system.internalError"
    ELSE CASE sc.rtype = "access" -> ""
           [] sc.rtype = "get"    -> "system.notFound"
           [] OTHER               -> "system.methodNotFound"

\* ---- the request object while the handler runs -------------------------------
\* pan: "" | "other" (a panic with anything but a *Error) | the code of the *Error that was panicked
St0 == [replied |-> FALSE, status |-> FALSE, hdr |-> FALSE, out |-> <<>>, log |-> <<>>, pan |-> "", k |-> 0]
HasMeta(sc, st) == sc.http /\ (st.status \/ st.hdr)

Panic(st, p) == [st EXCEPT !.pan = p]
Reply(sc, st, kind, code, meta) ==
    IF st.replied THEN Panic(st, "other")      \* "response already sent on request"
    ELSE [st EXCEPT !.replied = TRUE, !.out = Append(@, Msg("reply", kind, code, meta))]
Publish(st, to, kind) == [st EXCEPT !.out = Append(@, Msg(to, kind, "", FALSE))]

\* listeners run in registration order on the calling goroutine; a panicking listener ends the event call
RECURSIVE Notify(_, _, _, _)
Notify(sc, st, ev, j) ==
    IF j > sc.nl THEN st
    ELSE LET s1 == [st EXCEPT !.log = Append(@, <<"listen", ev, st.k, j>>)]
         IN IF j = sc.lpanic THEN Panic(s1, "other") ELSE Notify(sc, s1, ev, j + 1)

\* an event call: apply handler, publish, listeners
Emit(sc, st, ev, ap) ==
    LET s1 == IF ap = "absent" THEN st ELSE [st EXCEPT !.log = Append(@, <<"apply", ev, st.k>>)] IN
    IF ap = "fail" THEN Panic(s1, "other")
    ELSE IF ap = "noop" THEN s1
    ELSE IF sc.pubfail THEN Notify(sc, s1, ev, 1)      \* the connection refused the message: logged, listeners still told
    ELSE LET s2 == [Publish(s1, "event", ev) EXCEPT !.log = Append(@, <<"pub", ev, st.k>>)] IN Notify(sc, s2, ev, 1)

\* the same when the message cannot be handed to the connection (marshal or publish failure)
EmitUnpublished(sc, st, ev, ap) ==
    LET s1 == IF ap = "absent" THEN st ELSE [st EXCEPT !.log = Append(@, <<"apply", ev, st.k>>)] IN
    IF ap = "fail" THEN Panic(s1, "other")
    ELSE IF ap = "noop" THEN s1
    ELSE Notify(sc, s1, ev, 1)

ReservedEvents == {"change", "delete", "add", "remove", "patch", "reaccess", "unsubscribe", "query"}

\* One handler step.  a is the step name; st.k numbers the steps for the log.
DoBase(sc, st0, a) ==
    LET st == [st0 EXCEPT !.k = @ + 1]
        m == HasMeta(sc, st)
    IN CASE a = "ok"            -> Reply(sc, st, "result", "", m)
         [] a = "ok-nil"        -> Reply(sc, st, "result", "", m)
         [] a \in {"ok-bad", "ok-bad-reserr", "ok-bad-wrapped"} -> Reply(sc, st, "error", "system.internalError", FALSE)   \* unmarshalable result, whatever error the encoder reports
         \* the encoder of the supplied value panics: nothing was sent, the recover answers
         [] a \in {"ok-panic-marshal", "model-panic-marshal", "error-panic-data"} -> Panic(st, "other")
         [] a = "resource"      -> Reply(sc, st, "resource", "", m)
         [] a = "resource-bad"  -> Panic(st, "other")                                      \* invalid rid
         [] a \in {"error-res", "error-res-ctl"}     -> Reply(sc, st, "error", "custom.error", m)
         [] a \in {"error-plain", "error-plain-ctl", "error-nilres"} -> Reply(sc, st, "error", "system.internalError", m)
         [] a = "invalidparams-ctl" -> Reply(sc, st, "error", "system.invalidParams", m)
         [] a = "invalidquery-ctl"  -> Reply(sc, st, "error", "system.invalidQuery", m)
         [] a = "panic-str-ctl"     -> Panic(st, "other")
         [] a = "notfound"      -> Reply(sc, st, "error", "system.notFound", m)
         [] a = "methodnotfound"-> Reply(sc, st, "error", "system.methodNotFound", m)
         [] a = "invalidparams" -> Reply(sc, st, "error", "system.invalidParams", m)
         [] a = "invalidparams-msg" -> Reply(sc, st, "error", "system.invalidParams", m)
         [] a = "invalidquery"  -> Reply(sc, st, "error", "system.invalidQuery", m)
         [] a = "access"        -> Reply(sc, st, "result", "", m)
         [] a = "access-none"   -> Reply(sc, st, "error", "system.accessDenied", m)        \* Access(false, "")
         [] a = "accessdenied"  -> Reply(sc, st, "error", "system.accessDenied", m)
         [] a = "accessgranted" -> Reply(sc, st, "result", "", m)
         [] a = "model"         -> Reply(sc, st, "result", "", FALSE)
         [] a = "querymodel"    -> Reply(sc, st, "result", "", FALSE)
         [] a = "collection"    -> Reply(sc, st, "result", "", FALSE)
         [] a \in {"model-bad", "model-bad-reserr", "collection-bad-wrapped"} -> Reply(sc, st, "error", "system.internalError", FALSE)
         [] a = "new"           -> Reply(sc, st, "result", "", FALSE)
         [] a = "new-bad"       -> Panic(st, "other")
         [] a \in {"timeout", "timeout-max", "timeout-sub", "timeout-zero"} -> Publish(st, "reply", "pre")
         [] a = "timeout-neg"   -> Panic(st, "other")
         [] a \in {"status", "status-redirect", "status-error"} -> IF ~sc.http \/ st.replied THEN Panic(st, "other") ELSE [st EXCEPT !.status = TRUE]
         [] a \in {"header", "header-location"} -> IF ~sc.http \/ st.replied THEN Panic(st, "other") ELSE [st EXCEPT !.hdr = TRUE]
         \* an event value that cannot be marshalled: applied, not published (logged), listeners still told
         [] a = "ev-custom-bad" -> EmitUnpublished(sc, st, "custom", "absent")
         [] a = "ev-change-bad" -> IF sc.rt = "collection" THEN Panic(st, "other") ELSE EmitUnpublished(sc, st, "change", sc.ap.change)
         [] a = "ev-add-bad"    -> IF sc.rt = "model" THEN Panic(st, "other") ELSE EmitUnpublished(sc, st, "add", sc.ap.add)
         [] a = "tokenevent"    -> Publish(st, "token", "token")
         [] a = "ev-custom"     -> Emit(sc, st, "custom", "absent")
         [] a = "ev-dollar"     -> Emit(sc, st, "$foo", "absent")       \* any printable token without . * > ? is a valid custom event name
         [] a = "ev-punct"      -> Emit(sc, st, "x-y_z~", "absent")
         [] a \in {"ev-empty", "ev-space", "ev-wild", "ev-gt", "ev-q", "ev-del", "ev-dot"} -> Panic(st, "other")   \* malformed names: nothing published
         [] a = "ev-reserved"   -> Panic(st, "other")
         [] a = "ev-malformed"  -> Panic(st, "other")
         [] a = "ev-change"     -> IF sc.rt = "collection" THEN Panic(st, "other") ELSE Emit(sc, st, "change", sc.ap.change)
         [] a = "ev-change-empty" -> IF sc.rt = "collection" THEN Panic(st, "other") ELSE st
         [] a = "ev-add"        -> IF sc.rt = "model" THEN Panic(st, "other") ELSE Emit(sc, st, "add", sc.ap.add)
         [] a = "ev-add-neg"    -> Panic(st, "other")
         [] a = "ev-remove"     -> IF sc.rt = "model" THEN Panic(st, "other") ELSE Emit(sc, st, "remove", sc.ap.remove)
         [] a = "ev-remove-neg" -> Panic(st, "other")
         [] a = "ev-create"     -> Emit(sc, st, "create", sc.ap.create)
         [] a = "ev-delete"     -> Emit(sc, st, "delete", sc.ap.delete)
         [] a = "ev-reaccess"   -> IF sc.pubfail THEN st ELSE Publish(st, "event", "reaccess")
         [] a = "ev-reset"      -> Publish(st, "reset", "reset")
         \* Service.TokenReset from inside a handler: one system.tokenReset message unless no token id is given
         [] a \in {"tokenreset", "tokenreset-empty", "tokenreset-mixed", "tokenreset-dup"} -> Publish(st, "tokenreset", "tokenReset")
         [] a = "tokenreset-none" -> st
         [] a = "value"         -> st                       \* nested Value(): runs the get handler in memory, publishes nothing
         [] a = "requirevalue-missing" -> Panic(st, "system.notFound")   \* RequireValue without get handler panics with the *Error
         [] a = "panic-res"     -> Panic(st, "custom.panic")
         [] a = "panic-err"     -> Panic(st, "other")
         [] a = "panic-str"     -> Panic(st, "other")
         [] a = "panic-int"     -> Panic(st, "other")
         [] a = "panic-nilerr"  -> Panic(st, "other")       \* a nil *Error is not an error value
         \* an error value whose Error method panics (typed nil pointer, broken implementation): any other panic
         [] a \in {"panic-typednil", "panic-errpanics"} -> Panic(st, "other")
         [] a = "panic-nil"     -> Panic(st, "other")       \* panic(nil), whether or not recover() reports it as nil
         [] OTHER               -> Panic(st, "unknown-step")

\* "try-x": the handler performs step x and recovers a panic it raises; the request object stays in use
TryBase == [a \in {"try-ev-custom", "try-ev-change", "try-ev-add", "try-ev-remove", "try-ev-create", "try-ev-delete", "try-ok", "try-panic-str", "try-ev-reserved"} |->
              CASE a = "try-ev-custom" -> "ev-custom" [] a = "try-ev-change" -> "ev-change" [] a = "try-ev-add" -> "ev-add"
                [] a = "try-ev-remove" -> "ev-remove" [] a = "try-ev-create" -> "ev-create" [] a = "try-ev-delete" -> "ev-delete"
                [] a = "try-ok" -> "ok" [] a = "try-panic-str" -> "panic-str" [] OTHER -> "ev-reserved"]
Do(sc, st0, a) == IF a \in DOMAIN TryBase THEN [DoBase(sc, st0, TryBase[a]) EXCEPT !.pan = ""] ELSE DoBase(sc, st0, a)

\* the deferred recover of executeHandler, and the missing-response fallback
Finish(sc, st) ==
    IF st.pan # "" THEN
        IF st.replied THEN st
        ELSE LET code == IF st.pan = "other" THEN "system.internalError" ELSE st.pan
             IN [st EXCEPT !.replied = TRUE, !.out = Append(@, Msg("reply", "error", code, HasMeta(sc, st)))]
    ELSE IF st.replied THEN st
    ELSE [st EXCEPT !.replied = TRUE, !.out = Append(@, Msg("reply", "error", "system.internalError", FALSE))]

RECURSIVE Steps(_, _, _)
Steps(sc, st, i) == IF i > Len(sc.script) \/ st.pan # "" THEN st ELSE Steps(sc, Do(sc, st, sc.script[i]), i + 1)

\* Reference outcome of a whole request.
Run(sc) ==
    IF Invoked(sc) = "none"
    THEN [inv |-> "none", out |-> IF Uninvoked(sc) = "" THEN <<>> ELSE <<Msg("reply", "error", Uninvoked(sc), FALSE)>>, log |-> <<>>]
    ELSE LET st == Finish(sc, Steps(sc, St0, 1)) IN [inv |-> Invoked(sc), out |-> st.out, log |-> st.log]

\* ---- the properties, over an outcome o of scenario sc ---------------------------
\* C04: exactly one response (none only for an access request without access handler)
ExactlyOne(sc, o) ==
    Responses(o.out) = (IF sc.rtype = "access" /\ sc.matched /\ sc.payload # "malformed" /\ ~sc.hasAccess THEN 0 ELSE 1)
\* C07 (shape part that is visible at this abstraction): meta only on responses of http requests
MetaOnlyHttp(sc, o) == \A i \in 1..Len(o.out) : o.out[i].meta => (sc.http /\ IsResponse(o.out[i]))
\* C08: per event call the log reads apply?, pub, listen 1..n; nothing after a failed or no-op apply
EventOrder(sc, o) ==
    \A i \in 1..Len(o.log) :
        LET e == o.log[i] IN
        /\ e[1] = "pub" => \A j \in 1..Len(o.log) : (o.log[j][1] = "apply" /\ o.log[j][3] = e[3]) => j < i
        /\ e[1] = "listen" => \A j \in 1..Len(o.log) : (o.log[j][1] \in {"apply", "pub"} /\ o.log[j][3] = e[3]) => j < i
        /\ e[1] = "listen" => Cardinality({j \in 1..Len(o.log) : o.log[j][1] = "listen" /\ o.log[j][3] = e[3]})
                                 = (IF sc.lpanic \in 1..sc.nl THEN sc.lpanic ELSE sc.nl)
\* all messages of one callback appear in program order: the step numbers in the log never decrease
ProgramOrder(o) == \A i, j \in 1..Len(o.log) : i < j => o.log[i][3] <= o.log[j][3]
=============================================================================

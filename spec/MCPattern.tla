----------------------------- MODULE MCPattern -----------------------------
(***************************************************************************)
(* Model check of the pattern grammar itself (C17): every pair of strings   *)
(* up to MaxLen over Alphabet is a state; the invariants are the relations  *)
(* the property states between matching, extraction, replacement, covering  *)
(* and validity.                                                            *)
(***************************************************************************)
EXTENDS ResPattern
CONSTANTS Alphabet, MaxLen, MaxNameToks
NameToks == {<<"a">>, <<"b">>, <<"c">>}

VARIABLES p, n
vars == <<p, n>>

Init == p = <<>> /\ n = <<>>
Next == \/ /\ Len(p) < MaxLen /\ \E c \in Alphabet : p' = Append(p, c) /\ UNCHANGED n
        \/ /\ Len(n) < MaxLen /\ \E c \in Alphabet : n' = Append(n, c) /\ UNCHANGED p
Spec == Init /\ [][Next]_vars

\* all concrete names of 1..MaxNameToks tokens over NameToks (used as the universe of names)
NameSeqs == SeqsUpTo(NameToks, MaxNameToks) \ {<<>>}
AllNames == {Join(ts) : ts \in NameSeqs}

\* extraction substituted back still matches; gives the name itself without anonymous wildcards
RoundTrip ==
    (ValidPattern(p) /\ ValidName(n) /\ DistinctParams(p) /\ Matches(p, n)) =>
        LET q == ReplaceTags(p, Values(p, n))
        IN /\ Matches(q, n)
           /\ (AnonFree(p) => q = n)

\* a pattern covers another exactly when every name of the second matches the first
\* (restricted to second patterns whose literal tokens belong to the name universe, so that
\* "every name of the second" is not vacuous)
LiteralsInUniverse(s) == \A i \in 1..Len(Tokens(s)) :
    IsWildTok(Tokens(s)[i]) \/ IsFullTok(Tokens(s)[i]) \/ Tokens(s)[i] \in NameToks
CoverSemantics ==
    (ValidPattern(p) /\ ValidPattern(n) /\ p # <<>> /\ n # <<>> /\ LiteralsInUniverse(n)) =>
        (Matches(p, n) <=> \A x \in AllNames : Matches(n, x) => Matches(p, x))

\* a name is matched by itself, names are patterns, parts are one-token names
Reflexive == (ValidName(n) /\ ValidPattern(n) /\ ~HasWildcard(n)) => Matches(n, n)
Validity ==
    /\ (ValidName(n) => ValidRID(n))
    /\ (ValidPath(n) /\ n # <<>> => ValidName(n))
    /\ (ValidPart(n) => ValidName(n) /\ Len(Tokens(n)) = 1)
    /\ (ValidPattern(p) /\ ~HasWildcard(p) => IndexWildcard(p) = -1)
    /\ (ValidPattern(p) /\ HasWildcard(p) => IndexWildcard(p) >= 0 /\ p[IndexWildcard(p) + 1] \in {"$", "*", ">"})

\* id -> rid -> id through the ID transformer's pattern is the identity on valid parts
IdRoundTrip ==
    ValidPart(n) =>
        LET pat == <<"l", ".", "$", "i">>
            rid == ReplaceTags(pat, <<<<<<"i">>, n>>>>)
        IN Matches(pat, rid) /\ Values(pat, rid) = <<<<<<"i">>, n>>>>
=============================================================================

------------------------------ MODULE TraceIndex ------------------------------
(* Binding for C13 and C14: one record per query (or per query change)         *)
(* observed on the real badgerstore query store.                               *)
EXTENDS ResIndex, Json
Trace == ndJsonDeserialize("trace.ndjson")
VARIABLE l
Stride == 64
Init == l \in 1..(IF Len(Trace) < Stride THEN Len(Trace) ELSE Stride)
Next == l + Stride <= Len(Trace) /\ l' = l + Stride
R == Trace[l]
SetOf(s) == {s[i] : i \in 1..Len(s)}
RecordOK ==
    CASE R.kind = "query"  -> R.got = RefQuery(SetOf(R.entries), R.q)
      [] R.kind = "change" ->        \* C14: affected flag of a query change against the reference
            /\ (MustAffect(SetOf(R.entries), SetOf(R.after), R.q) => R.affected)
            /\ (MustNotAffect(R.b, R.a, R.q) => ~R.affected)
      [] R.kind = "callbacks" -> R.problems = <<>>
      [] OTHER -> FALSE
=============================================================================

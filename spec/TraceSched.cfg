INIT TraceInit
NEXT TraceNext
CONSTANTS
  Workers <- TraceWorkers
  Producers <- TraceProducers
  ApiCallers = {}
  Groups <- TraceGroups
  Par = ""
  Nil = nil
  MaxCycles = 1000
  RecheckUnderLock = TRUE
  GuardedConn = TRUE
  PerCycleWG = TRUE
  SubscribeMayFail = TRUE
  StartMayFail = FALSE
  ResetOnFailedStart = TRUE
  Script <- TraceScript
CONSTRAINT HighWater
INVARIANTS NotAccepted MutualExclusion FifoPrefix AtMostOnce NoPanic NoLateStart
POSTCONDITION Report
CHECK_DEADLOCK FALSE

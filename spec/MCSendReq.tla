------------------------------ MODULE MCSendReq ------------------------------
(* Model check of the SendRequest reference over every script of the bound:    *)
(* the returned response is the first real response delivered before the       *)
(* deadline in force; timeout exactly when there is none; every announced       *)
(* extension is reported; failures return at once.                             *)
EXTENDS ResSendReq
CONSTANTS MaxLen, T0
Events == { <<"wait", 1>>, <<"wait", 2>>, <<"pre", 1>>, <<"pre", 3>>, <<"prebad">>, <<"resp", "result">>, <<"resp", "error">>, <<"resp", "garbage">> }
VARIABLE script
Init == script = <<>>
Next == Len(script) < MaxLen /\ \E e \in Events : script' = Append(script, e)
Spec == Init /\ [][Next]_script
O == Outcome("", T0, script)
\* independent characterisation: walk the script keeping (time, deadline); find the first response in time
RECURSIVE FirstResp(_, _, _)
FirstResp(now, dl, s) ==
    IF s = <<>> THEN 0
    ELSE LET e == Head(s) IN
         IF e[1] = "wait" THEN (IF now + e[2] >= dl THEN 0 ELSE LET r == FirstResp(now + e[2], dl, Tail(s)) IN IF r = 0 THEN 0 ELSE r + 1)
         ELSE IF e[1] = "pre" THEN (LET r == FirstResp(now, now + e[2], Tail(s)) IN IF r = 0 THEN 0 ELSE r + 1)
         ELSE IF e[1] = "prebad" THEN (LET r == FirstResp(now, dl, Tail(s)) IN IF r = 0 THEN 0 ELSE r + 1)
         ELSE 1
FirstReal == LET i == FirstResp(0, T0, script) IN
             IF i = 0 THEN O.res = "timeout"
             ELSE O.res = (IF script[i][2] = "garbage" THEN "internal" ELSE script[i][2])
TimeoutLater == O.res = "timeout" => O.at >= T0 \/ \E k \in 1..Len(O.ext) : TRUE
FailFast == \A f \in {"marshal", "subscribe", "publish"} : Outcome(f, T0, script).res = "internal" /\ Outcome(f, T0, script).at = 0
ExtensionsReported == \A k \in 1..Len(O.ext) : O.ext[k] \in {1, 3}
=============================================================================

------------------------------ MODULE MCClient ------------------------------
(* Model check of the client fold against a reference differ: for every pair  *)
(* of collections (models) of the bound, the events of the reference diff -   *)
(* remove what differs from the end of the common prefix, then add - turn the *)
(* old value into the new one with every index in range; identical values      *)
(* give no events.  This pins down the event semantics the binding relies on.  *)
EXTENDS ResClient
CONSTANTS Vals, MaxLen, KeySet
VARIABLES a, b
Init == a = <<>> /\ b = <<>>
Next == \/ Len(a) < MaxLen /\ \E v \in Vals : a' = Append(a, v) /\ UNCHANGED b
        \/ Len(b) < MaxLen /\ \E v \in Vals : b' = Append(b, v) /\ UNCHANGED a
Spec == Init /\ [][Next]_<<a, b>>
RECURSIVE CommonPrefix(_, _)
CommonPrefix(x, y) == IF x = <<>> \/ y = <<>> \/ Head(x) # Head(y) THEN 0 ELSE 1 + CommonPrefix(Tail(x), Tail(y))
RefDiff(x, y) ==
    LET p == CommonPrefix(x, y)
        rem == [i \in 1..(Len(x) - p) |-> [ev |-> "remove", idx |-> Len(x) - i]]
        add == [i \in 1..(Len(y) - p) |-> [ev |-> "add", v |-> y[p + i], idx |-> p + i - 1]]
    IN rem \o add
Col(c) == [t |-> "collection", c |-> c]
CollectionsCoherent == Coherent(Col(a), RefDiff(a, b), Col(b)) /\ Silent(Col(a), RefDiff(a, b), Col(b))
\* models over KeySet: a, b reinterpreted as value assignments to the first keys
KeySeq == CHOOSE s \in [1..Cardinality(KeySet) -> KeySet] : \A i, j \in 1..Cardinality(KeySet) : s[i] = s[j] => i = j
AsModel(c) == [i \in 1..(IF Len(c) < Cardinality(KeySet) THEN Len(c) ELSE Cardinality(KeySet)) |-> <<KeySeq[i], c[i]>>]
ModelDiff(x, y) ==
    LET ch == SelectSeq(y, LAMBDA p : p[1] \notin Keys(x) \/ Val(x, p[1]) # p[2])
        gone == SelectSeq(x, LAMBDA p : p[1] \notin Keys(y))
        vals == ch \o [i \in 1..Len(gone) |-> <<gone[i][1], Del>>]
    IN IF vals = <<>> THEN <<>> ELSE <<[ev |-> "change", vals |-> vals]>>
Mod(m) == [t |-> "model", m |-> m]
ModelsCoherent ==
    LET x == AsModel(a) y == AsModel(b) IN
    Coherent(Mod(x), ModelDiff(x, y), Mod(y)) /\ Silent(Mod(x), ModelDiff(x, y), Mod(y)) /\ Minimal(Mod(x), ModelDiff(x, y))
=============================================================================

SPECIFICATION FairSpec
CONSTANTS
  Workers = {w1, w2}
  Producers = {p1, p2}
  ApiCallers = {a1}
  Groups = {g1, g2}
  Par = par
  Nil = nil
  p1 = p1
  p2 = p2
  g1 = g1
  g2 = g2
  MaxCycles = 1
  RecheckUnderLock = TRUE
  GuardedConn = TRUE
  PerCycleWG = TRUE
  SubscribeMayFail = FALSE
  StartMayFail = FALSE
  ResetOnFailedStart = TRUE
  Script <- MCScriptL
PROPERTIES ShutdownReturns ServeReturns AcceptedRuns
CHECK_DEADLOCK FALSE

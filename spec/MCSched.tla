------------------------------ MODULE MCSched ------------------------------
(* Model-checking wrapper of ResSched: concrete scripts for the producers.   *)
EXTENDS ResSched
CONSTANTS p1, p2, g1, g2
\* two producers: p1 submits g1,g2,g1 ; p2 submits g1,par
MCScript == (p1 :> <<g1, g2, g1>>) @@ (p2 :> <<g1, Par>>)
MCScriptB == (p1 :> <<g1, g1, g1>>) @@ (p2 :> <<g1>>)
MCScriptC == (p1 :> <<g1, g2>>) @@ (p2 :> <<g2, g1>>)
MCScriptD == (p1 :> <<g1, g2, g2>>) @@ (p2 :> <<g2, g1>>)
MCScriptL == (p1 :> <<g1, g1>>) @@ (p2 :> <<g1>>)
=============================================================================

SPECIFICATION Spec
CONSTANTS
  Alphabet = {"a", "b", ".", "$", "*", ">", "?"}
  MaxLen = 4
  MaxNameToks = 4
INVARIANTS RoundTrip CoverSemantics Reflexive Validity IdRoundTrip
CHECK_DEADLOCK FALSE

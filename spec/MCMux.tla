------------------------------- MODULE MCMux -------------------------------
(***************************************************************************)
(* Model check of the routing reference: for every conflict-free set of up  *)
(* to MaxRegs patterns (token sequences over Toks, up to MaxToks tokens)    *)
(* and every name over NameToks, "the most specific matching pattern" is    *)
(* well defined (exactly one minimum), it matches, and no other matching    *)
(* pattern is more specific.  States are (registrations, name) pairs grown  *)
(* one registration / one name token at a time.                             *)
(***************************************************************************)
EXTENDS ResMux
CONSTANTS MaxRegs, MaxToks, MaxNameToks
Toks == {<<"a">>, <<"b">>, <<"$", "x">>, <<"$", "y">>, <<"*">>, <<">">>}
NameToks == {<<"a">>, <<"b">>, <<"c">>}
Pats == {Join(ts) : ts \in (SeqsUpTo(Toks, MaxToks) \ {<<>>})}
GoodPats == {q \in Pats : ValidPattern(q) /\ DistinctParams(q)}

VARIABLES regs, name
vars == <<regs, name>>
Init == regs = <<>> /\ name = <<>>
Mk(q, k) == [pat |-> q, grp |-> <<>>, par |-> FALSE, id |-> k]
Next ==
    \/ /\ Len(regs) < MaxRegs /\ name = <<>>
       /\ \E q \in GoodPats :
            /\ \A i \in 1..Len(regs) : ~Conflict(regs[i].pat, q)
            /\ regs' = Append(regs, Mk(q, Len(regs) + 1))
       /\ UNCHANGED name
    \/ /\ Len(Tokens(name)) < MaxNameToks
       /\ \E t \in NameToks : name' = (IF name = <<>> THEN t ELSE name \o <<Dot>> \o t)
       /\ UNCHANGED regs
Spec == Init /\ [][Next]_vars

UniqueMostSpecific ==
    name # <<>> =>
        LET M == MatchSet(regs, name)
            mins == {i \in M : \A j \in M \ {i} : MoreSpecific(regs[i].pat, regs[j].pat)}
        IN (M # {} => Cardinality(mins) = 1) /\ (M = {} => Route(regs, name) = 0)
RouteSound ==
    (name # <<>> /\ Route(regs, name) # 0) =>
        LET r == regs[Route(regs, name)] IN
        /\ Matches(r.pat, name)
        /\ \A j \in MatchSet(regs, name) : ~MoreSpecific(regs[j].pat, r.pat)
        /\ Matches(ReplaceTags(r.pat, Values(r.pat, name)), name)
        /\ GroupOf(r, name) = name
\* MoreSpecific is a strict order on patterns that match a common name
OrderSane ==
    name # <<>> =>
        \A i, j \in MatchSet(regs, name) :
            i # j => (MoreSpecific(regs[i].pat, regs[j].pat) # MoreSpecific(regs[j].pat, regs[i].pat))
=============================================================================

------------------------------- MODULE MCIndex -------------------------------
(***************************************************************************)
(* Model of index maintenance and Flush (C13, C14): a mutation commits the  *)
(* value and queues an index task; the single consumer takes a task, commits *)
(* the index entries, then notifies the query-change callbacks; Flush waits  *)
(* for the queue.  SentinelFlush = FALSE is the shipped Flush (it waits for  *)
(* the queue's size counter, which is decremented when a task is taken, not  *)
(* when it has finished); TRUE is the repaired one (a sentinel task).        *)
(***************************************************************************)
EXTENDS ResIndex
CONSTANTS Ids, MaxMut, SentinelFlush
Keys == {<<1>>, <<2>>}
NoKey == <<0>>
VARIABLES val,      \* [Ids -> key or NoKey]: committed values (their index keys)
          index,    \* set of <<key, id>> index entries
          queue,    \* pending index tasks <<id, beforeKey, afterKey>> ; <<"S">> is the flush sentinel
          running,  \* task being processed, or <<>>
          nmut, flush, qclog
vars == <<val, index, queue, running, nmut, flush, qclog>>
Init == /\ val = [i \in Ids |-> NoKey] /\ index = {} /\ queue = <<>> /\ running = <<>> /\ nmut = 0 /\ flush = "idle" /\ qclog = <<>>
Mutate(i, k) == /\ nmut < MaxMut /\ flush = "idle" /\ val[i] # k
                /\ val' = [val EXCEPT ![i] = k] /\ queue' = Append(queue, <<i, val[i], k>>) /\ nmut' = nmut + 1
                /\ UNCHANGED <<index, running, flush, qclog>>
TaskTake == /\ running = <<>> /\ queue # <<>> /\ running' = Head(queue) /\ queue' = Tail(queue)
            /\ UNCHANGED <<val, index, nmut, flush, qclog>>
TaskCommit == /\ running # <<>> /\ running # <<"S">> /\ Len(running) = 3
              /\ LET i == running[1] b == running[2] a == running[3] IN
                 /\ index' = (index \ (IF b = NoKey THEN {} ELSE {<<b, i>>})) \cup (IF a = NoKey THEN {} ELSE {<<a, i>>})
                 /\ running' = <<i, b, a, "committed">>
              /\ UNCHANGED <<val, queue, nmut, flush, qclog>>
TaskNotify == /\ Len(running) = 4 /\ qclog' = Append(qclog, <<running[1], running[2], running[3]>>) /\ running' = <<>>
              /\ UNCHANGED <<val, index, queue, nmut, flush>>
SentinelDone == /\ running = <<"S">> /\ running' = <<>> /\ flush' = "returned" /\ UNCHANGED <<val, index, queue, nmut, qclog>>
FlushCall == /\ flush = "idle" /\ nmut = MaxMut
             /\ IF SentinelFlush THEN queue' = Append(queue, <<"S">>) /\ flush' = "waiting"
                ELSE queue' = queue /\ flush' = "waiting"
             /\ UNCHANGED <<val, index, running, nmut, qclog>>
\* shipped Flush: returns as soon as nothing is queued (a task may still be running)
FlushReturnShipped == /\ ~SentinelFlush /\ flush = "waiting" /\ queue = <<>> /\ flush' = "returned"
                      /\ UNCHANGED <<val, index, queue, running, nmut, qclog>>
Next == (\E i \in Ids, k \in Keys \cup {NoKey} : Mutate(i, k)) \/ TaskTake \/ TaskCommit \/ TaskNotify \/ SentinelDone \/ FlushCall \/ FlushReturnShipped
Spec == Init /\ [][Next]_vars
\* C13: once Flush has returned, the index is exactly what the values say
IndexOf == {<<val[i], i>> : i \in {j \in Ids : val[j] # NoKey}}
AfterFlush == flush = "returned" => index = IndexOf
\* C14: query-change callbacks come after the index reflects the mutation, once each, in mutation order per id
NotifiedAfterCommit ==
    Len(running) = 4 =>
        LET i == running[1] b == running[2] a == running[3] IN
        /\ (a # NoKey => <<a, i>> \in index)
        /\ ((b # NoKey /\ b # a) => <<b, i>> \notin index)
ChainPerId == \A i \in Ids : LET s == SelectSeq(qclog, LAMBDA e : e[1] = i) IN
                 \A n \in 1..(Len(s) - 1) : s[n + 1][2] = s[n][3]
=============================================================================

SPECIFICATION FairSpec
CONSTANTS
  Reqs = {"r1", "r2", "r3"}
  Cap = 2
  SubscribeCanFail = FALSE
  ListenerEndsQuery = TRUE
INVARIANTS AtMostOneReply NilAtMostOnce NilLast FailedSub
PROPERTIES Answered Ends Released
CHECK_DEADLOCK FALSE

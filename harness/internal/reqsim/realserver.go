package reqsim

import (
	"fmt"
	"strings"
	"sync"
	"time"

	res "github.com/jirenius/go-res"
	"github.com/nats-io/nats-server/v2/server"
	nats "github.com/nats-io/nats.go"

	"verif/internal/core"
)

// runRealServer: C04 on a real (embedded) NATS server. A service without queue group is served with
// ListenAndServe; a second client sends requests and counts the responses on each reply subject; the server is
// restarted (the service reconnects) and the requests are sent again. Every request is answered exactly once -
// also one whose handler replies with more than the server accepts in one message.
func runRealServer(c *core.Ctx) {
	start := func(port int) (*server.Server, error) {
		srv, err := server.NewServer(&server.Options{Host: "127.0.0.1", Port: port, NoLog: true, NoSigs: true})
		if err != nil {
			return nil, err
		}
		go srv.Start()
		if !srv.ReadyForConnections(5 * time.Second) {
			return nil, fmt.Errorf("embedded nats-server did not start")
		}
		return srv, nil
	}
	srv, err := start(-1)
	if err != nil {
		c.Inconclusive("real server scenario: %v", err)
		return
	}
	defer func() { srv.Shutdown() }()
	url := srv.ClientURL()
	addr := srv.Addr().(interface{ String() string }).String()
	var port int
	fmt.Sscan(addr[strings.LastIndexByte(addr, ':')+1:], &port)

	s := res.NewService("test")
	s.SetLogger(nil)
	s.SetQueueGroup("")
	big := strings.Repeat("0123456789abcdef", 140000) // 2.2 MB: more than the server's 1 MB message limit
	s.Handle("small", res.Access(res.AccessGranted), res.GetModel(func(r res.ModelRequest) { r.Model(map[string]int{"a": 1}) }),
		res.Call("m", func(r res.CallRequest) { r.OK(nil) }), res.Auth("m", func(r res.AuthRequest) { r.OK(nil) }))
	s.Handle("big", res.GetModel(func(r res.ModelRequest) { r.Model(map[string]string{"v": big}) }),
		res.Call("m", func(r res.CallRequest) { r.OK(map[string]string{"v": big}) }))
	served := make(chan struct{}, 1)
	reconn := make(chan struct{}, 4)
	s.SetOnServe(func(*res.Service) { served <- struct{}{} })
	s.SetOnReconnect(func(*res.Service) { reconn <- struct{}{} })
	done := make(chan error, 1)
	go func() { done <- s.ListenAndServe(url, nats.ReconnectWait(200*time.Millisecond)) }()
	select {
	case <-served:
	case err := <-done:
		c.Inconclusive("real server scenario: ListenAndServe returned %v", err)
		return
	case <-time.After(5 * time.Second):
		c.Inconclusive("real server scenario: the service did not start")
		return
	}
	defer func() {
		s.Shutdown()
		select {
		case <-done:
		case <-time.After(3 * time.Second):
		}
	}()
	var recs []interface{}
	probe := func(round string) bool {
		mc, err := nats.Connect(url, nats.NoReconnect())
		if err != nil {
			c.Inconclusive("real server scenario: client cannot connect: %v", err)
			return false
		}
		defer mc.Close()
		var mu sync.Mutex
		got := map[string]int{}
		mc.Subscribe("_RS.>", func(m *nats.Msg) {
			if strings.HasPrefix(string(m.Data), "timeout:") {
				return
			}
			mu.Lock()
			got[m.Subject]++
			mu.Unlock()
		})
		mc.Flush()
		subjects := []string{"access.test.small", "get.test.small", "call.test.small.m", "auth.test.small.m", "get.test.nothing", "call.test.small.nomethod", "get.test.big", "call.test.big.m"}
		for i, subj := range subjects {
			mc.PublishRequest(subj, fmt.Sprintf("_RS.%s.%d", round, i), []byte(`{}`))
		}
		mc.Flush()
		// wait until every probe has an answer (at most 3 s), then a little longer for duplicates
		for t := 0; t < 600; t++ {
			mu.Lock()
			n := len(got)
			mu.Unlock()
			if n == len(subjects) {
				break
			}
			time.Sleep(5 * time.Millisecond)
		}
		time.Sleep(150 * time.Millisecond)
		mu.Lock()
		defer mu.Unlock()
		for i, subj := range subjects {
			n := got[fmt.Sprintf("_RS.%s.%d", round, i)]
			recs = append(recs, map[string]interface{}{"kind": "answer", "life": 1, "seq": []string{}, "n": n, "done": true,
				"subj": subj + " on a real NATS server, " + round, "seed": 0})
		}
		return true
	}
	if !probe("first") {
		return
	}
	// restart the server on the same port: the service's client reconnects
	srv.Shutdown()
	srv.WaitForShutdown()
	srv, err = start(port)
	if err != nil {
		c.Inconclusive("real server scenario: cannot restart the server: %v", err)
		return
	}
	select {
	case <-reconn:
		time.Sleep(50 * time.Millisecond)
		probe("reconnected")
	case <-time.After(5 * time.Second):
		c.Inconclusive("real server scenario: the service did not reconnect within 5s")
	}
	core.CheckRecords(c, "TraceLoad", "TraceLoad.cfg", recs, nil, func(i int, r interface{}, inv string) {
		m := r.(map[string]interface{})
		kind := "C04:real-server:count"
		if strings.Contains(fmt.Sprint(m["subj"]), "test.big") {
			kind = "C04:real-server:reply-above-max-payload"
		}
		c.Violate(core.Violation{Signature: map[string]string{"engine": "reqsim", "kind": kind},
			Text: fmt.Sprintf("request %v got %v responses, expected exactly one", m["subj"], m["n"]), Replay: m})
	})
	c.Cover("real_server_probes", len(recs))
}

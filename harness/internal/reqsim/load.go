package reqsim

import (
	"bytes"
	"encoding/json"
	"fmt"
	"math/rand"
	"os"
	"os/exec"
	"path/filepath"
	"strings"
	"sync"
	"time"

	res "github.com/jirenius/go-res"

	"verif/internal/core"
	"verif/internal/rconn"
)

// Load scenario for C04: one Service value lives through several Serve/Shutdown cycles; in every life
// requests of all four types are delivered concurrently from several goroutines to many resources whose
// handlers reply, reply twice, do not reply, panic or are slow. Requests delivered while the service is
// quiet-started are judged "exactly one response"; a burst delivered just before each Shutdown (so that
// work is queued behind busy workers when the service stops) is judged "at most one response".

type loadReq struct {
	Life  int    `json:"life"`
	Subj  string `json:"subj"`
	Inbox string `json:"inbox"`
	Kind  string `json:"kind"` // answer | noanswer | burst
	N     int    `json:"n"`    // responses published on the inbox
	Done  bool   `json:"done"` // the service reported the request fully processed
	Nprev int    `json:"nprev"`
}

// LoadMain runs one load scenario in this process and writes its records.
func LoadMain(seed int64, outFile string) {
	rng := rand.New(rand.NewSource(seed))
	s := res.NewService("test")
	s.SetLogger(nil)
	workers := 1 + rng.Intn(3)
	s.SetWorkerCount(workers)
	s.SetInChannelSize(8 + rng.Intn(3)*28)
	behave := func(id string, reply func(), fail func()) {
		n := 0
		fmt.Sscan(id, &n)
		switch n % 6 {
		case 0:
			reply()
		case 1: // returns without replying
		case 2:
			panic("handler panic " + id)
		case 3:
			panic(res.ErrNotFound)
		case 4:
			reply()
			reply() // a second reply panics; the panic is recovered and nothing more is sent
		case 5:
			time.Sleep(time.Duration(1+n%3) * time.Millisecond)
			fail()
		}
	}
	s.Handle("load.$id",
		res.Access(func(r res.AccessRequest) {
			behave(r.PathParam("id"), func() { r.AccessGranted() }, func() { r.AccessDenied() })
		}),
		res.GetModel(func(r res.ModelRequest) {
			behave(r.PathParam("id"), func() { r.Model(map[string]int{"v": 1}) }, func() { r.NotFound() })
		}),
		res.Call("m", func(r res.CallRequest) {
			behave(r.PathParam("id"), func() { r.OK(nil) }, func() { r.InvalidParams("no") })
		}),
		res.Auth("m", func(r res.AuthRequest) {
			behave(r.PathParam("id"), func() { r.OK(nil) }, func() { r.InvalidParams("no") })
		}))
	s.Handle("noacc.$id", res.GetModel(func(r res.ModelRequest) { r.Model(map[string]int{"v": 2}) }))
	hotCall := res.Call("m", func(r res.CallRequest) {
		if string(r.RawParams()) == `"slow"` {
			time.Sleep(8 * time.Millisecond)
		}
		r.OK(nil)
	})
	s.Handle("hot.$id", hotCall)
	s.Handle("hotg.$id", hotCall, res.Group("hotgrp"))
	s.Handle("slow", res.Call("m", func(r res.CallRequest) { time.Sleep(15 * time.Millisecond); r.OK(nil) }), res.Group("slowgrp"))
	s.Handle("slow2.$id", res.Call("m", func(r res.CallRequest) { time.Sleep(15 * time.Millisecond); r.OK(nil) }))

	var dmu sync.Mutex
	done := map[string]bool{}
	res.VerifHook = func(p string, a ...interface{}) {
		if p == "rq.done" && len(a) > 1 {
			dmu.Lock()
			done[fmt.Sprint(a[1])] = true
			dmu.Unlock()
		}
	}
	isDone := func(inbox string) bool {
		dmu.Lock()
		defer dmu.Unlock()
		return done[inbox]
	}
	nres := 12
	mk := func(life, k int, burst bool) loadReq {
		id := rng.Intn(nres)
		inbox := fmt.Sprintf("inbox.l%d.%d", life, k)
		kind := "answer"
		var subj string
		switch rng.Intn(9) {
		case 0:
			subj = fmt.Sprintf("access.test.load.%d", id)
		case 1:
			subj = fmt.Sprintf("get.test.load.%d", id)
		case 2:
			subj = fmt.Sprintf("call.test.load.%d.m", id)
		case 3:
			subj = fmt.Sprintf("auth.test.load.%d.m", id)
		case 4:
			subj = fmt.Sprintf("call.test.load.%d.missing", id)
		case 5:
			subj = fmt.Sprintf("access.test.noacc.%d", id%3)
			kind = "noanswer"
		case 6:
			subj = fmt.Sprintf("get.test.noacc.%d", id%3)
		case 7:
			subj = fmt.Sprintf("get.test.none.%d", id%3)
		default:
			subj = fmt.Sprintf("auth.test.load.%d.missing", id)
		}
		if burst {
			kind = "burst"
		}
		return loadReq{Life: life, Subj: subj, Inbox: inbox, Kind: kind}
	}
	payloads := [][]byte{nil, []byte(`{"cid":"c1"}`), []byte(`{"cid":"c1","params":{"a":1},"token":{"t":1}}`), []byte(`{"cid":`)}
	var all []loadReq
	lives := 3
	fatal := func(msg string) {
		f, _ := os.OpenFile(outFile, os.O_CREATE|os.O_WRONLY|os.O_APPEND, 0o644)
		b, _ := json.Marshal(map[string]string{"error": msg})
		f.Write(append(b, '\n'))
		f.Close()
		os.Exit(0)
	}
	for life := 1; life <= lives; life++ {
		conn := rconn.New(nil)
		served := make(chan struct{})
		s.SetOnServe(func(*res.Service) { close(served) })
		sdone := make(chan error, 1)
		go func() { sdone <- s.Serve(conn) }()
		select {
		case <-served:
		case <-time.After(5 * time.Second):
			fatal(fmt.Sprintf("service did not start in life %d", life))
		}
		// judged phase: concurrent deliveries from three goroutines
		var reqs []loadReq
		for k := 0; k < 60; k++ {
			reqs = append(reqs, mk(life, k, false))
		}
		var wg sync.WaitGroup
		for g := 0; g < 3; g++ {
			wg.Add(1)
			pls := make([][]byte, len(reqs))
			for k := range pls {
				pls[k] = payloads[rng.Intn(len(payloads))]
				if reqs[k].Kind == "noanswer" {
					pls[k] = payloads[rng.Intn(3)]
				}
			}
			go func(g int) {
				defer wg.Done()
				for k := g; k < len(reqs); k += 3 {
					conn.Deliver(reqs[k].Subj, reqs[k].Inbox, pls[k])
				}
			}(g)
		}
		wg.Wait()
		deadline := time.Now().Add(5 * time.Second)
		for _, r := range reqs {
			for !isDone(r.Inbox) && time.Now().Before(deadline) {
				time.Sleep(200 * time.Microsecond)
			}
		}
		// hot phase (judged): several hundred requests queue up behind one slow request of the same
		// resource (life 1) or of the same worker group spread over many resources (life 2)
		var hot []loadReq
		if life <= 2 {
			name := func(k int) string {
				if life == 1 {
					return "call.test.hot.1.m"
				}
				return fmt.Sprintf("call.test.hotg.%d.m", k%7)
			}
			first := loadReq{Life: life, Subj: name(0), Inbox: fmt.Sprintf("inbox.l%d.hot0", life), Kind: "answer"}
			hot = append(hot, first)
			conn.Deliver(first.Subj, first.Inbox, []byte(`{"params":"slow"}`))
			n := 200 + rng.Intn(200)
			for k := 1; k <= n; k++ {
				h := loadReq{Life: life, Subj: name(k), Inbox: fmt.Sprintf("inbox.l%d.hot%d", life, k), Kind: "answer"}
				hot = append(hot, h)
				conn.Deliver(h.Subj, h.Inbox, nil)
			}
			deadline := time.Now().Add(8 * time.Second)
			for _, r := range hot {
				for !isDone(r.Inbox) && time.Now().Before(deadline) {
					time.Sleep(200 * time.Microsecond)
				}
			}
		}
		// burst phase: keep every worker busy, queue more work behind them, stop the service
		var burst []loadReq
		if life < lives {
			conn.Deliver("call.test.slow.m", fmt.Sprintf("inbox.l%d.slow", life), nil)
			for w := 0; w < workers; w++ {
				conn.Deliver(fmt.Sprintf("call.test.slow2.%d.m", w), fmt.Sprintf("inbox.l%d.slow2%d", life, w), nil)
			}
			for k := 0; k < 10; k++ {
				b := mk(life, 100+k, true)
				burst = append(burst, b)
				conn.Deliver(b.Subj, b.Inbox, nil)
			}
			if rng.Intn(2) == 0 {
				time.Sleep(time.Duration(rng.Intn(3)) * time.Millisecond)
			}
		}
		sderr := make(chan error, 1)
		go func() { sderr <- s.Shutdown() }()
		select {
		case <-sderr:
		case <-time.After(10 * time.Second):
			fatal(fmt.Sprintf("Shutdown did not return in life %d", life))
		}
		select {
		case <-sdone:
		case <-time.After(5 * time.Second):
			fatal(fmt.Sprintf("Serve did not return in life %d", life))
		}
		for _, r := range append(append(reqs, hot...), burst...) {
			r.N = len(conn.PubsOn(r.Inbox))
			r.Done = isDone(r.Inbox)
			all = append(all, r)
		}
	}
	f, err := os.OpenFile(outFile, os.O_CREATE|os.O_WRONLY|os.O_APPEND, 0o644)
	if err != nil {
		os.Exit(3)
	}
	for _, r := range all {
		b, _ := json.Marshal(r)
		f.Write(append(b, '\n'))
	}
	f.Write([]byte("{\"end\":true}\n"))
	f.Close()
}

// runLoad executes n load scenarios in child processes and has TLC judge every request record.
func runLoad(c *core.Ctx, n int) {
	tmp, _ := os.MkdirTemp("", "vload-")
	defer os.RemoveAll(tmp)
	type result struct {
		seed int64
		out  string
		log  string
	}
	results := make([]result, n)
	var wg sync.WaitGroup
	sem := make(chan struct{}, 8)
	for i := 0; i < n; i++ {
		wg.Add(1)
		go func(i int) {
			defer wg.Done()
			sem <- struct{}{}
			defer func() { <-sem }()
			seed := c.Seed*1000 + int64(i)
			of := filepath.Join(tmp, fmt.Sprintf("load-%d.ndjson", i))
			cmd := exec.Command(filepath.Join(core.VerifDir, "bin", "engine"), "__reqload", fmt.Sprint(seed), of)
			var errb bytes.Buffer
			cmd.Stdout = &errb
			cmd.Stderr = &errb
			done := make(chan error, 1)
			cmd.Start()
			go func() { done <- cmd.Wait() }()
			select {
			case <-done:
			case <-time.After(90 * time.Second):
				cmd.Process.Kill()
				<-done
			}
			b, _ := os.ReadFile(of)
			results[i] = result{seed, string(b), errb.String()}
		}(i)
	}
	wg.Wait()
	var recs []interface{}
	runs := 0
	for _, r := range results {
		ended := false
		var rs []interface{}
		for _, line := range strings.Split(r.out, "\n") {
			var m map[string]interface{}
			if line == "" || json.Unmarshal([]byte(line), &m) != nil {
				continue
			}
			if e, ok := m["error"]; ok {
				c.Violate(core.Violation{Signature: map[string]string{"engine": "reqsim", "kind": "C04:load:stuck"},
					Text: fmt.Sprintf("load scenario seed %d: %v", r.seed, e), Replay: map[string]interface{}{"load_seed": r.seed}})
				ended = true
				continue
			}
			if m["end"] == true {
				ended = true
				continue
			}
			m["seed"] = r.seed
			rs = append(rs, m)
		}
		if !ended {
			crash := ""
			for _, l := range strings.Split(r.log, "\n") {
				if strings.HasPrefix(l, "panic:") || strings.HasPrefix(l, "fatal error:") {
					crash += l + " "
				}
			}
			if crash != "" {
				c.Violate(core.Violation{Signature: map[string]string{"engine": "reqsim", "kind": "C04:load:process-crash"},
					Text: fmt.Sprintf("load scenario seed %d took the process down: %s", r.seed, crash), Replay: map[string]interface{}{"load_seed": r.seed}})
			} else {
				c.Inconclusive(fmt.Sprintf("load scenario seed %d did not finish: %.300s", r.seed, r.log))
			}
			continue
		}
		runs++
		recs = append(recs, rs...)
	}
	core.CheckRecords(c, "TraceLoad", "TraceLoad.cfg", recs, nil, func(i int, r interface{}, inv string) {
		m := r.(map[string]interface{})
		kind := "C04:load:" + fmt.Sprint(m["kind"])
		if m["done"] == false {
			kind += ":unprocessed"
		}
		c.Violate(core.Violation{Signature: map[string]string{"engine": "reqsim", "kind": kind},
			Text: fmt.Sprintf("load scenario seed %v life %v: request %v (%v) got %v response(s), processed=%v", m["seed"], m["life"], m["subj"], m["kind"], m["n"], m["done"]), Replay: m})
	})
	c.Cover("load_scenarios", runs)
	c.Cover("load_requests", len(recs))
	c.Cover("load_rule", "one Service value through 3 Serve/Shutdown lives, 1-3 workers, 60 concurrent requests per life over 12 resources x 9 request shapes x 6 handler behaviours judged exactly-one; a burst queued behind busy workers right before each Shutdown judged at-most-one (TraceLoad.RecordOK)")
}

// runRetained (C08): a Resource value obtained once is used to send events in several lives of the service;
// in every life the event is applied, published on that life's connection and handed to the listeners.
// runNestedListenerEvents: a listener reacts to an event by sending another event through ev.Resource (keeping
// a derived value in sync, say). Every listener is handed every event as it was sent: name and payload.
func runNestedListenerEvents(c *core.Ctx) {
	var recs []interface{}
	for variant := 0; variant < 2; variant++ {
		s := res.NewService("test")
		s.SetLogger(nil)
		var mu sync.Mutex
		var seq []string
		note := func(x string) { mu.Lock(); seq = append(seq, x); mu.Unlock() }
		s.Handle("nl.$id", res.GetModel(func(r res.ModelRequest) { r.Model(map[string]int{"a": 1}) }),
			res.Call("go", func(r res.CallRequest) { r.Event("custom", map[string]int{"n": 1}); r.OK(nil) }))
		payload := func(ev *res.Event) string {
			b, _ := json.Marshal(ev.Payload)
			return ev.Name + string(b)
		}
		s.AddListener("nl.$id", func(ev *res.Event) {
			note("A:" + payload(ev))
			if ev.Name == "custom" {
				ev.Resource.Event("followup", map[string]int{"n": 2})
			}
		})
		s.AddListener("nl.$id", func(ev *res.Event) { note("B:" + payload(ev)) })
		conn := rconn.New(nil)
		conn.OnPub = func(m rconn.Msg) {
			if strings.HasPrefix(m.Subject, "event.test.nl.1.") {
				note("pub:" + strings.TrimPrefix(m.Subject, "event.test.nl.1."))
			}
		}
		served := make(chan struct{})
		s.SetOnServe(func(*res.Service) { close(served) })
		done := make(chan error, 1)
		go func() { done <- s.Serve(conn) }()
		select {
		case <-served:
		case <-time.After(3 * time.Second):
			c.Inconclusive("nested-listener scenario: service did not start")
			return
		}
		ran := make(chan struct{})
		if variant == 0 {
			s.With("test.nl.1", func(r res.Resource) { r.Event("custom", map[string]int{"n": 1}); close(ran) })
		} else {
			conn.Deliver("call.test.nl.1.go", "inbox.nl", nil)
			go func() {
				for t := 0; t < 2000 && len(conn.PubsOn("inbox.nl")) == 0; t++ {
					time.Sleep(time.Millisecond)
				}
				close(ran)
			}()
		}
		select {
		case <-ran:
		case <-time.After(3 * time.Second):
		}
		time.Sleep(2 * time.Millisecond)
		mu.Lock()
		got := append([]string{}, seq...)
		mu.Unlock()
		recs = append(recs, map[string]interface{}{"kind": "nested", "life": 1, "seq": got, "n": 0, "done": true,
			"subj": []string{"With callback", "call handler"}[variant] + ": custom event, the first of two listeners answers it with a follow-up event", "seed": 0})
		s.Shutdown()
		select {
		case <-done:
		case <-time.After(3 * time.Second):
		}
	}
	core.CheckRecords(c, "TraceLoad", "TraceLoad.cfg", recs, nil, func(i int, r interface{}, inv string) {
		m := r.(map[string]interface{})
		c.Violate(core.Violation{Signature: map[string]string{"engine": "reqsim", "kind": "C08:nested-listener-event"},
			Text: fmt.Sprintf("%v: effects %v", m["subj"], m["seq"]), Replay: m})
	})
	c.Cover("nested_listener_events", len(recs))
}

// runQueryCallbackEvents: events sent on the QueryRequest a query callback is given (it is a Resource like
// any other): applied, published, handed to the listeners - in that order.
func runQueryCallbackEvents(c *core.Ctx) {
	var recs []interface{}
	for variant := 0; variant < 3; variant++ {
		s := res.NewService("test")
		s.SetLogger(nil)
		s.SetQueryEventDuration(200 * time.Millisecond)
		var mu sync.Mutex
		var seq []string
		note := func(x string) { mu.Lock(); seq = append(seq, x); mu.Unlock() }
		s.Handle("qc.$id",
			res.GetModel(func(r res.ModelRequest) { r.Model(map[string]int{"a": 1}) }),
			res.ApplyCreate(func(r res.Resource, data interface{}) error { note("apply"); return nil }),
			res.ApplyDelete(func(r res.Resource) (interface{}, error) { note("apply"); return map[string]int{"a": 1}, nil }))
		s.AddListener("qc.$id", func(ev *res.Event) { note("listen") })
		conn := rconn.New(nil)
		conn.OnPub = func(m rconn.Msg) {
			if strings.HasPrefix(m.Subject, "event.test.qc.1.") && !strings.HasSuffix(m.Subject, ".query") {
				note("pub")
			}
		}
		served := make(chan struct{})
		s.SetOnServe(func(*res.Service) { close(served) })
		done := make(chan error, 1)
		go func() { done <- s.Serve(conn) }()
		select {
		case <-served:
		case <-time.After(3 * time.Second):
			c.Inconclusive("query-callback scenario: service did not start")
			return
		}
		ran := make(chan struct{}, 4)
		started := make(chan struct{})
		s.With("test.qc.1", func(r res.Resource) {
			r.QueryEvent(func(qr res.QueryRequest) {
				if qr == nil {
					return
				}
				core.Catch(func() {
					switch variant {
					case 0:
						note("apply") // a custom event has no apply handler: keep the expected shape
						qr.Event("custom", map[string]int{"v": 1})
					case 1:
						qr.DeleteEvent()
					default:
						qr.CreateEvent(map[string]int{"a": 2})
					}
				})
				ran <- struct{}{}
			})
			close(started)
		})
		<-started
		subj := ""
		for _, m := range conn.PubsOn("event.test.qc.1.query") {
			var p struct {
				Subject string `json:"subject"`
			}
			json.Unmarshal(m.Data, &p)
			subj = p.Subject
		}
		conn.Deliver(subj, "inbox.qc", []byte(`{"query":"x=1"}`))
		select {
		case <-ran:
		case <-time.After(3 * time.Second):
		}
		time.Sleep(2 * time.Millisecond)
		mu.Lock()
		got := append([]string{}, seq...)
		mu.Unlock()
		recs = append(recs, map[string]interface{}{"kind": "querycb", "life": 1, "seq": got, "n": 0, "done": true,
			"subj": []string{"custom event", "delete event", "create event"}[variant] + " sent on the QueryRequest inside a query callback", "seed": 0})
		s.Shutdown()
		select {
		case <-done:
		case <-time.After(3 * time.Second):
		}
	}
	core.CheckRecords(c, "TraceLoad", "TraceLoad.cfg", recs, nil, func(i int, r interface{}, inv string) {
		m := r.(map[string]interface{})
		c.Violate(core.Violation{Signature: map[string]string{"engine": "reqsim", "kind": "C08:query-callback-event"},
			Text: fmt.Sprintf("%v: effects %v, expected apply, pub, listen", m["subj"], m["seq"]), Replay: m})
	})
	c.Cover("query_callback_events", len(recs))
}

func runRetained(c *core.Ctx) {
	var recs []interface{}
	for variant := 0; variant < 4; variant++ {
		s := res.NewService("test")
		s.SetLogger(nil)
		var mu sync.Mutex
		var seq []string
		note := func(x string) { mu.Lock(); seq = append(seq, x); mu.Unlock() }
		s.Handle("keep.$id",
			res.GetModel(func(r res.ModelRequest) { r.Model(map[string]int{"a": 1}) }),
			res.ApplyChange(func(r res.Resource, ch map[string]interface{}) (map[string]interface{}, error) {
				note("apply")
				return map[string]interface{}{"a": 0}, nil
			}),
			res.Call("touch", func(r res.CallRequest) { r.OK(nil) }))
		s.AddListener("keep.$id", func(ev *res.Event) { note("listen") })
		var kept res.Resource
		for life := 1; life <= 3; life++ {
			conn := rconn.New(nil)
			conn.OnPub = func(m rconn.Msg) {
				if strings.HasPrefix(m.Subject, "event.test.keep.") {
					note("pub")
				}
			}
			served := make(chan struct{})
			s.SetOnServe(func(*res.Service) { close(served) })
			done := make(chan error, 1)
			go func() { done <- s.Serve(conn) }()
			select {
			case <-served:
			case <-time.After(3 * time.Second):
				c.Inconclusive("retained-resource scenario: service did not start in life %d", life)
				return
			}
			if kept == nil {
				switch variant {
				case 0, 1:
					kept, _ = s.Resource("test.keep.1")
				default:
					got := make(chan res.Resource, 1)
					s.With("test.keep.1", func(r res.Resource) { got <- r })
					kept = <-got
				}
			}
			mu.Lock()
			seq = nil
			mu.Unlock()
			ran := make(chan struct{})
			r := kept
			s.WithResource(r, func() {
				defer close(ran)
				core.Catch(func() {
					if variant%2 == 0 {
						r.ChangeEvent(map[string]interface{}{"a": life})
					} else {
						r.Event("custom", map[string]int{"life": life})
						note("apply") // a custom event has no apply handler: keep the expected shape
					}
				})
			})
			select {
			case <-ran:
			case <-time.After(3 * time.Second):
			}
			mu.Lock()
			got := append([]string{}, seq...)
			mu.Unlock()
			if variant%2 == 1 {
				// custom event: order is pub, listen; the synthetic "apply" note came last
				if len(got) == 3 && got[2] == "apply" {
					got = []string{"apply", got[0], got[1]}
				}
			}
			recs = append(recs, map[string]interface{}{"kind": "retained", "life": life, "seq": got, "n": 0, "done": true,
				"subj": fmt.Sprintf("variant %d", variant), "seed": 0})
			s.Shutdown()
			select {
			case <-done:
			case <-time.After(3 * time.Second):
			}
		}
	}
	core.CheckRecords(c, "TraceLoad", "TraceLoad.cfg", recs, nil, func(i int, r interface{}, inv string) {
		m := r.(map[string]interface{})
		c.Violate(core.Violation{Signature: map[string]string{"engine": "reqsim", "kind": "C08:retained-resource"},
			Text: fmt.Sprintf("event sent in life %v of the service through a Resource value obtained in its first life (%v): effects %v, expected apply, pub, listen", m["life"], m["subj"], m["seq"]), Replay: m})
	})
	c.Cover("retained_resource_events", len(recs))
}

// Package reqsim is the engine behind C04, C05, C07 and C08: request scenarios
// (request type, handler configuration, payload, handler behaviour script) are
// executed on a real service over the recording connection; everything that is
// published is parsed by an independent protocol parser and, together with the
// apply/publish/listener log and the data the handler saw, judged by TLC
// against the reference outcome Run(sc) of ResRequest.tla.
package reqsim

import (
	"bytes"
	"encoding/json"
	"errors"
	"fmt"
	"math"
	"math/rand"
	"os"
	"os/exec"
	"path/filepath"
	"regexp"
	"sort"
	"strings"
	"sync"
	"time"

	res "github.com/jirenius/go-res"
	"github.com/jirenius/go-res/logger"

	"verif/internal/core"
	"verif/internal/rconn"
)

type rec = map[string]interface{}

// Scenario mirrors the record sc of ResRequest.tla.
type Scenario struct {
	Rtype     string            `json:"rtype"`
	Method    string            `json:"method"`
	Matched   bool              `json:"matched"`
	Payload   string            `json:"payload"`
	HTTP      bool              `json:"http"`
	HasAccess bool              `json:"hasAccess"`
	HasGet    bool              `json:"hasGet"`
	HasNew    bool              `json:"hasNew"`
	Calls     []string          `json:"calls"`
	Auths     []string          `json:"auths"`
	Rt        string            `json:"rt"`
	Ap        map[string]string `json:"ap"`
	Nl        int               `json:"nl"`
	Lpanic    int               `json:"lpanic"` // index of the listener that panics (0: none)
	Script    []string          `json:"script"`
	PubFail   bool              `json:"pubfail"` // the connection refuses to publish resource events
	Pollute   bool              `json:"pollute"` // a request with a mistyped payload is processed first
	Name      int               `json:"name"`    // which resource name variant
	Shared    bool              `json:"shared"`  // registered with AddHandler; the Call map is shared with a sibling handler that has a New handler
	Owned     bool              `json:"owned"`   // explicit ownership lists in which a later, broader entry covers several earlier ones; no queue group
	Wide      bool              `json:"wide"`    // the service owns ">" and is sent names of other services that merely start with its name
}

var apEvents = []string{"change", "add", "remove", "create", "delete"}

type runner struct {
	mu      sync.Mutex
	log     [][]interface{}
	step    int
	inv     string
	seen    map[string]string
	rname   string
	loggedE map[string]bool
}

var nameVariants = []struct {
	pattern, name, id, ptype string
	mount                    bool // a sub-mux is mounted at "users": the name enters it, matches nothing and falls back
	submux                   bool // the pattern is registered on a sub-mux mounted at "mm"; listeners are added on the sub-mux after a first lookup
}{
	{"res", "test.res", "", "", false, false},
	{"item.$id", "test.item.42", "42", "", false, false},
	{"item.$id", "test.item.get", "get", "", false, false},
	{"deep.$id.sub", "test.deep.call.sub", "call", "", false, false},
	{"item.$id", "test.item.new", "new", "", false, false},
	{"$type.$id.info", "test.users.5.info", "5", "users", true, false},
	{"$type.>", "test.users.7.more", "", "users", true, false},
	{"item.$id", "test.mm.item.42", "42", "", false, true},
	// resource names with more parts than any buffer the lookup may have sized for the common case
	{"$type.>", "test.t." + longTail(40), "", "t", false, false},
	{"$type.>", "test.users." + longTail(33), "", "users", true, false},
}

var malformedPool = []string{`{"cid":"c1","params":`, `{"cid":"c1","params":`, `{"cid":"c1"}}`, `{"cid":"c1"} x`, `{}]`, `null x`, `{"cid":"c1"}{"cid":"c2"}`,
	`[1]`, `"str"`, `12`, `{"cid":1}`, `{"params":}`, `{"cid":"c1",}`, `nul`, "\xff\xfe{}", `{"token":{"a":1}} {`}

func longTail(n int) string {
	parts := make([]string, n)
	for i := range parts {
		parts[i] = fmt.Sprintf("p%d", i)
	}
	return strings.Join(parts, ".")
}

var strPool = []string{"plain", `q"uote`, "uni-é-☃", "sp ace", `back\slash`, "<>&", ""}
var rawPool = []string{`{"a":1}`, `[1,"two",{"x":null}]`, `"str\"q"`, `12.50`, `{"nested":{"k":[true,false]}}`}

func (sc *Scenario) kind() string {
	if sc.Rtype == "call" && sc.Method == "new" {
		return "new"
	}
	return sc.Rtype
}

// execute runs one scenario on a fresh service and returns its record.
func execute(sc Scenario, rng *rand.Rand) (rec, error) {
	rn := &runner{seen: map[string]string{}, loggedE: map[string]bool{"$foo": true, "x-y_z~": true, "": true, "a b": true, "a*": true, "a>": true, "a?b": true, "a\x7f": true, "a.b": true, "custom": true, "change": true, "add": true, "remove": true, "create": true, "delete": true}}
	nv := nameVariants[sc.Name%len(nameVariants)]
	rn.rname = nv.name
	s := res.NewService("test")
	s.SetLogger(nil)
	stepPad = ""
	reservedName = reservedNames[(sc.Name+len(sc.Script)+sc.Nl)%len(reservedNames)]
	errVariant = (sc.Name+2*len(sc.Script))%3 == 1
	if (sc.Name+len(sc.Script))%4 == 3 {
		// one of the bundled loggers with everything switched on, and payloads of a few kilobytes
		s.SetLogger(logger.NewMemLogger().SetTrace(true))
		stepPad = strings.Repeat("0123456789abcdef", 130)
	}
	s.SetWorkerCount(1)
	var opts []res.Option
	switch sc.Rt {
	case "model":
		opts = append(opts, res.Model)
	case "collection":
		opts = append(opts, res.Collection)
	}
	handler := func(kind string) func(r *res.Request) {
		return func(r *res.Request) {
			rn.mu.Lock()
			rn.inv = kind
			rn.seen = map[string]string{
				"rname": r.ResourceName(), "id": r.PathParam("id"), "ptype": r.PathParam("type"), "group": r.Group(), "query": r.Query(), "cid": r.CID(),
				"params": string(r.RawParams()), "token": string(r.RawToken()), "host": r.Host(), "remoteAddr": r.RemoteAddr(),
				"uri": r.URI(), "http": fmt.Sprint(r.IsHTTP()), "method": r.Method(), "header": hdrString(r.Header()), "type": r.Type(),
			}
			rn.mu.Unlock()
			for i, st := range sc.Script {
				rn.mu.Lock()
				rn.step = i + 1
				rn.mu.Unlock()
				doStep(r, st)
			}
		}
	}
	if sc.HasAccess {
		opts = append(opts, res.Access(func(r res.AccessRequest) { handler("access")(r.(*res.Request)) }))
	}
	if sc.HasGet {
		opts = append(opts, res.GetResource(func(r res.GetRequest) {
			if r.ForValue() {
				r.Model(map[string]int{"v": 1})
				return
			}
			handler("get")(r.(*res.Request))
		}))
	}
	for _, m := range sc.Calls {
		k := "call"
		if m == "*" {
			k = "call*"
		}
		kk := k
		opts = append(opts, res.Call(m, func(r res.CallRequest) { handler(kk)(r.(*res.Request)) }))
	}
	if sc.HasNew {
		opts = append(opts, res.New(func(r res.NewRequest) { handler("new")(r.(*res.Request)) }))
	}
	// an optional handler that is not set: a nil entry for the requested method, next to the * handler
	hasM := func(l []string, m string) bool {
		for _, x := range l {
			if x == m {
				return true
			}
		}
		return false
	}
	if sc.Method != "" && sc.Method != "*" && !(sc.Method == "new" && sc.HasNew) && len(sc.Script)%2 == 0 {
		if sc.Rtype == "call" && hasM(sc.Calls, "*") && !hasM(sc.Calls, sc.Method) {
			opts = append(opts, res.Call(sc.Method, nil))
		}
		if sc.Rtype == "auth" && hasM(sc.Auths, "*") && !hasM(sc.Auths, sc.Method) {
			opts = append(opts, res.Auth(sc.Method, nil))
		}
	}
	for _, m := range sc.Auths {
		k := "auth"
		if m == "*" {
			k = "auth*"
		}
		kk := k
		opts = append(opts, res.Auth(m, func(r res.AuthRequest) { handler(kk)(r.(*res.Request)) }))
	}
	// in every other scenario a failing apply handler does not return an error but panics - with nil
	failNil := (len(sc.Script)+sc.Nl+sc.Name)%2 == 1
	applyLog := func(ev string) string {
		rn.mu.Lock()
		defer rn.mu.Unlock()
		rn.log = append(rn.log, []interface{}{"apply", ev, rn.step})
		if sc.Ap[ev] == "fail" && failNil {
			var v interface{}
			panic(v)
		}
		return sc.Ap[ev]
	}
	if sc.Ap["change"] != "absent" {
		opts = append(opts, res.ApplyChange(func(r res.Resource, c map[string]interface{}) (map[string]interface{}, error) {
			switch applyLog("change") {
			case "fail":
				return nil, errors.New("apply failed")
			case "noop":
				return map[string]interface{}{}, nil
			}
			return map[string]interface{}{"a": 1}, nil
		}))
	}
	if sc.Ap["add"] != "absent" {
		opts = append(opts, res.ApplyAdd(func(r res.Resource, v interface{}, idx int) error {
			if applyLog("add") == "fail" {
				return errors.New("apply failed")
			}
			return nil
		}))
	}
	if sc.Ap["remove"] != "absent" {
		opts = append(opts, res.ApplyRemove(func(r res.Resource, idx int) (interface{}, error) {
			if applyLog("remove") == "fail" {
				return nil, errors.New("apply failed")
			}
			return "removed", nil
		}))
	}
	if sc.Ap["create"] != "absent" {
		opts = append(opts, res.ApplyCreate(func(r res.Resource, d interface{}) error {
			if applyLog("create") == "fail" {
				return errors.New("apply failed")
			}
			return nil
		}))
	}
	if sc.Ap["delete"] != "absent" {
		opts = append(opts, res.ApplyDelete(func(r res.Resource) (interface{}, error) {
			if applyLog("delete") == "fail" {
				return nil, errors.New("apply failed")
			}
			return map[string]int{"old": 1}, nil
		}))
	}
	if sc.Wide {
		s.SetOwnedResources([]string{">"}, []string{">"})
	} else if sc.Owned {
		own := []string{"test.first", nv.name, "test.probe", "test.>"}
		s.SetOwnedResources(own, own)
		s.SetQueueGroup("")
	}
	if nv.mount {
		s.Route("users", func(m *res.Mux) {
			m.Handle("$id.details", res.Call("m", func(r res.CallRequest) { r.OK(nil) }))
		})
	}
	var submux *res.Mux
	var lateReg func() // the last registration of all, made on the mounted mux after a lookup through the service
	viaHandler := 0    // listeners registered through Handler.Listeners
	listener := func(jj int) func(ev *res.Event) {
		return func(ev *res.Event) {
			rn.mu.Lock()
			rn.log = append(rn.log, []interface{}{"listen", ev.Name, rn.step, jj})
			rn.mu.Unlock()
			if jj == sc.Lpanic {
				panic("listener panic")
			}
		}
	}
	if nv.submux {
		submux = res.NewMux("")
		if pv := core.Catch(func() {
			if len(sc.Script)%2 == 0 {
				submux.Handle(nv.pattern, opts...)
				s.Mount("mm", submux)
				return
			}
			// the mux is mounted with a less specific pattern only (no access handler, another call handler);
			// the resource is looked up through the service; then the pattern of this scenario is registered
			// on the mounted mux itself: from now on it is the most specific match
			stale := func(r res.CallRequest) {
				rn.mu.Lock()
				rn.inv = "stale-generic"
				rn.mu.Unlock()
				r.OK(nil)
			}
			submux.Handle("$kind.$id", res.Call("*", stale), res.GetResource(func(r res.GetRequest) {
				rn.mu.Lock()
				rn.inv = "stale-generic"
				rn.mu.Unlock()
				r.NotFound()
			}), res.Auth("*", func(r res.AuthRequest) {
				rn.mu.Lock()
				rn.inv = "stale-generic"
				rn.mu.Unlock()
				r.OK(nil)
			}))
			s.Mount("mm", submux)
			lateReg = func() {
				s.GetHandler(nv.name)
				s.Resource(nv.name)
				s.With(nv.name, func(res.Resource) {})
				lopts := opts
				if sc.Nl >= 1 {
					// the first listener is declared by the handler itself (Handler.Listeners)
					viaHandler = 1
					lopts = append(append([]res.Option{}, opts...), res.OptionFunc(func(hs *res.Handler) {
						hs.Listeners = map[string]func(*res.Event){nv.pattern: listener(1)}
					}))
				}
				submux.Handle(nv.pattern, lopts...)
			}
		}); pv != nil {
			return nil, fmt.Errorf("registration panicked: %v", pv)
		}
	} else if sc.Shared {
		// Handler values built by the caller: two of them share one Call map; only the sibling has a New handler
		var h res.Handler
		for _, o := range opts {
			o.SetOption(&h)
		}
		if h.Call == nil {
			h.Call = map[string]res.CallHandler{}
		}
		foreign := func(r res.NewRequest) {
			rn.mu.Lock()
			rn.inv = "foreign-new"
			rn.mu.Unlock()
			r.New("test.sibling.made")
		}
		sib := res.Handler{Call: h.Call, New: foreign, Get: func(r res.GetRequest) { r.NotFound() }}
		if pv := core.Catch(func() {
			if sc.Nl%2 == 0 {
				s.AddHandler("sibling.$id", sib)
				s.AddHandler(nv.pattern, h)
			} else {
				s.AddHandler(nv.pattern, h)
				s.AddHandler("sibling.$id", sib)
			}
		}); pv != nil {
			return nil, fmt.Errorf("registration panicked: %v", pv)
		}
	} else if pv := core.Catch(func() { s.Handle(nv.pattern, opts...) }); pv != nil {
		return nil, fmt.Errorf("registration panicked: %v", pv)
	}
	s.Handle("probe", res.GetModel(func(r res.ModelRequest) { r.Model(map[string]int{"ok": 1}) }), res.Access(res.AccessGranted),
		res.Call("m", func(r res.CallRequest) { r.OK(nil) }), res.Auth("m", func(r res.AuthRequest) { r.OK(nil) }))
	if lateReg != nil {
		if pv := core.Catch(lateReg); pv != nil {
			return nil, fmt.Errorf("registration panicked: %v", pv)
		}
	}
	addListener := s.AddListener
	if submux != nil {
		// a first lookup through the service - after everything else is registered - before the
		// listeners are added on the mounted mux itself
		s.GetHandler(nv.name)
		s.Resource(nv.name)
		addListener = submux.AddListener
	}
	for j := 1 + viaHandler; j <= sc.Nl; j++ {
		addListener(nv.pattern, listener(j))
	}
	conn := rconn.New(nil)
	if sc.PubFail {
		conn.FailPub = func(subj string) error {
			if strings.HasPrefix(subj, "event.") {
				return errors.New("publish refused")
			}
			return nil
		}
	}
	conn.OnPub = func(m rconn.Msg) {
		if strings.HasPrefix(m.Subject, "event."+rn.rname+".") {
			ev := strings.TrimPrefix(m.Subject, "event."+rn.rname+".")
			if rn.loggedE[ev] {
				rn.mu.Lock()
				rn.log = append(rn.log, []interface{}{"pub", ev, rn.step})
				rn.mu.Unlock()
			}
		}
	}
	doneCh := make(chan string, 8)
	res.VerifHook = func(p string, a ...interface{}) {
		if p == "rq.done" && len(a) > 1 {
			select {
			case doneCh <- fmt.Sprint(a[1]):
			default:
			}
		}
	}
	defer func() { res.VerifHook = nil }()
	served := make(chan struct{})
	s.SetOnServe(func(*res.Service) { close(served) })
	sdone := make(chan error, 1)
	go func() { sdone <- s.Serve(conn) }()
	select {
	case <-served:
	case <-time.After(3 * time.Second):
		return nil, errors.New("service did not start")
	}
	defer func() {
		s.Shutdown()
		select {
		case <-sdone:
		case <-time.After(3 * time.Second):
		}
	}()
	if sc.Pollute {
		// previous requests must leave no trace in the request that follows: one whose payload is JSON
		// but has a mistyped member (answered with an internal error), and valid ones with every field set
		polluters := []string{
			`{"token":{"role":"admin"},"params":["stale"],"query":"stale=1","isHttp":true,"header":{"Stale":["1"]},"host":"stale.host","remoteAddr":"6.6.6.6","uri":"/stale","cid":42}`,
			`{"token":{"role":"admin"},"params":["stale"],"query":"stale=1","isHttp":true,"header":{"Stale":["1"]},"host":"stale.host","remoteAddr":"6.6.6.6","uri":"/stale","cid":"stalecid"}`,
		}
		for k := 0; k < 4; k++ {
			subj := []string{"call.test.probe.m", "auth.test.probe.m", "access.test.probe", "get.test.probe"}[k]
			conn.Deliver(subj, fmt.Sprintf("inbox.pollute%d", k), []byte(polluters[(k+1)%2])) // (the last one is the mistyped one)
			select {
			case <-doneCh:
			case <-time.After(2 * time.Second):
			}
		}
	}
	before := len(conn.Pubs())
	// build the request
	name := nv.name
	if !sc.Matched {
		name = "test.nothing.here"
		if nv.pattern != "$type.>" && sc.Name%2 == 1 && len(sc.Script)%2 == 1 {
			name = "test.nothing." + longTail(34) // long, and no handler matches
		}
		if nv.pattern == "$type.>" {
			name = "test.solo" // the only kind of name that pattern does not match
		}
		if sc.Wide {
			// a foreign resource whose first token starts with the service name; the rest would match the pattern
			name = "test" + []string{"-", "_", "2", "s"}[rng.Intn(4)] + nv.name[5:]
		}
	}
	subj := sc.Rtype + "." + name
	if sc.Rtype == "call" || sc.Rtype == "auth" {
		subj += "." + sc.Method
	}
	group := name
	if !sc.Matched {
		group = ""
	}
	sent := map[string]string{"rname": name, "id": nv.id, "ptype": nv.ptype, "group": group, "query": "", "cid": "", "params": "", "token": "", "host": "", "remoteAddr": "", "uri": "", "http": "false", "method": sc.Method, "header": "", "type": sc.Rtype}
	var data []byte
	switch sc.Payload {
	case "valid":
		p := map[string]interface{}{}
		sent["cid"] = "cid" + fmt.Sprint(rng.Intn(100))
		p["cid"] = sent["cid"]
		if rng.Intn(2) == 0 {
			sent["query"] = "q=" + strPool[rng.Intn(3)] + "&x=1"
			p["query"] = sent["query"]
		}
		if rng.Intn(3) != 0 {
			sent["params"] = rawPool[rng.Intn(len(rawPool))]
			p["params"] = json.RawMessage(sent["params"])
		}
		if rng.Intn(3) != 0 {
			sent["token"] = rawPool[rng.Intn(len(rawPool))]
			p["token"] = json.RawMessage(sent["token"])
		}
		if rng.Intn(2) == 0 {
			h := map[string][]string{"X-A": {strPool[rng.Intn(len(strPool))], "b"}, "Y": {strPool[rng.Intn(len(strPool))]}}
			p["header"] = h
			sent["header"] = hdrString(h)
			sent["host"] = "host-" + strPool[rng.Intn(len(strPool))]
			p["host"] = sent["host"]
			sent["remoteAddr"] = "1.2.3.4:5"
			p["remoteAddr"] = sent["remoteAddr"]
			sent["uri"] = "/ws?" + strPool[rng.Intn(len(strPool))]
			p["uri"] = sent["uri"]
		}
		if sc.HTTP {
			p["isHttp"] = true
			sent["http"] = "true"
		}
		data, _ = json.Marshal(p)
	case "malformed":
		// texts that are not a JSON document of the request's shape: cut short, a complete value followed
		// by more, a value of another type, a field of the wrong type
		data = []byte(malformedPool[rng.Intn(len(malformedPool))])
	default:
		if sc.HTTP {
			// the http flag needs a payload to travel in
			data = []byte(`{"isHttp":true}`)
			sent["http"] = "true"
		}
	}
	inbox := "inbox.req1"
	if n, err := conn.Deliver(subj, inbox, data); err != nil || n != 1 {
		return nil, fmt.Errorf("request %s delivered %d times (%v)", subj, n, err)
	}
	select {
	case <-doneCh:
	case <-time.After(3 * time.Second):
		return nil, fmt.Errorf("request %s was never fully processed", subj)
	}
	pubs := conn.Pubs()[before:]
	// probe: the service must still answer
	probe := false
	conn.Deliver("get.test.probe", "inbox.probe", nil)
	select {
	case <-doneCh:
		probe = len(conn.PubsOn("inbox.probe")) == 1
	case <-time.After(2 * time.Second):
	}
	out := []rec{}
	var malformed []string
	for _, m := range pubs {
		a, bad := abstract(m, inbox, rn.rname, sent["cid"])
		if bad != "" {
			malformed = append(malformed, bad)
		}
		out = append(out, a)
	}
	for _, b := range conn.BadSubjects() {
		malformed = append(malformed, "invalid subject "+b)
	}
	if malformed == nil {
		malformed = []string{}
	}
	rn.mu.Lock()
	defer rn.mu.Unlock()
	inv := rn.inv
	if inv == "" {
		inv = "none"
	}
	seen := rn.seen
	if inv == "none" {
		seen = sent // nothing ran, nothing to compare
	}
	lg := rn.log
	if lg == nil {
		lg = [][]interface{}{}
	}
	return rec{"judge": "all", "sc": sc, "inv": inv, "out": out, "log": lg, "sent": sent, "seen": seen, "probe": probe, "malformed": malformed,
		"dbg": fmt.Sprintf("%s payload=%s http=%v matched=%v script=%v", subj, sc.Payload, sc.HTTP, sc.Matched, sc.Script)}, nil
}

func hdrString(h map[string][]string) string {
	keys := make([]string, 0, len(h))
	for k := range h {
		keys = append(keys, k)
	}
	sort.Strings(keys)
	var b strings.Builder
	for _, k := range keys {
		fmt.Fprintf(&b, "%s=%q;", k, h[k])
	}
	return b.String()
}

// ctlText contains what a hand-written JSON encoder gets wrong: control characters, DEL, quotes,
// a non-printable rune outside the BMP, U+2028
const ctlText = "esc\x1b nul\x00 bel\x07 del\x7f q\" bs\\ tag\U000e0001 ls\u2028 <&>"

var rePre = regexp.MustCompile(`^timeout:"(\d+)"$`)

// abstract is the independent protocol parser: published bytes -> abstract message, plus a
// description of what is malformed about it ("" if nothing).
func abstract(m rconn.Msg, inbox, rname, cid string) (rec, string) {
	msg := rec{"to": "other", "kind": "", "code": "", "meta": false}
	var bad []string
	switch {
	case m.Subject == inbox:
		msg["to"] = "reply"
		if rePre.Match(m.Data) {
			msg["kind"] = "pre"
			break
		}
		var obj map[string]json.RawMessage
		if err := json.Unmarshal(m.Data, &obj); err != nil {
			bad = append(bad, fmt.Sprintf("response is not a JSON object: %s", m.Data))
			msg["kind"] = "malformed"
			break
		}
		n := 0
		for k, v := range obj {
			switch k {
			case "result":
				n++
				msg["kind"] = "result"
			case "resource":
				n++
				msg["kind"] = "resource"
				var r struct {
					RID *string `json:"rid"`
				}
				if json.Unmarshal(v, &r) != nil || r.RID == nil || !res.IsValidRID(*r.RID) {
					bad = append(bad, fmt.Sprintf("resource response without valid rid: %s", m.Data))
				}
			case "error":
				n++
				msg["kind"] = "error"
				var e map[string]json.RawMessage
				var code, message string
				if json.Unmarshal(v, &e) != nil || e == nil || json.Unmarshal(e["code"], &code) != nil || json.Unmarshal(e["message"], &message) != nil || code == "" {
					bad = append(bad, fmt.Sprintf("error without string code and message: %s", m.Data))
				}
				for ek := range e {
					if ek != "code" && ek != "message" && ek != "data" {
						bad = append(bad, "unknown error member "+ek)
					}
				}
				msg["code"] = verbatim(code, message, string(e["data"]))
			case "meta":
				msg["meta"] = true
				var meta map[string]json.RawMessage
				if json.Unmarshal(v, &meta) != nil {
					bad = append(bad, fmt.Sprintf("meta is not an object: %s", m.Data))
				}
				for mk, mv := range meta {
					switch mk {
					case "status":
						var st int
						if json.Unmarshal(mv, &st) != nil {
							bad = append(bad, "meta.status not an integer")
						}
					case "header":
						var h map[string][]string
						if json.Unmarshal(mv, &h) != nil {
							bad = append(bad, "meta.header not a map of string lists")
						}
					default:
						bad = append(bad, "unknown meta member "+mk)
					}
				}
			default:
				bad = append(bad, "unknown response member "+k)
			}
		}
		if n != 1 {
			bad = append(bad, fmt.Sprintf("response with %d of result/resource/error: %s", n, m.Data))
			msg["kind"] = "malformed"
		}
	case strings.HasPrefix(m.Subject, "event."+rname+"."):
		ev := strings.TrimPrefix(m.Subject, "event."+rname+".")
		msg["to"] = "event"
		msg["kind"] = ev
		var obj map[string]json.RawMessage
		switch ev {
		case "change":
			var vals map[string]json.RawMessage
			if json.Unmarshal(m.Data, &obj) != nil || len(obj) != 1 || json.Unmarshal(obj["values"], &vals) != nil || vals == nil {
				bad = append(bad, fmt.Sprintf("change event without values object: %s", m.Data))
			}
		case "add":
			var idx int
			if json.Unmarshal(m.Data, &obj) != nil || len(obj) != 2 || obj["value"] == nil || json.Unmarshal(obj["idx"], &idx) != nil || idx < 0 {
				bad = append(bad, fmt.Sprintf("add event malformed: %s", m.Data))
			}
		case "remove":
			var idx int
			if json.Unmarshal(m.Data, &obj) != nil || len(obj) != 1 || json.Unmarshal(obj["idx"], &idx) != nil || idx < 0 {
				bad = append(bad, fmt.Sprintf("remove event malformed: %s", m.Data))
			}
		case "create", "delete", "reaccess":
			if len(m.Data) != 0 {
				bad = append(bad, fmt.Sprintf("%s event with payload: %s", ev, m.Data))
			}
		case "query":
			var q struct {
				Subject string `json:"subject"`
			}
			if json.Unmarshal(m.Data, &q) != nil || q.Subject == "" {
				bad = append(bad, "query event without subject")
			}
		default:
			if len(m.Data) > 0 && !json.Valid(m.Data) {
				bad = append(bad, fmt.Sprintf("custom event payload is not JSON: %s", m.Data))
			}
		}
	case m.Subject == "system.reset":
		msg["to"] = "reset"
		msg["kind"] = "reset"
		var obj map[string][]string
		if json.Unmarshal(m.Data, &obj) != nil {
			bad = append(bad, fmt.Sprintf("system.reset malformed: %s", m.Data))
		}
		for k := range obj {
			if k != "resources" && k != "access" {
				bad = append(bad, "unknown system.reset member "+k)
			}
		}
	case m.Subject == "system.tokenReset":
		msg["to"] = "tokenreset"
		msg["kind"] = "tokenReset"
		var obj map[string]json.RawMessage
		var tids []string
		var subj string
		if json.Unmarshal(m.Data, &obj) != nil || len(obj) != 2 || string(obj["tids"]) == "null" || json.Unmarshal(obj["tids"], &tids) != nil || len(tids) == 0 ||
			json.Unmarshal(obj["subject"], &subj) != nil || subj == "" {
			bad = append(bad, fmt.Sprintf("system.tokenReset without a non-empty array of token ids and a subject: %s", m.Data))
		}
	case m.Subject == "conn."+cid+".token" && cid != "":
		msg["to"] = "token"
		msg["kind"] = "token"
		var obj map[string]json.RawMessage
		if json.Unmarshal(m.Data, &obj) != nil || obj["token"] == nil {
			bad = append(bad, fmt.Sprintf("token event without token member: %s", m.Data))
		}
		for k := range obj {
			if k != "token" && k != "tid" {
				bad = append(bad, "unknown token event member "+k)
			}
		}
	default:
		bad = append(bad, "message on undocumented subject "+m.Subject)
	}
	if stepPad != "" && len(m.Data) > 1024 && !strings.Contains(string(m.Data), stepPad) {
		// the long value the handler supplied is part of the payload, byte for byte
		bad = append(bad, fmt.Sprintf("payload of %d bytes does not contain the value the handler supplied: ...%s...", len(m.Data), m.Data[1000:1060]))
	}
	return msg, strings.Join(bad, "; ")
}

// values whose encoding fails with an error that is, or wraps, an error of the library's own type
type badReserr struct{}

func (badReserr) MarshalJSON() ([]byte, error) { return nil, res.ErrNotFound }

type badWrapped struct{}

func (badWrapped) MarshalJSON() ([]byte, error) {
	return nil, fmt.Errorf("lazy lookup: %w", &res.Error{Code: "store.unavailable", Message: "Store unavailable"})
}

// a value whose encoder panics (a nil field dereferenced in MarshalJSON)
type panicMarshal struct{ p *int }

func (v panicMarshal) MarshalJSON() ([]byte, error) { return []byte(fmt.Sprint(*v.p)), nil }

// doStep performs one script step on the request.
// errVariant: the error values of the steps error-res and panic-res carry one of the library's own codes
// with its default message, plus data. The protocol parser reports them under the steps' usual codes when
// - and only when - they arrive verbatim.
var errVariant bool

// verbatim maps a parsed error to the code the reference expects for it.
func verbatim(code, message, data string) string {
	switch {
	case code == "custom.error" && !(message == `m"sg` && data == `{"d":1}`) && !(message == ctlText && data == ""):
		return code + "!altered"
	case code == "custom.panic" && (message != "panicked" || data != ""):
		return code + "!altered"
	case errVariant && code == res.CodeInvalidParams && message == "Invalid parameters" && data == `{"d":1}`:
		return "custom.error"
	case errVariant && code == res.CodeNotFound && message == "Not found" && data == `{"p":true}`:
		return "custom.panic"
	}
	return code
}

// reservedName is the reserved event name the step ev-reserved uses in the current scenario.
var reservedName = "change"
var reservedNames = []string{"change", "delete", "add", "remove", "patch", "reaccess", "unsubscribe", "query"}

// stepPad, when set, is added to the values the handler steps send (payloads far above a kilobyte)
var stepPad string

func doStep(r *res.Request, st string) {
	if strings.HasPrefix(st, "try-") {
		// the handler recovers whatever the step panics with and keeps using the request
		func() {
			defer func() { recover() }()
			doStep(r, strings.TrimPrefix(st, "try-"))
		}()
		return
	}
	switch st {
	case "ok":
		r.OK(map[string]interface{}{"a": 1, "s": `q"uo<te` + stepPad})
	case "ok-nil":
		r.OK(nil)
	case "ok-bad":
		r.OK(make(chan int))
	case "ok-panic-marshal":
		r.OK(map[string]interface{}{"v": panicMarshal{}})
	case "model-panic-marshal":
		r.Model(map[string]interface{}{"v": panicMarshal{}})
	case "error-panic-data":
		r.Error(&res.Error{Code: "custom.error", Message: "with data", Data: panicMarshal{}})
	case "ok-bad-reserr":
		r.OK(map[string]interface{}{"ref": badReserr{}})
	case "ok-bad-wrapped":
		r.OK(badWrapped{})
	case "model-bad-reserr":
		r.Model(map[string]interface{}{"ref": badReserr{}})
	case "collection-bad-wrapped":
		r.Collection([]interface{}{1, badWrapped{}})
	case "resource":
		r.Resource("test.other.1?q=1")
	case "resource-bad":
		r.Resource("bad rid*")
	case "error-res":
		if errVariant {
			// an error with a code and the default message the library itself uses - and data of its own
			r.Error(&res.Error{Code: res.CodeInvalidParams, Message: "Invalid parameters", Data: map[string]int{"d": 1}})
			return
		}
		r.Error(&res.Error{Code: "custom.error", Message: `m"sg`, Data: map[string]int{"d": 1}})
	case "error-nilres":
		// Error with a nil pointer of the library's own error type (an unset error variable passed on)
		r.Error((*res.Error)(nil))
	case "error-plain":
		r.Error(errors.New("plain"))
	case "error-res-ctl":
		r.Error(&res.Error{Code: "custom.error", Message: ctlText})
	case "error-plain-ctl":
		r.Error(errors.New(ctlText))
	case "invalidparams-ctl":
		r.InvalidParams(ctlText)
	case "invalidquery-ctl":
		r.InvalidQuery(ctlText)
	case "panic-str-ctl":
		panic(ctlText)
	case "notfound":
		r.NotFound()
	case "methodnotfound":
		r.MethodNotFound()
	case "invalidparams":
		r.InvalidParams("")
	case "invalidparams-msg":
		r.InvalidParams("bad param")
	case "invalidquery":
		r.InvalidQuery("")
	case "access":
		r.Access(true, "foo,bar")
	case "access-none":
		r.Access(false, "")
	case "accessdenied":
		r.AccessDenied()
	case "accessgranted":
		r.AccessGranted()
	case "model":
		r.Model(map[string]interface{}{"a": 1, "ref": res.Ref("test.x"), "d": res.DataValue[[]int]{Data: []int{1}}, "pad": stepPad})
	case "querymodel":
		r.QueryModel(map[string]int{"a": 1}, "q=1")
	case "collection":
		r.Collection([]interface{}{1, "two" + stepPad, nil})
	case "model-bad":
		r.Model(make(chan int))
	case "new":
		r.New("test.new.1")
	case "new-bad":
		r.New("bad rid*")
	case "timeout":
		r.Timeout(1500 * time.Millisecond)
	case "timeout-neg":
		r.Timeout(-time.Second)
	case "timeout-max":
		r.Timeout(time.Duration(math.MaxInt64))
	case "timeout-sub":
		r.Timeout(1500 * time.Microsecond)
	case "timeout-zero":
		r.Timeout(0)
	case "status":
		r.SetResponseStatus(201)
	case "status-redirect":
		r.SetResponseStatus(302)
	case "status-error":
		r.SetResponseStatus(503)
	case "header-location":
		r.ResponseHeader().Set("Location", "/other")
	case "ev-custom-bad":
		r.Event("custom", make(chan int))
	case "ev-change-bad":
		r.ChangeEvent(map[string]interface{}{"a": make(chan int)})
	case "ev-add-bad":
		r.AddEvent(func() {}, 0)
	case "header":
		r.ResponseHeader().Set("X-A", `v"1`)
	case "tokenevent":
		r.TokenEvent(map[string]string{"user": "x"})
	case "ev-custom":
		r.Event("custom", map[string]string{"k": `v"<` + stepPad})
	case "ev-dollar":
		r.Event("$foo", map[string]int{"a": 1})
	case "ev-punct":
		r.Event("x-y_z~", nil)
	case "ev-empty":
		r.Event("", nil)
	case "ev-space":
		r.Event("a b", nil)
	case "ev-wild":
		r.Event("a*", nil)
	case "ev-gt":
		r.Event("a>", nil)
	case "ev-q":
		r.Event("a?b", nil)
	case "ev-del":
		r.Event("a\x7f", nil)
	case "ev-dot":
		r.Event("a.b", nil)
	case "ev-reserved":
		// one of the names the documentation reserves (the scenario picks which): Event panics, nothing is sent
		r.Event(reservedName, map[string]int{"x": 1})
	case "ev-malformed":
		r.Event("a.b", nil)
	case "ev-change":
		r.ChangeEvent(map[string]interface{}{"a": 2, "gone": res.DeleteAction})
	case "ev-change-empty":
		r.ChangeEvent(nil)
	case "ev-add":
		r.AddEvent("v", 0)
	case "ev-add-neg":
		r.AddEvent("v", -1)
	case "ev-remove":
		r.RemoveEvent(0)
	case "ev-remove-neg":
		r.RemoveEvent(-1)
	case "ev-create":
		r.CreateEvent(map[string]int{"a": 1})
	case "ev-delete":
		r.DeleteEvent()
	case "ev-reaccess":
		r.ReaccessEvent()
	case "ev-reset":
		r.ResetEvent()
	case "tokenreset":
		r.Service().TokenReset("auth.test.renew", "tid1", "tid2")
	case "tokenreset-empty":
		r.Service().TokenReset("auth.test.renew", "")
	case "tokenreset-mixed":
		r.Service().TokenReset("auth.test.renew", "tid1", "", "tid3")
	case "tokenreset-dup":
		r.Service().TokenReset("auth.test.renew", "tid1", "tid1")
	case "tokenreset-none":
		r.Service().TokenReset("auth.test.renew")
	case "value":
		r.Value()
	case "requirevalue-missing":
		r.RequireValue()
	case "panic-res":
		if errVariant {
			panic(&res.Error{Code: res.CodeNotFound, Message: "Not found", Data: map[string]bool{"p": true}})
		}
		panic(&res.Error{Code: "custom.panic", Message: "panicked"})
	case "panic-err":
		panic(errors.New("plain panic"))
	case "panic-str":
		panic("string panic")
	case "panic-int":
		panic(42)
	case "panic-nilerr":
		panic((*res.Error)(nil))
	case "panic-typednil":
		// an error value whose Error method cannot be called: a nil pointer of an error type that dereferences
		// its receiver (what `var e *os.PathError; ...; panic(e)` gives)
		panic((*os.PathError)(nil))
	case "panic-errpanics":
		panic(brokenError{})
	case "panic-nil":
		var v interface{}
		panic(v)
	default:
		panic("unknown step " + st)
	}
}

var replySteps = map[string][]string{
	"access": {"access", "error-panic-data", "access-none", "accessdenied", "accessgranted", "notfound", "invalidquery", "error-res", "error-plain", "error-nilres", "error-res-ctl", "invalidquery-ctl"},
	"get":    {"model", "model-panic-marshal", "error-panic-data", "model-bad-reserr", "collection-bad-wrapped", "querymodel", "collection", "model-bad", "notfound", "invalidquery", "error-res", "error-plain", "error-res-ctl", "error-plain-ctl"},
	"new":    {"new", "new-bad", "notfound", "methodnotfound", "invalidparams", "error-res"},
	"call":   {"ok", "ok-nil", "ok-bad", "ok-panic-marshal", "error-panic-data", "ok-bad-reserr", "ok-bad-wrapped", "resource", "resource-bad", "notfound", "methodnotfound", "invalidparams", "invalidparams-msg", "invalidquery", "error-res", "error-plain", "error-nilres", "error-res-ctl", "error-plain-ctl", "invalidparams-ctl", "invalidquery-ctl"},
}
var otherSteps = []string{"tokenreset", "tokenreset-empty", "tokenreset-mixed", "tokenreset-dup", "tokenreset-none", "ev-dollar", "ev-punct", "ev-empty", "ev-space", "ev-wild", "ev-gt", "ev-q", "ev-del", "ev-dot", "timeout-max", "timeout-sub", "timeout-zero", "ev-custom-bad", "ev-change-bad", "ev-add-bad", "timeout", "timeout-neg", "ev-custom", "ev-reserved", "ev-malformed", "ev-change", "ev-change-empty", "ev-add", "ev-add-neg", "ev-remove",
	"ev-remove-neg", "ev-create", "ev-delete", "ev-reaccess", "ev-reset", "panic-res", "panic-err", "panic-str", "panic-int", "panic-nilerr", "panic-typednil", "panic-errpanics", "panic-nil", "panic-str-ctl",
	"try-ev-custom", "try-ev-change", "try-ev-add", "try-ev-remove", "try-ev-create", "try-ev-delete", "try-ok", "try-panic-str", "try-ev-reserved"}

func alphabet(sc *Scenario) []string {
	k := sc.kind()
	rs := replySteps[k]
	if k == "auth" {
		rs = replySteps["call"]
	}
	a := append([]string{}, rs...)
	a = append(a, otherSteps...)
	if k == "access" || k == "call" || k == "auth" {
		a = append(a, "status", "header", "status-redirect", "status-error", "header-location")
	}
	if k == "auth" && sc.Payload == "valid" {
		// a token event goes to the requester's connection id, which only a real payload carries
		a = append(a, "tokenevent")
	}
	if k != "get" {
		if sc.HasGet {
			a = append(a, "value")
		} else {
			a = append(a, "requirevalue-missing")
		}
	}
	return a
}

func aps(i int) map[string]string {
	v := []string{"absent", "ok", "fail", "noop"}[i%4]
	m := map[string]string{}
	for _, e := range apEvents {
		m[e] = v
		if v == "noop" && e != "change" {
			m[e] = "ok"
		}
	}
	return m
}

func classify(m rec, clause string) string {
	sc := m["sc"].(Scenario)
	has := func(s string) bool {
		for _, x := range sc.Script {
			if x == s {
				return true
			}
		}
		return false
	}
	switch {
	case has("panic-nil"):
		return clause + ":panic-nil"
	case sc.kind() == "new" && sc.HasNew && m["inv"] == "new" && clause != "C05:unaltered":
		replied := false
		for _, st := range sc.Script {
			for _, r := range replySteps["new"] {
				if st == r {
					replied = true
				}
			}
		}
		if !replied {
			return clause + ":new-handler-without-reply"
		}
	case has("panic-nilerr"):
		return clause + ":panic-with-nil-error"
	case has("panic-typednil") || has("panic-errpanics"):
		return clause + ":panic-error-method-panics"
	}
	return clause + ":other"
}

// brokenError is an error whose Error method panics.
type brokenError struct{}

func (brokenError) Error() string { panic("Error method panicked") }

func crashClass(sc Scenario) string {
	for _, st := range sc.Script {
		if st == "panic-nilerr" {
			return "panic-nilerr"
		}
		if st == "panic-typednil" || st == "panic-errpanics" {
			return "panic-error-method-panics"
		}
	}
	return "other"
}

// BatchMain executes the scenarios of a file, writing a begin marker and a record per scenario.
func BatchMain(file, outFile string, seed int64) {
	b, err := os.ReadFile(file)
	if err != nil {
		os.Exit(3)
	}
	var items []struct {
		I  int      `json:"i"`
		Sc Scenario `json:"sc"`
	}
	if json.Unmarshal(b, &items) != nil {
		os.Exit(3)
	}
	out, err := os.OpenFile(outFile, os.O_CREATE|os.O_WRONLY|os.O_APPEND, 0o644)
	if err != nil {
		os.Exit(3)
	}
	defer out.Close()
	rng := rand.New(rand.NewSource(seed))
	for _, it := range items {
		fmt.Fprintf(out, "{\"begin\":%d}\n", it.I)
		r, err := execute(it.Sc, rng)
		if err != nil {
			r = rec{"error": err.Error()}
		}
		delete(r, "sc")
		line, _ := json.Marshal(rec{"i": it.I, "r": r})
		out.Write(append(line, '\n'))
	}
}

func runBatches(scs []Scenario, seed int64, par int) (map[int]rec, map[int]string) {
	results := map[int]rec{}
	crashes := map[int]string{}
	var mu sync.Mutex
	tmp, _ := os.MkdirTemp("", "vreq-")
	defer os.RemoveAll(tmp)
	type item struct {
		I  int      `json:"i"`
		Sc Scenario `json:"sc"`
	}
	chunks := make([][]item, par)
	for i, sc := range scs {
		chunks[i%par] = append(chunks[i%par], item{i, sc})
	}
	var wg sync.WaitGroup
	for ci := range chunks {
		wg.Add(1)
		go func(ci int) {
			defer wg.Done()
			rest := chunks[ci]
			for attempt := 0; len(rest) > 0 && attempt < 200; attempt++ {
				jf := filepath.Join(tmp, fmt.Sprintf("in-%d-%d.json", ci, attempt))
				of := filepath.Join(tmp, fmt.Sprintf("out-%d-%d.ndjson", ci, attempt))
				b, _ := json.Marshal(rest)
				os.WriteFile(jf, b, 0o644)
				cmd := exec.Command(filepath.Join(core.VerifDir, "bin", "engine"), "__reqbatch", jf, of, fmt.Sprint(seed+int64(ci)))
				if ci%2 == 1 {
					// programs whose main module declares go < 1.21 (as go-res itself does): recover() returns nil for panic(nil)
					cmd.Env = append(os.Environ(), "GODEBUG=panicnil=1")
				}
				var errb bytes.Buffer
				cmd.Stdout = &errb
				cmd.Stderr = &errb
				done := make(chan error, 1)
				cmd.Start()
				go func() { done <- cmd.Wait() }()
				select {
				case <-done:
				case <-time.After(time.Duration(60+len(rest)/5) * time.Second):
					cmd.Process.Kill()
					<-done
				}
				ob, _ := os.ReadFile(of)
				finished := map[int]bool{}
				last := -1
				for _, line := range bytes.Split(ob, []byte("\n")) {
					var pr struct {
						Begin *int `json:"begin"`
						I     int  `json:"i"`
						R     rec  `json:"r"`
					}
					if len(line) == 0 || json.Unmarshal(line, &pr) != nil {
						continue
					}
					if pr.Begin != nil {
						last = *pr.Begin
						continue
					}
					if pr.R != nil {
						mu.Lock()
						results[pr.I] = pr.R
						mu.Unlock()
						finished[pr.I] = true
					}
				}
				var next []item
				progressed := false
				for _, it := range rest {
					if finished[it.I] {
						progressed = true
						continue
					}
					if it.I == last {
						msg := ""
						for _, l := range strings.Split(errb.String(), "\n") {
							if strings.HasPrefix(l, "panic:") || strings.HasPrefix(l, "fatal error:") {
								msg += l + " "
							}
						}
						mu.Lock()
						crashes[it.I] = msg
						mu.Unlock()
						progressed = true
						continue
					}
					next = append(next, it)
				}
				if !progressed {
					break
				}
				rest = next
			}
		}(ci)
	}
	wg.Wait()
	return results, crashes
}

func lastStep(sc Scenario) string {
	for _, st := range sc.Script {
		if strings.HasPrefix(st, "panic") {
			return st
		}
	}
	return "?"
}

// ChildMain executes one scenario (JSON) and prints its record.
func ChildMain(scJSON string, seed int64) {
	var sc Scenario
	if err := json.Unmarshal([]byte(scJSON), &sc); err != nil {
		fmt.Println("bad scenario:", err)
		os.Exit(3)
	}
	sc.Name = int(seed % int64(len(nameVariants)))
	r, err := execute(sc, rand.New(rand.NewSource(seed)))
	if err != nil {
		fmt.Println("REQSIM-ERROR:", err)
		return
	}
	b, _ := json.Marshal(r)
	fmt.Println("REQSIM-RECORD " + string(b))
}

func executeInChild(sc Scenario, seed int64) (rec, string) {
	b, _ := json.Marshal(sc)
	cmd := exec.Command(filepath.Join(core.VerifDir, "bin", "engine"), "__req", string(b), fmt.Sprint(seed))
	var out bytes.Buffer
	cmd.Stdout = &out
	cmd.Stderr = &out
	done := make(chan error, 1)
	cmd.Start()
	go func() { done <- cmd.Wait() }()
	select {
	case <-done:
	case <-time.After(20 * time.Second):
		cmd.Process.Kill()
		<-done
		return nil, ""
	}
	for _, line := range strings.Split(out.String(), "\n") {
		if strings.HasPrefix(line, "REQSIM-RECORD ") {
			var r rec
			if json.Unmarshal([]byte(strings.TrimPrefix(line, "REQSIM-RECORD ")), &r) == nil {
				// restore the typed scenario for classification
				r["sc"] = sc
				return r, ""
			}
		}
	}
	for _, line := range strings.Split(out.String(), "\n") {
		if strings.HasPrefix(line, "panic:") || strings.HasPrefix(line, "fatal error:") {
			return nil, line
		}
	}
	return nil, ""
}

// Run executes the check for the property in c (C04, C05, C07 or C08).
func Run(c *core.Ctx) {
	c.SetLevel("model_checking")
	c.Assume("the harness' protocol parser (subject forms, JSON shapes) is the trusted base for turning published bytes into abstract messages")
	c.Assume("handler scripts use only the methods of the request type's interface; connection ids and resource names are protocol-conformant")
	cfg := "MCRequest.cfg"
	if c.Thorough() {
		cfg = "MCRequestThorough.cfg"
	}
	core.ModelMustHold(c, core.ModelCheck(c, "MCRequest", cfg, core.TLCOpts{Timeout: 40 * time.Minute}), "MCRequest")

	rng := rand.New(rand.NewSource(c.Seed))
	var scs []Scenario
	base := func(kind string, matched bool, payload string, http, hc bool, rt string, ap, nl, name int) Scenario {
		sc := Scenario{Rtype: kind, Matched: matched, Payload: payload, HTTP: http, HasAccess: hc, HasGet: hc, Rt: rt, Ap: aps(ap), Nl: nl, Name: name, Calls: []string{}, Auths: []string{}, Script: []string{}}
		switch kind {
		case "new":
			sc.Rtype, sc.Method, sc.HasNew = "call", "new", hc
			if hc {
				sc.Calls = []string{"m"}
			} else {
				sc.Calls = []string{"*"}
			}
		case "call":
			sc.Method = "m"
			if hc {
				sc.Calls = []string{"m", "*"}
			} else {
				sc.Calls = []string{"*"}
			}
		case "auth":
			sc.Method = "m"
			if hc {
				sc.Auths = []string{"m"}
			} else if rng.Intn(2) == 0 {
				sc.Auths = []string{"*"}
			}
		}
		return sc
	}
	kinds := []string{"access", "get", "call", "auth", "new"}
	// (1) every step of the alphabet alone and every ordered pair of steps, in a drawn configuration
	for _, k := range kinds {
		proto := base(k, true, "valid", true, true, "model", 1, 1, 0)
		al := alphabet(&proto)
		for _, a := range al {
			for cfgI := 0; cfgI < 3; cfgI++ {
				sc := base(k, true, []string{"valid", "empty", "valid"}[cfgI], cfgI != 1, true, []string{"model", "collection", "unset"}[cfgI], cfgI+rng.Intn(2), cfgI%3, rng.Intn(len(nameVariants)))
				sc.Script = []string{a}
				if a == "tokenevent" {
					sc.Payload = "valid"
				}
				scs = append(scs, sc)
			}
			for _, b := range al {
				if !c.Thorough() && rng.Intn(4) != 0 {
					continue
				}
				sc := base(k, true, "valid", rng.Intn(2) == 0, true, []string{"model", "collection", "unset"}[rng.Intn(3)], rng.Intn(4), rng.Intn(3), rng.Intn(len(nameVariants)))
				sc.Script = []string{a, b}
				scs = append(scs, sc)
			}
		}
	}
	// (1b) a listener panics, the handler recovers and sends a second event: every pair of event steps
	evs := []string{"ev-custom", "ev-change", "ev-add", "ev-remove", "ev-create", "ev-delete"}
	for _, k := range kinds {
		for _, a := range evs {
			for _, b := range evs {
				if !c.Thorough() && rng.Intn(3) != 0 {
					continue
				}
				sc := base(k, true, "valid", false, true, []string{"model", "collection", "unset"}[rng.Intn(3)], rng.Intn(2), 2, rng.Intn(len(nameVariants)))
				sc.Lpanic = 1 + rng.Intn(2)
				sc.Script = []string{"try-" + a, b}
				if rng.Intn(2) == 0 {
					sc.Script = []string{"try-" + a, "try-" + b, replySteps[map[string]string{"auth": "call"}[k]+map[string]string{"access": "access", "get": "get", "call": "call", "new": "new"}[k]][0]}
				}
				scs = append(scs, sc)
			}
		}
	}
	// (2) dispatch space: no script, every combination of matched / payload / handler presence
	for _, k := range kinds {
		for _, mt := range []bool{true, false} {
			for _, pl := range []string{"empty", "valid", "malformed"} {
				for _, hc := range []bool{true, false} {
					for rep := 0; rep < 2; rep++ {
						sc := base(k, mt, pl, rep == 1, hc, "model", 1, 1, rep*2)
						if hc {
							rk := k
							if k == "auth" {
								rk = "call"
							}
							sc.Script = []string{replySteps[rk][0]}
						}
						scs = append(scs, sc)
					}
				}
			}
		}
	}
	// (3) random longer scripts
	for i := 0; i < c.Pick(1500, 30000); i++ {
		k := kinds[rng.Intn(len(kinds))]
		sc := base(k, rng.Intn(10) != 0, []string{"valid", "valid", "empty", "malformed"}[rng.Intn(4)], rng.Intn(2) == 0, rng.Intn(5) != 0, []string{"model", "collection", "unset"}[rng.Intn(3)], rng.Intn(4), rng.Intn(3), rng.Intn(len(nameVariants)))
		sc.PubFail = rng.Intn(8) == 0
		sc.Pollute = rng.Intn(4) == 0
		if sc.Nl > 0 && rng.Intn(4) == 0 {
			sc.Lpanic = 1 + rng.Intn(sc.Nl)
		}
		sc.Wide = rng.Intn(5) == 0
		sc.Shared = rng.Intn(6) == 0
		sc.Owned = rng.Intn(6) == 0
		al := alphabet(&sc)
		n := rng.Intn(5)
		for j := 0; j < n; j++ {
			sc.Script = append(sc.Script, al[rng.Intn(len(al))])
		}
		scs = append(scs, sc)
	}
	var recs []interface{}
	results, crashes := runBatches(scs, c.Seed, 8)
	for i, sc := range scs {
		if msg, ok := crashes[i]; ok {
			if c.Property == "C04" {
				c.Violate(core.Violation{Signature: map[string]string{"engine": "reqsim", "kind": "C04:process-crash:" + crashClass(sc)},
					Text: "a handler's panic took the whole service process down: " + msg, Replay: sc})
			}
			continue
		}
		r, ok := results[i]
		if !ok {
			continue
		}
		if e, isErr := r["error"]; isErr {
			if c.Property == "C04" {
				c.Violate(core.Violation{Signature: map[string]string{"engine": "reqsim", "kind": "C04:not-processed"}, Text: fmt.Sprint(e), Replay: sc})
			}
			continue
		}
		r["sc"] = sc
		recs = append(recs, r)
	}
	var bad []int
	core.CheckRecords(c, "TraceRequest", "TraceRequest.cfg", recs, nil, func(i int, r interface{}, inv string) { bad = append(bad, i) })
	if len(bad) > 0 {
		clauses := []string{"C04:exactly-one", "C04:survives", "C05:dispatch", "C05:unaltered", "C05:response", "C07:wellformed", "C07:meta", "C07:messages", "C08:log", "C08:order"}
		var recs2 []interface{}
		var which []string
		for _, i := range bad {
			for _, cl := range clauses {
				if !strings.HasPrefix(cl, c.Property+":") {
					continue
				}
				r2 := rec{}
				for k, v := range recs[i].(rec) {
					r2[k] = v
				}
				r2["judge"] = cl
				recs2 = append(recs2, r2)
				which = append(which, cl)
			}
		}
		core.CheckRecords(c, "TraceRequest", "TraceRequest.cfg", recs2, nil, func(j int, r interface{}, inv string) {
			m := r.(rec)
			c.Violate(core.Violation{Signature: map[string]string{"engine": "reqsim", "kind": classify(m, which[j])},
				Text: fmt.Sprintf("clause %s fails for request %v: handler %v, published %v, log %v, malformed %v", which[j], m["dbg"], m["inv"], m["out"], m["log"], m["malformed"]), Replay: m})
		})
	}
	if c.Property == "C04" {
		runLoad(c, c.Pick(24, 400))
		runRealServer(c)
	}
	if c.Property == "C08" {
		runRetained(c)
		runQueryCallbackEvents(c)
		runNestedListenerEvents(c)
	}
	c.Cover("traces_validated_against_impl", len(recs))
	c.Cover("evaluations", len(recs))
	c.Cover("rule", "request scenarios executed on the real service: every handler step alone in 3 configurations, ordered pairs of steps (all in thorough, 1/4 in quick), the full dispatch space (type x matched x payload x handler presence), seeded random scripts of 0-4 steps over drawn configurations (resource type, apply handlers, listeners, http flag, 5 resource-name variants); one record per request judged by TLC (TraceRequest.RecordOK)")
	if len(recs) > 0 {
		c.Sample(recs[len(recs)/3])
		c.Sample(recs[len(recs)-1])
	}
}

// Package muxdiff is the C06 engine: real Mux configurations (patterns spread
// over mounted sub-muxes, group templates, listeners) are built, every
// registration outcome and every GetHandler result is recorded, and TLC judges
// the records against the routing reference ResMux.tla.
package muxdiff

import (
	"fmt"
	"math/rand"
	"sort"
	"strings"

	res "github.com/jirenius/go-res"

	"verif/internal/core"
)

type rec = map[string]interface{}

// hreg is one handler registration of a configuration, given by its pattern
// below the service path.
type hreg struct {
	toks    []string
	grp     string
	par     bool
	listen  int    // number of listeners to add on the same pattern
	lrename bool   // add the listener with renamed placeholders (acceptance unspecified)
	lfirst  bool   // with lrename: the renamed listener is registered BEFORE the handler (then the handler's registration is the conflicting one)
	optList bool   // register the listener through Handler.Listeners
	place   string // root | sub
}

// config is a mux arrangement.
type config struct {
	sp     string // path of the root mux ("" or "s")
	plan   int    // mount plan
	regs   []hreg
	late   bool // mounts after the sub-mux registrations
	names  []string // names looked up after the arrangement is built
	probe  bool     // ... and also before every registration (lookups have no effect on later ones)
	desc   string
	nextID int
}

func join(a, b string) string {
	if a == "" {
		return b
	}
	if b == "" {
		return a
	}
	return a + "." + b
}

// mount plans: which literal prefix is served by a sub-mux, and how
var plans = []struct {
	name   string
	prefix []string // literal tokens of the mounted prefix (below service path)
}{
	{"none", nil},
	{"mount(a,sub)", []string{"a"}},
	{"mount('',sub path a)", []string{"a"}},
	{"mount(a,m1);m1.mount(b,m2)", []string{"a", "b"}},
	{"route(a)", []string{"a"}},
	{"mount(a,sub path b)", []string{"a", "b"}},
}

func hasPrefix(toks, pre []string) bool {
	if len(pre) == 0 || len(toks) < len(pre) {
		return false
	}
	for i := range pre {
		if toks[i] != pre[i] {
			return false
		}
	}
	return true
}

type builtOp struct {
	r   rec
	run func() // performs the op on the real muxes
}

// build constructs the real muxes for cfg and returns the op records and the root mux.
func build(cfg *config) (ops []rec, root *res.Mux, mountFailed bool) {
	pv := core.Catch(func() { root = res.NewMux(cfg.sp) })
	if pv != nil {
		return nil, nil, true
	}
	pl := plans[cfg.plan]
	var sub *res.Mux // the mux serving pl.prefix
	var mid *res.Mux
	var doMount func() bool
	switch cfg.plan {
	case 0:
	case 1:
		sub = res.NewMux("")
		doMount = func() bool { return core.Catch(func() { root.Mount("a", sub) }) == nil }
	case 2:
		sub = res.NewMux("a")
		doMount = func() bool { return core.Catch(func() { root.Mount("", sub) }) == nil }
	case 3:
		mid = res.NewMux("")
		sub = res.NewMux("")
		doMount = func() bool {
			return core.Catch(func() { mid.Mount("b", sub); root.Mount("a", mid) }) == nil
		}
	case 4:
		doMount = func() bool {
			return core.Catch(func() { sub = root.Route("a", nil) }) == nil
		}
	case 5:
		sub = res.NewMux("b")
		doMount = func() bool { return core.Catch(func() { root.Mount("a", sub) }) == nil }
	}
	mounted := false
	if doMount != nil && (!cfg.late || cfg.plan == 4) {
		if !doMount() {
			return nil, nil, true
		}
		mounted = true
	}
	lid := 100
	type pending struct{ r rec }
	var subOps []rec
	for i := range cfg.regs {
		h := &cfg.regs[i]
		if cfg.probe {
			// lookups made while the tree is still being built (last: the name that is looked up first afterwards)
			for k := len(cfg.names) - 1; k >= 0; k-- {
				n := cfg.names[k]
				core.Catch(func() { root.GetHandler(n) })
				if sub != nil && k%2 == 0 {
					core.Catch(func() { sub.GetHandler(n) })
				}
			}
		}
		cfg.nextID++
		id := cfg.nextID
		full := join(cfg.sp, strings.Join(h.toks, "."))
		viaSub := h.place == "sub" && sub != nil && hasPrefix(h.toks, pl.prefix)
		mux := root
		local := strings.Join(h.toks, ".")
		via := "root"
		if viaSub {
			mux = sub
			local = strings.Join(h.toks[len(pl.prefix):], ".")
			via = "sub"
		} else if sub != nil && hasPrefix(h.toks, pl.prefix) {
			via = "through"
		}
		opts := []res.Option{res.Call(fmt.Sprintf("h%d", id), func(res.CallRequest) {})}
		if h.par {
			opts = append(opts, res.Parallel(true))
			if h.grp != "" {
				opts = append(opts, res.Group(h.grp))
			}
		} else if h.grp != "" {
			opts = append(opts, res.Group(h.grp))
		}
		var optLids []int
		if h.optList && h.listen > 0 {
			lid++
			l := lid
			optLids = append(optLids, l)
			opts = append(opts, res.OptionFunc(func(hs *res.Handler) {
				hs.Listeners = map[string]func(*res.Event){local: mkListener(l)}
			}))
		}
		preListener := false
		if h.lrename && h.lfirst && h.listen > 0 && !h.optList && strings.Contains(local, "$x") {
			// a listener with other placeholder names is there first; whether the handler is then accepted is
			// its own outcome (recorded below) - if it is, lookups report the handler's names
			lid++
			l := lid
			lp := strings.ReplaceAll(local, "$x", "$q")
			lfull := strings.ReplaceAll(full, "$x", "$q")
			lacc := core.Catch(func() { mux.AddListener(lp, mkListener(l)) }) == nil
			lr := rec{"k": "listen", "pat": core.Chars(lfull), "pats": lfull, "lid": l, "acc": lacc}
			ops = append(ops, lr)
			if viaSub {
				subOps = append(subOps, lr)
			}
			h.listen--
			preListener = lacc
		}
		acc := core.Catch(func() { mux.Handle(local, opts...) }) == nil
		r := rec{"k": "handle", "pat": core.Chars(full), "pats": full, "grp": core.Chars(h.grp), "grps": h.grp, "par": h.par, "id": id, "acc": acc, "via": via, "local": local}
		if preListener {
			r["via"] = "through" // the handler's names conflict with the listener's: acceptance is not judged, routing is
		}
		ops = append(ops, r)
		if viaSub {
			subOps = append(subOps, r)
		}
		for _, l := range optLids {
			lr := rec{"k": "listen", "pat": core.Chars(full), "pats": full, "lid": l, "acc": acc}
			ops = append(ops, lr)
			if viaSub {
				subOps = append(subOps, lr)
			}
		}
		n := h.listen
		if h.optList && n > 0 {
			n--
		}
		if !acc {
			n = 0 // a listener without a handler is rejected by Serve (ValidateListeners)
		}
		for j := 0; j < n; j++ {
			lid++
			l := lid
			lp := local
			lfull := full
			if h.lrename {
				lp = strings.ReplaceAll(lp, "$x", "$q")
				lfull = strings.ReplaceAll(lfull, "$x", "$q")
			}
			lacc := core.Catch(func() { mux.AddListener(lp, mkListener(l)) }) == nil
			lr := rec{"k": "listen", "pat": core.Chars(lfull), "pats": lfull, "lid": l, "acc": lacc}
			ops = append(ops, lr)
			if viaSub {
				subOps = append(subOps, lr)
			}
		}
	}
	if doMount != nil && !mounted {
		if !doMount() {
			// the sub-mux never became part of the tree: its registrations are invisible
			for _, r := range subOps {
				r["acc"] = false
				r["via"] = "through" // acceptance not judged
			}
			mountFailed = true
		}
	}
	return ops, root, mountFailed
}

var lastListener []int

func mkListener(id int) func(*res.Event) {
	return func(*res.Event) { lastListener = append(lastListener, id) }
}

// nameTable interns lookup names; TLC receives the table once (names.ndjson).
type nameTable struct {
	idx   map[string]int
	names []string
}

func (t *nameTable) id(n string) int {
	if i, ok := t.idx[n]; ok {
		return i
	}
	t.names = append(t.names, n)
	t.idx[n] = len(t.names)
	return len(t.names)
}

func (t *nameTable) file() []byte {
	var cs [][]string
	for _, n := range t.names {
		cs = append(cs, core.Chars(n))
	}
	return core.NDJSON([]interface{}{rec{"names": cs}})
}

func lookup(root *res.Mux, name string, nt *nameTable) rec {
	out := rec{"i": nt.id(name), "ns": name}
	var m *res.Match
	if pv := core.Catch(func() { m = root.GetHandler(name) }); pv != nil {
		out["x"] = 1
		out["panicv"] = fmt.Sprint(pv)
		return out
	}
	if m == nil {
		return out
	}
	out["id"] = 0
	for k := range m.Handler.Call {
		var id int
		fmt.Sscanf(k, "h%d", &id)
		out["id"] = id
	}
	keys := make([]string, 0, len(m.Params))
	for k := range m.Params {
		keys = append(keys, k)
	}
	sort.Strings(keys)
	ps := [][]interface{}{}
	for _, k := range keys {
		ps = append(ps, []interface{}{core.Chars(k), core.Chars(m.Params[k])})
	}
	out["pa"] = ps
	out["g"] = core.Chars(m.Group)
	out["groups"] = m.Group
	lastListener = nil
	for _, l := range m.Listeners {
		l(&res.Event{})
	}
	lst := []int{}
	lst = append(lst, lastListener...)
	out["ls"] = lst
	return out
}

func lookupNames(sp string, rng *rand.Rand, extra int) []string {
	base := core.AllStrings([]string{"a", "b", "c"}, 0)
	_ = base
	var names []string
	toks := []string{"a", "b", "c"}
	var gen func(prefix []string, depth int)
	gen = func(prefix []string, depth int) {
		if len(prefix) > 0 {
			names = append(names, strings.Join(prefix, "."))
		}
		if depth == 0 {
			return
		}
		for _, t := range toks {
			gen(append(append([]string{}, prefix...), t), depth-1)
		}
	}
	gen(nil, 3)
	var out []string
	for _, n := range names {
		out = append(out, join(sp, n))
	}
	near := []string{"", ".", "a.", ".a", "a..b", "a.b.c.a", "a.b.c.a.b", "$x", "a.$x", "*", "a.*", ">", "a.>", "a.b.>", "s", "s.", "sa", "s.a.b.c.d", "x y", "a.?", "a\tb", "é.a"}
	out = append(out, near...)
	// names whose tokens spell out wildcard syntax (they are ordinary tokens in a NAME), below the mux path
	for _, n := range []string{">", "a.>", "b.>", "a.*", "*.a", "a.$x", "$x", "a.b.>", "a.*.b", "*", "a.>.b", "c.>"} {
		out = append(out, join(sp, n))
	}
	if sp != "" {
		out = append(out, "a", "a.b", "b.a.c")
	}
	for i := 0; i < extra; i++ {
		n := 1 + rng.Intn(5)
		var ts []string
		for j := 0; j < n; j++ {
			ts = append(ts, []string{"a", "b", "c", "ab", "$x", ""}[rng.Intn(6)])
		}
		out = append(out, join(sp, strings.Join(ts, ".")))
	}
	return out
}

func classify(cfgr rec) string {
	ops := cfgr["ops"].([]rec)
	lks := cfgr["lookups"].([]rec)
	through := false
	for _, o := range ops {
		if o["via"] == "through" && o["k"] == "handle" && o["acc"] == true {
			through = true
		}
	}
	anon := false
	for _, o := range ops {
		if o["k"] == "handle" {
			for _, t := range strings.Split(o["local"].(string), ".") {
				if t == "*" {
					anon = true
				}
			}
		}
	}
	if len(lks) == 0 {
		if anon {
			return "accept:anonymous-placeholder"
		}
		return "accept:other"
	}
	if _, ok := lks[0]["x"]; ok {
		if through {
			return "lookup-panic:registered-through-mount"
		}
		return "lookup-panic:other"
	}
	if through {
		return "lookup:registered-through-mount"
	}
	return "lookup:other"
}

// Run executes the C06 check.
func Run(c *core.Ctx) {
	c.SetLevel("model_checking")
	c.Assume("handler identity is observed through a marker call method; listener identity by invoking the returned listeners")
	c.Assume("acceptance of registrations whose outcome the documentation leaves open (listeners with renamed placeholders, registering on the parent through a mounted path, mounts that collide with existing nodes) is taken from the implementation; routing is then judged on the accepted set")
	cfgName := "MCMux.cfg"
	if c.Thorough() {
		cfgName = "MCMuxThorough.cfg"
	}
	core.ModelMustHold(c, core.ModelCheck(c, "MCMux", cfgName, core.TLCOpts{}), "MCMux")

	rng := rand.New(rand.NewSource(c.Seed))
	tokAlpha := []string{"a", "b", "$x", "$y", "*", ">"}
	var pats [][]string
	var gen func(prefix []string, depth int)
	gen = func(prefix []string, depth int) {
		if len(prefix) > 0 {
			pats = append(pats, append([]string{}, prefix...))
		}
		if depth == 0 || (len(prefix) > 0 && prefix[len(prefix)-1] == ">") {
			return
		}
		for _, t := range tokAlpha {
			gen(append(append([]string{}, prefix...), t), depth-1)
		}
	}
	gen(nil, 3)
	groups := []string{"", "g", "${x}", "p${x}q", "${x}${y}", "${z}", "${", "$x", "${}", "a.b"}
	var cfgs []*config
	mk := func(sp string, plan int, late bool, regs ...hreg) {
		cfgs = append(cfgs, &config{sp: sp, plan: plan, late: late, regs: regs})
	}
	// (1) every single pattern, every service path, root placement, with a group sample
	for _, p := range pats {
		for _, sp := range []string{"", "s"} {
			mk(sp, 0, false, hreg{toks: p, grp: groups[rng.Intn(3)], place: "root", listen: rng.Intn(2)})
		}
	}
	// (2) every group template on patterns with placeholders
	for _, p := range [][]string{{"a", "$x"}, {"$x", "$y"}, {"a", "$x", "b"}, {"a", "b"}, {"$y", ">"}} {
		for _, g := range groups {
			for _, par := range []bool{false, true} {
				mk([]string{"", "s"}[rng.Intn(2)], 0, false, hreg{toks: p, grp: g, par: par, place: "root"})
			}
		}
	}
	// (2b) placeholder names of which one is a prefix of another, in both orders, with group tags naming either
	for _, p := range [][]string{{"a", "$xy", "$x"}, {"a", "$x", "$xy"}, {"$xy", "$x"}, {"$x", "$xy"}, {"a", "$xy"}, {"a", "$x"}, {"$xyz", "b", "$xy"}} {
		for _, g := range []string{"${x}", "${xy}", "${x}.${xy}", "${xy}${x}", "p${x}", "${xyz}", "${xy}.b"} {
			for _, plan := range []int{0, 1 + rng.Intn(len(plans)-1)} {
				mk([]string{"", "s"}[rng.Intn(2)], plan, rng.Intn(2) == 0, hreg{toks: p, grp: g, place: []string{"root", "sub"}[rng.Intn(2)]})
			}
		}
	}
	// (3) all pairs of patterns up to 2 tokens (exhaustive), arrangement drawn per pair
	var short [][]string
	for _, p := range pats {
		if len(p) <= 2 {
			short = append(short, p)
		}
	}
	for _, p := range short {
		for _, q := range short {
			plan := rng.Intn(len(plans))
			mk([]string{"", "s"}[rng.Intn(2)], plan, rng.Intn(2) == 0,
				hreg{toks: p, place: []string{"root", "sub"}[rng.Intn(2)], grp: groups[rng.Intn(5)], listen: rng.Intn(2), optList: rng.Intn(3) == 0},
				hreg{toks: q, place: []string{"root", "sub"}[rng.Intn(2)], grp: groups[rng.Intn(5)], listen: rng.Intn(3), lrename: rng.Intn(4) == 0, lfirst: rng.Intn(2) == 0})
		}
	}
	// (4) random triples / quadruples of patterns up to 3 tokens in every arrangement
	nrand := c.Pick(1500, 30000)
	for i := 0; i < nrand; i++ {
		n := 2 + rng.Intn(3)
		var regs []hreg
		for j := 0; j < n; j++ {
			p := pats[rng.Intn(len(pats))]
			if rng.Intn(2) == 0 { // bias towards the mounted prefix
				p = append([]string{"a"}, p...)
				if len(p) > 3 {
					p = p[:3]
				}
			}
			regs = append(regs, hreg{toks: p, place: []string{"root", "sub", "sub"}[rng.Intn(3)], grp: groups[rng.Intn(6)], par: rng.Intn(8) == 0, listen: rng.Intn(2), optList: rng.Intn(4) == 0})
		}
		mk([]string{"", "s"}[rng.Intn(2)], rng.Intn(len(plans)), rng.Intn(2) == 0, regs...)
	}
	// (5) the same pattern set in every arrangement (all plans x early/late x placements)
	sets := [][][]string{
		{{"a", "$x"}, {"a", "b"}, {"a", ">"}},
		{{"a", "b", "$x"}, {"a", "$y", "c"}, {"$x", "b", "c"}},
		{{"a"}, {"a", "b"}, {"a", "b", "c"}},
		{{"a", "$x", "$y"}, {"a", "b", ">"}, {">"}},
	}
	for _, set := range sets {
		for plan := range plans {
			for _, late := range []bool{false, true} {
				for mask := 0; mask < 1<<len(set); mask++ {
					var regs []hreg
					for j, p := range set {
						pl := "root"
						if mask&(1<<j) != 0 {
							pl = "sub"
						}
						g := ""
						if strings.Contains(strings.Join(p, "."), "$x") {
							g = "k${x}"
						}
						regs = append(regs, hreg{toks: p, place: pl, grp: g, listen: 1})
					}
					mk([]string{"", "s"}[(plan+mask)%2], plan, late, regs...)
				}
			}
		}
	}

	var recs []interface{}
	var full []rec
	nt := &nameTable{idx: map[string]int{}}
	lookups := 0
	skipped := 0
	for ci, cfg := range cfgs {
		cfg.names = lookupNames(cfg.sp, rng, 6)
		cfg.probe = ci%2 == 1
		if cfg.probe && len(cfg.regs) > 0 {
			// the name looked up right before the last registration, and first afterwards, is one that
			// the last registered pattern matches
			var inst []string
			for _, t := range cfg.regs[len(cfg.regs)-1].toks {
				if strings.HasPrefix(t, "$") || t == "*" || t == ">" {
					t = []string{"c", "a", "b"}[ci/2%3]
				}
				inst = append(inst, t)
			}
			first := join(cfg.sp, strings.Join(inst, "."))
			names := []string{first}
			for _, n := range cfg.names {
				if n != first {
					names = append(names, n)
				}
			}
			cfg.names = names
		}
		ops, root, mf := build(cfg)
		if root == nil {
			skipped++
			continue
		}
		_ = mf
		var lks []rec
		for _, n := range cfg.names {
			lks = append(lks, lookup(root, n, nt))
		}
		lookups += len(lks)
		r := rec{"judge": "all", "ops": ops, "lookups": lks, "sp": cfg.sp, "plan": plans[cfg.plan].name, "late": cfg.late}
		full = append(full, r)
		recs = append(recs, r)
	}
	var badCfg []int
	core.CheckRecords(c, "TraceMux", "TraceMux.cfg", recs, map[string][]byte{"names.ndjson": nt.file()}, func(i int, r interface{}, inv string) {
		badCfg = append(badCfg, i)
	})
	// second stage: localise the failing lookup / acceptance of each bad configuration
	if len(badCfg) > 0 {
		var recs2 []interface{}
		for _, i := range badCfg {
			cfgr := full[i]
			recs2 = append(recs2, rec{"judge": "accept", "ops": cfgr["ops"], "lookups": []rec{}, "sp": cfgr["sp"], "plan": cfgr["plan"], "late": cfgr["late"]})
			for _, lk := range cfgr["lookups"].([]rec) {
				recs2 = append(recs2, rec{"judge": "lookup", "ops": cfgr["ops"], "lookups": []rec{lk}, "sp": cfgr["sp"], "plan": cfgr["plan"], "late": cfgr["late"]})
			}
			if len(recs2) > 60000 {
				break
			}
		}
		core.CheckRecords(c, "TraceMux", "TraceMux.cfg", recs2, map[string][]byte{"names.ndjson": nt.file()}, func(i int, r interface{}, inv string) {
			m := r.(rec)
			sig := map[string]string{"engine": "mux", "kind": classify(m)}
			var pl []string
			for _, o := range m["ops"].([]rec) {
				if o["k"] == "handle" {
					pl = append(pl, fmt.Sprintf("%s[%s]%v", o["pats"], o["via"], o["acc"]))
				}
			}
			sig["regs"] = strings.Join(pl, " ")
			text := "registration outcome contradicts the acceptance rules"
			if lks := m["lookups"].([]rec); len(lks) > 0 {
				sig["name"] = lks[0]["ns"].(string)
				text = fmt.Sprintf("GetHandler(%q) = %v contradicts the routing reference", lks[0]["ns"], lks[0])
			}
			c.Violate(core.Violation{Signature: sig, Text: text + " for " + sig["regs"], Replay: m})
		})
	}
	c.Cover("traces_validated_against_impl", len(recs))
	c.Cover("evaluations", lookups)
	c.Cover("configurations", len(recs))
	c.Cover("lookups", lookups)
	c.Cover("rule", "every pattern of <=3 tokens over {a,b,$x,$y,*,>} alone; every group template; every ordered pair of <=2-token patterns in a drawn mount arrangement; fixed pattern sets in every arrangement (6 mount plans x early/late mount x placement mask); seeded random sets of 2-4 patterns; each configuration looked up with every name of <=3 tokens over {a,b,c} plus near-misses and random names")
	if len(full) > 0 {
		c.Sample(full[len(full)/2])
	}
}

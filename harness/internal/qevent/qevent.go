// Package qevent is the C15 engine: query events on a real service (recording
// connection) are driven through TLC behaviours of ResQueryEvent.tla (gates in
// the listener and the expiry path), through random histories of requests
// around the expiry, subscription failures and callback behaviours, and
// through long histories to count what is left allocated. Each query event
// becomes one record judged by TLC (TraceQueryObs.tla).
package qevent

import (
	nats "github.com/nats-io/nats.go"
	"os"
	"encoding/json"
	"fmt"
	"math/rand"
	"runtime"
	"strings"
	"sync"
	"sync/atomic"
	"time"

	res "github.com/jirenius/go-res"

	"verif/internal/core"
	"verif/internal/rconn"
	"verif/internal/sched"
)

type rec = map[string]interface{}

// one query event under observation
type qeObs struct {
	busy    int32 // a blocking callback of the group is inside
	overlap int32 // a query callback started meanwhile
	mu      sync.Mutex
	cblog   []string
	recv    []string
	bad     []bool
	subject string
}

type world struct {
	tr        *sched.Tracer
	svc       *res.Service
	conn      *rconn.Conn
	done      chan error
	obsP      atomic.Pointer[qeObs] // current observations (replaced by reuseHistory while callbacks may run)
	beh       map[string]string     // request id -> callback behaviour (guarded by bmu: set by the driver, read by callbacks)
	bmu       sync.Mutex
	withQuery bool
}

func (w *world) obs() *qeObs { return w.obsP.Load() }

func (w *world) setBeh(id, b string) {
	w.bmu.Lock()
	w.beh[id] = b
	w.bmu.Unlock()
}

func (w *world) getBeh(id string) string {
	w.bmu.Lock()
	defer w.bmu.Unlock()
	return w.beh[id]
}

func (w *world) behString() string {
	w.bmu.Lock()
	defer w.bmu.Unlock()
	return fmt.Sprint(w.beh)
}

func listenerCount() int {
	buf := make([]byte, 4<<20)
	buf = buf[:runtime.Stack(buf, true)]
	return strings.Count(string(buf), "(*queryEvent).startQueryListener")
}

func newWorld(seed int64, gated bool, dur time.Duration, failSub bool) *world {
	w := &world{tr: sched.NewTracer(seed), beh: map[string]string{}}
	w.obsP.Store(&qeObs{})
	w.withQuery = seed%2 == 1
	w.tr.AutoRoles = map[string]string{"ql.": "ql", "qx.": "timer"}
	if gated {
		w.tr.SetGated("ql.recv", "qx.enter", "qx.drained")
	}
	res.VerifHook = func(p string, a ...interface{}) {
		if p == "ql.recv" && len(a) > 1 {
			id := strings.TrimPrefix(fmt.Sprint(a[1]), "inbox.")
			w.obs().mu.Lock()
			w.obs().recv = append(w.obs().recv, id)
			w.obs().bad = append(w.obs().bad, strings.HasPrefix(id, "bad"))
			w.obs().mu.Unlock()
		}
		w.tr.Hook(p, a...)
	}
	s := res.NewService("test")
	s.SetLogger(nil)
	s.SetWorkerCount(2)
	s.SetQueryEventDuration(dur)
	s.Handle("q", res.GetCollection(func(r res.CollectionRequest) { r.Collection([]int{}) }), res.Group("shared"))
	s.Handle("other", res.GetModel(func(r res.ModelRequest) { r.NotFound() }), res.Group("shared"))
	w.svc = s
	w.conn = rconn.New(nil)
	if failSub {
		w.conn.FailSub = func(subj string) error {
			if strings.HasPrefix(subj, "_INBOX") {
				return fmt.Errorf("subscription refused")
			}
			return nil
		}
	}
	w.done = make(chan error, 1)
	served := make(chan struct{})
	s.SetOnServe(func(*res.Service) { close(served) })
	go func() { w.done <- s.Serve(w.conn) }()
	<-served
	return w
}

func (w *world) close() {
	w.tr.FreeAll()
	w.svc.Shutdown()
	select {
	case <-w.done:
	case <-time.After(3 * time.Second):
	}
	res.VerifHook = nil
}

// startQuery emits a query event from within the resource's group.
func (w *world) startQuery() bool {
	started := make(chan struct{})
	// every other world sends its query events on a resource that itself has a query part
	rid := "test.q"
	if w.withQuery {
		rid = "test.q?foo=bar"
	}
	err := w.svc.With(rid, func(r res.Resource) {
		r.QueryEvent(func(qr res.QueryRequest) {
			o := w.obs()
			if atomic.LoadInt32(&o.busy) != 0 {
				atomic.StoreInt32(&o.overlap, 1)
			}
			if qr == nil {
				o.mu.Lock()
				o.cblog = append(o.cblog, "nil")
				o.mu.Unlock()
				return
			}
			id := strings.TrimPrefix(qr.Query(), "id=")
			o.mu.Lock()
			o.cblog = append(o.cblog, id)
			o.mu.Unlock()
			switch w.getBeh(id) {
			case "collection":
				qr.Collection([]int{1, 2})
			case "events":
				qr.(interface{ AddEvent(interface{}, int) }).AddEvent(1, 0)
			case "events2":
				qr.(interface{ AddEvent(interface{}, int) }).AddEvent(1, 0)
				qr.(interface{ RemoveEvent(int) }).RemoveEvent(0)
			case "events-notfound":
				qr.(interface{ AddEvent(interface{}, int) }).AddEvent(1, 0)
				qr.NotFound()
			case "events-collection":
				qr.(interface{ AddEvent(interface{}, int) }).AddEvent(1, 0)
				qr.Collection([]int{3})
			case "events-panic":
				qr.(interface{ AddEvent(interface{}, int) }).AddEvent(1, 0)
				panic("boom after event")
			case "error":
				qr.Error(res.ErrNotFound)
			case "notfound":
				qr.NotFound()
			case "panic":
				panic("boom")
			case "panic-err":
				panic(res.ErrInvalidQuery)
			case "panic-nil":
				var v interface{}
				panic(v)
			case "panic-typednil":
				panic((*os.PathError)(nil)) // an error value whose Error method cannot be called
			case "collection-panic-marshal":
				qr.Collection([]interface{}{1, panicMarshal{}})
			case "error-panic-marshal":
				qr.Error(&res.Error{Code: "custom.err", Message: "m", Data: panicMarshal{}})
			case "twice":
				qr.NotFound()
				qr.NotFound()
			case "reply-panic":
				qr.Collection([]int{})
				panic("after reply")
			default:
				// reply nothing: the wrapper answers with the (empty) event list
			}
		})
		close(started)
	})
	if err != nil {
		return false
	}
	select {
	case <-started:
	case <-time.After(2 * time.Second):
		return false
	}
	for _, m := range w.conn.Pubs() {
		if strings.HasSuffix(m.Subject, ".query") && strings.HasPrefix(m.Subject, "event.test.q") {
			var p struct {
				Subject string `json:"subject"`
			}
			json.Unmarshal(m.Data, &p)
			w.obs().subject = p.Subject
		}
	}
	return true
}

// sendReq delivers query request id (payload kinds: ok | bad-json | bad-noquery)
func (w *world) sendReq(id string) {
	var sub *rconn.Sub
	for _, s := range w.conn.Subs() {
		if s.Subject == w.obs().subject {
			sub = s
		}
	}
	if sub == nil {
		return
	}
	payload := `{"query":"id=` + id + `"}`
	switch {
	case strings.HasPrefix(id, "badjson"):
		// not a JSON text: cut short, or a complete query object followed by more
		payload = []string{`{"query":`, `{"query":"id=` + id + `"}]`, `{"query":"id=` + id + `"} {"query":"id=other"}`, `{"query":"id=` + id + `"}x`}[int(id[len(id)-1])%4]
	case strings.HasPrefix(id, "badnoq"):
		payload = `{}`
	}
	w.conn.DeliverTo(sub, w.obs().subject, "inbox."+id, []byte(payload))
}

func (w *world) record(ids []string, failed, expired bool, src string) rec {
	o := w.obs()
	o.mu.Lock()
	defer o.mu.Unlock()
	replies := [][]interface{}{}
	kinds := [][]interface{}{}
	for _, id := range ids {
		n := 0
		kind := ""
		for _, m := range w.conn.PubsOn("inbox." + id) {
			if !strings.HasPrefix(string(m.Data), "timeout:") {
				n++
				kind = replyKind(m.Data)
			}
		}
		replies = append(replies, []interface{}{id, n})
		if n == 1 {
			b := w.getBeh(id)
			switch {
			case strings.HasPrefix(id, "badjson"):
				b = "badjson"
			case strings.HasPrefix(id, "badnoq"):
				b = "badnoq"
			}
			kinds = append(kinds, []interface{}{id, b, kind})
		}
	}
	published := o.subject != ""
	recv := append([]string{}, o.recv...)
	bad := append([]bool{}, o.bad...)
	cb := append([]string{}, o.cblog...)
	return rec{"overlap": atomic.LoadInt32(&o.overlap) != 0, "judge": "all", "recv": recv, "badpayload": bad, "cblog": cb, "replies": replies, "kinds": kinds, "failed": failed, "published": published,
		"expired": expired, "exited": listenerCount() == 0, "dbg": src}
}

// replayBehaviour drives one query event through a TLC behaviour of ResQueryEvent.
func replayBehaviour(seed int64, steps []sched.Step, src string) rec {
	w := newWorld(seed, true, 2*time.Millisecond, false)
	defer w.close()
	if !w.startQuery() {
		return nil
	}
	var ids []string
	const d = 100 * time.Millisecond
	const settle = 3 * time.Millisecond
	for _, st := range steps {
		switch st.Action {
		case "Deliver":
			id := strings.Trim(st.Proc, `"`)
			ids = append(ids, id)
			w.sendReq(id)
		case "ListenerTake":
			w.tr.AwaitParked("ql", []string{"ql.recv"}, nil, nil, d)
		case "ListenerEnqueue":
			w.tr.Step("ql", []string{"ql.recv"}, d, settle)
		case "TimerFire":
			w.tr.AwaitParked("timer", []string{"qx.enter"}, nil, nil, d)
		case "Drain":
			w.tr.Step("timer", []string{"qx.enter"}, d, settle)
		case "ExpireEndQuery", "ExpireStop":
			w.tr.Step("timer", []string{"qx.drained"}, d, settle)
		case "RunCallback":
			time.Sleep(300 * time.Microsecond)
		}
	}
	w.tr.FreeAll()
	time.Sleep(15 * time.Millisecond)
	return w.record(ids, false, true, src)
}

var behaviours = []string{"", "collection", "events", "error", "notfound", "panic", "panic-err", "twice", "reply-panic", "events2", "events-notfound", "events-collection", "events-panic", "panic-nil", "", "events", "collection-panic-marshal", "error-panic-marshal", "panic-typednil"}

// panicMarshal is a value whose encoding panics (a nil dereference in a custom marshaller, say).
type panicMarshal struct{}

func (panicMarshal) MarshalJSON() ([]byte, error) { panic("marshaller panicked") }

// replyKind abstracts a query response: events:<n> | collection | model | error:<code> | malformed
func replyKind(data []byte) string {
	var p struct {
		Result *struct {
			Events     *[]json.RawMessage `json:"events"`
			Collection json.RawMessage    `json:"collection"`
			Model      json.RawMessage    `json:"model"`
		} `json:"result"`
		Error *struct {
			Code string `json:"code"`
		} `json:"error"`
	}
	if json.Unmarshal(data, &p) != nil {
		return "malformed"
	}
	switch {
	case p.Error != nil && p.Result == nil:
		return "error:" + p.Error.Code
	case p.Result != nil && p.Result.Events != nil:
		return fmt.Sprintf("events:%d", len(*p.Result.Events))
	case p.Result != nil && p.Result.Collection != nil:
		return "collection"
	case p.Result != nil && p.Result.Model != nil:
		return "model"
	}
	return "malformed"
}

// contentHistory: one long-lived query event answers a shuffled sequence containing every callback
// behaviour, so that each kind of response follows each other kind on the same query event.
func contentHistory(seed int64) rec {
	rng := rand.New(rand.NewSource(seed))
	w := newWorld(seed, false, 60*time.Millisecond, false)
	defer w.close()
	if !w.startQuery() {
		return nil
	}
	seq := append([]string{}, behaviours...)
	seq = append(seq, behaviours...)
	rng.Shuffle(len(seq), func(i, j int) { seq[i], seq[j] = seq[j], seq[i] })
	var ids []string
	for i, b := range seq {
		id := fmt.Sprintf("c%d", i+1)
		if rng.Intn(12) == 0 {
			id = fmt.Sprintf("badnoq%d", i+1)
		}
		w.setBeh(id, b)
		ids = append(ids, id)
		w.sendReq(id)
	}
	time.Sleep(60*time.Millisecond + 40*time.Millisecond)
	return w.record(ids, false, true, fmt.Sprintf("content history seed %d: %v", seed, seq))
}

// randomHistory: requests at random times around the expiry, random callback behaviours.
func randomHistory(seed int64, failSub bool) rec {
	rng := rand.New(rand.NewSource(seed))
	dur := time.Duration(2+rng.Intn(4)) * time.Millisecond
	w := newWorld(seed, false, dur, failSub)
	defer w.close()
	w.tr.SetPerturb(true)
	ok := w.startQuery()
	if !ok {
		return nil
	}
	var ids []string
	n := rng.Intn(6)
	for i := 0; i < n; i++ {
		id := fmt.Sprintf("r%d", i+1)
		switch rng.Intn(8) {
		case 0:
			id = fmt.Sprintf("badjson%d", i+1)
		case 1:
			id = fmt.Sprintf("badnoq%d", i+1)
		}
		w.setBeh(id, behaviours[rng.Intn(len(behaviours))])
		ids = append(ids, id)
		w.sendReq(id)
		time.Sleep(time.Duration(rng.Intn(int(dur)/2 + 1)))
	}
	time.Sleep(dur + 25*time.Millisecond)
	return w.record(ids, failSub, true, fmt.Sprintf("random history seed %d failSub=%v behaviours=%v", seed, failSub, w.behString()))
}

// groupHistory: the resource's group is kept busy by another resource of the same group while
// query requests arrive and the query event expires; no query callback may run meanwhile.
func groupHistory(seed int64) rec {
	w := newWorld(seed, false, 4*time.Millisecond, false)
	defer w.close()
	if !w.startQuery() {
		return nil
	}
	release := make(chan struct{})
	inside := make(chan struct{})
	w.svc.With("test.other", func(res.Resource) {
		atomic.StoreInt32(&w.obs().busy, 1)
		close(inside)
		<-release
		atomic.StoreInt32(&w.obs().busy, 0)
	})
	<-inside
	ids := []string{"r1", "r2"}
	for _, id := range ids {
		w.sendReq(id)
	}
	time.Sleep(12 * time.Millisecond) // requests queued, query event expired: all behind the blocker
	close(release)
	time.Sleep(20 * time.Millisecond)
	return w.record(ids, false, true, "group kept busy by test.other while 2 requests arrive and the query event expires")
}

// burstHistory: the resource's group is busy for a while and 16 query requests arrive 2 ms apart. The
// subscription channel of a query event holds 10 messages and a NATS client drops what does not fit: the listener
// takes the requests out as they come (they wait in the group's queue, not in the channel), none is dropped and
// each is answered once the group gets to it.
func burstHistory(seed int64) rec {
	w := newWorld(seed, false, 800*time.Millisecond, false)
	defer w.close()
	if !w.startQuery() {
		return nil
	}
	var sub *rconn.Sub
	for _, sb := range w.conn.Subs() {
		if sb.Subject == w.obs().subject {
			sub = sb
		}
	}
	if sub == nil {
		return nil
	}
	release := make(chan struct{})
	inside := make(chan struct{})
	w.svc.With("test.other", func(res.Resource) { close(inside); <-release })
	<-inside
	var ids []string
	dropped := 0
	for i := 0; i < 16; i++ {
		id := fmt.Sprintf("u%d", i+1)
		ids = append(ids, id)
		w.setBeh(id, "")
		m := &nats.Msg{Subject: w.obs().subject, Reply: "inbox." + id, Data: []byte(`{"query":"id=` + id + `"}`), Sub: sub.NS}
		sent := false
		for t := 0; t < 50 && !sent; t++ { // (a real client does not wait at all; 50 ms is leniency for a busy machine)
			select {
			case sub.Ch <- m:
				sent = true
			default:
				time.Sleep(time.Millisecond)
			}
		}
		if !sent {
			dropped++
		}
		time.Sleep(2 * time.Millisecond)
	}
	close(release)
	for t := 0; t < 2000; t++ {
		n := 0
		for _, id := range ids {
			n += len(w.conn.PubsOn("inbox." + id))
		}
		if n >= len(ids)-dropped {
			break
		}
		time.Sleep(time.Millisecond)
	}
	time.Sleep(3 * time.Millisecond)
	r := w.record(ids, false, false, fmt.Sprintf("burst history seed %d: 16 query requests 2 ms apart while the group is busy; %d did not fit into the subscription channel", seed, dropped))
	r["judge"] = "burst"
	r["dropped"] = dropped
	return r
}

// shutdownHistory: Shutdown begins while a callback of the resource's group is running and the
// query event expires meanwhile; whatever the library does with the final nil call, it must not
// run beside the callback that is still inside.
func shutdownHistory(seed int64) rec {
	w := newWorld(seed, false, 3*time.Millisecond, false)
	if !w.startQuery() {
		w.close()
		return nil
	}
	release := make(chan struct{})
	inside := make(chan struct{})
	w.svc.With("test.other", func(res.Resource) {
		atomic.StoreInt32(&w.obs().busy, 1)
		close(inside)
		<-release
		atomic.StoreInt32(&w.obs().busy, 0)
	})
	<-inside
	sdDone := make(chan struct{})
	go func() { w.svc.Shutdown(); close(sdDone) }()
	time.Sleep(15 * time.Millisecond) // the query event expires while the service is stopping
	close(release)
	select {
	case <-sdDone:
	case <-time.After(3 * time.Second):
	}
	select {
	case <-w.done:
	case <-time.After(3 * time.Second):
	}
	res.VerifHook = nil
	time.Sleep(5 * time.Millisecond)
	r := w.record(nil, false, false, "Shutdown begins while test.other (same group) is inside a callback; the query event expires meanwhile")
	r["judge"] = "serialized"
	return r
}

// longHistory: many query events; afterwards nothing may be left running.
func longHistory(seed int64, n int) rec {
	w := newWorld(seed, false, time.Millisecond, false)
	defer w.close()
	for i := 0; i < n; i++ {
		w.startQuery()
		if i%3 == 0 {
			w.sendReq(fmt.Sprintf("r%d", i))
		}
	}
	time.Sleep(60 * time.Millisecond)
	o := w.obs()
	o.mu.Lock()
	defer o.mu.Unlock()
	nils := 0
	for _, c := range o.cblog {
		if c == "nil" {
			nils++
		}
	}
	left := listenerCount()
	return rec{"overlap": false, "judge": "released", "recv": []string{}, "badpayload": []bool{}, "cblog": []string{"nil"}, "replies": [][]interface{}{}, "failed": false, "published": true,
		"expired": true, "exited": left == 0, "dbg": fmt.Sprintf("long history: %d query events, %d nil callbacks, %d listener goroutines left", n, nils, left)}
}

// reuseHistory: a query event expires; a request for it arrives late (routed before the server processed
// the unsubscribe); later query events - on the same and on another resource - must not see that request,
// and nobody answers it.
func reuseHistory(seed int64) rec {
	rng := rand.New(rand.NewSource(seed))
	w := newWorld(seed, false, 3*time.Millisecond, false)
	defer w.close()
	if !w.startQuery() {
		return nil
	}
	var oldSub *rconn.Sub
	for _, sb := range w.conn.Subs() {
		if sb.Subject == w.obs().subject {
			oldSub = sb
		}
	}
	oldSubject := w.obs().subject
	w.setBeh("a1", "")
	w.sendReq("a1")
	time.Sleep(3*time.Millisecond + 25*time.Millisecond) // expired, listener gone
	for t := 0; t < 2000; t++ { // (on a busy machine: wait until that is really so)
		o := w.obs()
		o.mu.Lock()
		ended := len(o.cblog) > 0 && o.cblog[len(o.cblog)-1] == "nil"
		o.mu.Unlock()
		if ended && listenerCount() == 0 {
			break
		}
		time.Sleep(time.Millisecond)
	}
	nlate := 1 + rng.Intn(3)
	var late []string
	if oldSub != nil {
		for i := 0; i < nlate; i++ {
			id := fmt.Sprintf("late%d", i+1)
			late = append(late, id)
			w.setBeh(id, "events")
			w.conn.DeliverTo(oldSub, oldSubject, "inbox."+id, []byte(`{"query":"id=`+id+`"}`))
		}
	}
	// the next query events start with fresh observations
	var sent []string
	w.obsP.Store(&qeObs{})
	for k := 0; k < 1+rng.Intn(3); k++ {
		if !w.startQuery() {
			return nil
		}
		id := fmt.Sprintf("b%d", k+1)
		w.setBeh(id, behaviours[rng.Intn(len(behaviours))])
		sent = append(sent, id)
		w.sendReq(id)
		time.Sleep(time.Duration(rng.Intn(1500)) * time.Microsecond)
	}
	time.Sleep(3*time.Millisecond + 30*time.Millisecond)
	r := w.record(append(append([]string{}, sent...), late...), false, true, fmt.Sprintf("reuse history seed %d: %d late request(s) on the subject of an expired query event, then %d new query event(s)", seed, len(late), len(sent)))
	r["sent"] = sent
	r["judge"] = "foreign"
	return r
}

// twoServiceHistory: two services of one process on one connection send a query event each. Each query
// event has a subject of its own; a request on one of them reaches that query event's callback only
// and is answered once.
func twoServiceHistory(seed int64) rec {
	res.VerifHook = nil
	conn := rconn.New(nil)
	type svc struct {
		s     *res.Service
		done  chan error
		calls int32
		subj  string
	}
	names := []string{"test", "other"}
	svcs := make([]*svc, 2)
	for i, n := range names {
		v := &svc{s: res.NewService(n), done: make(chan error, 1)}
		v.s.SetLogger(nil)
		v.s.SetQueryEventDuration(40 * time.Millisecond)
		v.s.Handle("q", res.GetCollection(func(r res.CollectionRequest) { r.Collection([]int{}) }))
		served := make(chan struct{})
		v.s.SetOnServe(func(*res.Service) { close(served) })
		go func() { v.done <- v.s.Serve(conn) }()
		select {
		case <-served:
		case <-time.After(3 * time.Second):
			return nil
		}
		svcs[i] = v
	}
	defer func() {
		for _, v := range svcs {
			v.s.Shutdown()
		}
	}()
	// the services have sent different numbers of query events before (seed-dependent), then one each
	for i, v := range svcs {
		v := v
		for k := 0; k < 1+int(seed+int64(i))%2; k++ {
			started := make(chan struct{})
			if v.s.With(names[i]+".q", func(r res.Resource) {
				r.QueryEvent(func(qr res.QueryRequest) {
					if qr != nil {
						atomic.AddInt32(&v.calls, 1)
					}
				})
				close(started)
			}) != nil {
				return nil
			}
			<-started
		}
		for _, m := range conn.PubsOn("event." + names[i] + ".q.query") {
			var p struct {
				Subject string `json:"subject"`
			}
			json.Unmarshal(m.Data, &p)
			v.subj = p.Subject // the last one
		}
	}
	// all subjects published so far
	seen := map[string]int{}
	for _, n := range names {
		for _, m := range conn.PubsOn("event." + n + ".q.query") {
			var p struct {
				Subject string `json:"subject"`
			}
			json.Unmarshal(m.Data, &p)
			seen[p.Subject]++
		}
	}
	fresh := true
	for _, n := range seen {
		if n > 1 {
			fresh = false
		}
	}
	delivered, _ := conn.Deliver(svcs[0].subj, "inbox.two1", []byte(`{"query":"id=two1"}`))
	for t := 0; t < 2000 && len(conn.PubsOn("inbox.two1")) == 0; t++ {
		time.Sleep(time.Millisecond)
	}
	time.Sleep(5 * time.Millisecond) // (a second response or the other service's callback would come right away)
	replies := len(conn.PubsOn("inbox.two1"))
	own, foreign := atomic.LoadInt32(&svcs[0].calls), atomic.LoadInt32(&svcs[1].calls)
	return rec{"judge": "fresh", "fresh": fresh && delivered == 1 && replies == 1 && own == 1 && foreign == 0, "overlap": false, "recv": []string{}, "badpayload": []bool{}, "cblog": []string{}, "replies": [][]interface{}{}, "kinds": [][]interface{}{},
		"failed": false, "published": true, "expired": false, "exited": false,
		"dbg": fmt.Sprintf("two services on one connection: query subjects %v, request on the first service's subject delivered to %d subscription(s), %d response(s), callback calls own=%d other service=%d", seen, delivered, replies, own, foreign)}
}

// durationHistory: the service is served, stopped, given another query event duration and served again
// (half of the runs: served once). A query event of the current life is active for the configured
// duration: inside it a request is answered, the callback has not been called with nil and the listener
// lives; after it the usual end-of-life clauses hold.
func durationHistory(seed int64) []rec {
	rng := rand.New(rand.NewSource(seed))
	d1, d2 := 2*time.Millisecond, 90*time.Millisecond
	if seed%2 == 1 {
		d1, d2 = 200*time.Millisecond, 4*time.Millisecond
	}
	w := newWorld(seed, false, d1, false)
	restarted := rng.Intn(4) != 0
	if restarted {
		if rng.Intn(2) == 0 && d1 < 10*time.Millisecond {
			// a query event of the first life (not observed), pending or expired when the service stops
			w.svc.With("test.q", func(r res.Resource) { r.QueryEvent(func(res.QueryRequest) {}) })
			time.Sleep(time.Duration(rng.Intn(4)) * time.Millisecond)
		}
		w.svc.Shutdown()
		select {
		case <-w.done:
		case <-time.After(3 * time.Second):
			return nil
		}
		w.svc.SetQueryEventDuration(d2)
		w.conn = rconn.New(nil)
		w.done = make(chan error, 1)
		served := make(chan struct{})
		w.svc.SetOnServe(func(*res.Service) { close(served) })
		go func(conn *rconn.Conn, done chan error) { done <- w.svc.Serve(conn) }(w.conn, w.done)
		select {
		case <-served:
		case <-time.After(3 * time.Second):
			return nil
		}
		w.obsP.Store(&qeObs{})
	} else {
		d2 = d1
	}
	defer w.close()
	t0 := time.Now()
	refLate := new(int64) // by how much a reference timer of the same duration was late (0: has not fired)
	time.AfterFunc(d2, func() {
		l := time.Since(t0) - d2
		if l <= 0 {
			l = 1
		}
		atomic.StoreInt64(refLate, int64(l))
	})
	if !w.startQuery() {
		return nil
	}
	if time.Since(t0) > 20*time.Millisecond {
		return nil // starting the query event took long: the time base is off
	}
	var out []rec
	src := fmt.Sprintf("duration history seed %d: first life %v, restarted=%v, query event duration now %v", seed, d1, restarted, d2)
	if d2 >= 90*time.Millisecond {
		time.Sleep(25 * time.Millisecond)
		w.setBeh("mid1", "")
		w.sendReq("mid1")
		time.Sleep(15 * time.Millisecond)
		if time.Since(t0) < d2-20*time.Millisecond { // (a stalled harness proves nothing)
			r := w.record([]string{"mid1"}, false, false, src+" - observed well inside the duration")
			r["judge"] = "active"
			out = append(out, r)
		}
		if w.awaitEnd(t0, d2, refLate) {
			out = append(out, w.record([]string{"mid1"}, false, true, src+" - after the duration"))
		}
		return out
	}
	if w.awaitEnd(t0, d2, refLate) {
		out = append(out, w.record(nil, false, true, src+" - after the duration"))
	}
	return out
}

// awaitEnd waits until the query event started at t0 has had its duration d plus 120 ms (a reference timer
// armed together with it tells when that is on this machine), but no longer than it takes the final nil
// call to come and the listener to go. It reports false when the reference timer itself was more than
// 50 ms late: the machine is too busy for the end of the run to be judged.
func (w *world) awaitEnd(t0 time.Time, d time.Duration, refLate *int64) bool {
	deadline := t0.Add(d + 120*time.Millisecond)
	for time.Now().Before(deadline) {
		o := w.obs()
		o.mu.Lock()
		ended := len(o.cblog) > 0 && o.cblog[len(o.cblog)-1] == "nil"
		o.mu.Unlock()
		if ended && time.Since(t0) > d && listenerCount() == 0 {
			break
		}
		time.Sleep(time.Millisecond)
	}
	time.Sleep(3 * time.Millisecond) // (a second nil call would come right away)
	late := time.Duration(atomic.LoadInt64(refLate))
	return late != 0 && late < 50*time.Millisecond
}

// Run executes the C15 check.
func Run(c *core.Ctx) {
	c.SetLevel("model_checking")
	c.Assume("the recording connection stands for NATS: a drained subscription keeps its channel, requests can be placed in the channel until the harness stops; release of the listener goroutine is observed in the goroutine dump")
	c.Assume("'received' means taken from the channel by the listener goroutine")
	core.ModelMustHold(c, core.ModelCheck(c, "ResQueryEvent", "MCQuery.cfg", core.TLCOpts{}), "MCQuery")
	core.ModelMustHold(c, core.ModelCheck(c, "ResQueryEvent", "MCQueryLive.cfg", core.TLCOpts{Args: []string{"-lncheck", "final"}}), "MCQueryLive")
	var recs []interface{}
	// leads: counterexamples of the shipped design, replayed
	for _, cfg := range []string{"MCQueryLead.cfg", "MCQueryLiveLead.cfg"} {
		r, err := core.RunTLC(core.TLCOpts{Module: "ResQueryEvent", Cfg: cfg, Args: []string{"-lncheck", "final"}, Timeout: 2 * time.Minute})
		if err != nil || r == nil {
			continue
		}
		for _, e := range r.Errors {
			if len(e.Actions) == 0 {
				continue
			}
			var steps []sched.Step
			for _, a := range e.Actions {
				name, proc := a, ""
				if i := strings.IndexByte(a, '('); i > 0 {
					name, proc = a[:i], strings.TrimSuffix(a[i+1:], ")")
				}
				steps = append(steps, sched.Step{Action: name, Proc: proc})
			}
			for k := 0; k < c.Pick(3, 10); k++ {
				if rr := replayBehaviour(c.Seed+int64(k), steps, "counterexample of "+cfg+": "+strings.Join(e.Actions, " ")); rr != nil {
					recs = append(recs, rr)
				}
			}
		}
	}
	// behaviours of the repaired model
	tmpBeh := simulate(c, c.Pick(25, 200))
	for i, b := range tmpBeh {
		if rr := replayBehaviour(c.Seed+int64(i), b, fmt.Sprintf("tlc -simulate MCQuery #%d", i)); rr != nil {
			recs = append(recs, rr)
		}
	}
	for i := 0; i < c.Pick(40, 400); i++ {
		if rr := randomHistory(c.Seed*7919+int64(i), i%9 == 0); rr != nil {
			recs = append(recs, rr)
		}
	}
	for i := 0; i < c.Pick(4, 40); i++ {
		if rr := contentHistory(c.Seed*31 + int64(i)); rr != nil {
			recs = append(recs, rr)
		}
	}
	for i := 0; i < c.Pick(6, 60); i++ {
		if rr := reuseHistory(c.Seed*53 + int64(i)); rr != nil {
			recs = append(recs, rr)
		}
	}
	for i := 0; i < c.Pick(3, 20); i++ {
		if rr := groupHistory(c.Seed + int64(i)); rr != nil {
			recs = append(recs, rr)
		}
	}
	for i := 0; i < c.Pick(3, 20); i++ {
		if rr := shutdownHistory(c.Seed + int64(i)); rr != nil {
			recs = append(recs, rr)
		}
	}
	for _, n := range []int{1, 10, c.Pick(60, 200)} {
		recs = append(recs, longHistory(c.Seed, n))
	}
	for i := 0; i < c.Pick(8, 48); i++ {
		for _, rr := range durationHistory(c.Seed*17 + int64(i)) {
			recs = append(recs, rr)
		}
	}
	for i := 0; i < c.Pick(4, 20); i++ {
		if rr := twoServiceHistory(c.Seed + int64(i)); rr != nil {
			recs = append(recs, rr)
		}
	}
	for i := 0; i < c.Pick(3, 12); i++ {
		if rr := burstHistory(c.Seed*7 + int64(i)); rr != nil {
			recs = append(recs, rr)
		}
	}
	var bad []int
	core.CheckRecords(c, "TraceQueryObs", "TraceQueryObs.cfg", recs, nil, func(i int, r interface{}, inv string) { bad = append(bad, i) })
	if len(bad) > 0 {
		clauses := []string{"serialized", "one-reply", "content", "callback-per-request", "nil-once", "nil-at-most-once", "nil-last", "failed-sub", "released"}
		var recs2 []interface{}
		var which []string
		for _, i := range bad {
			for _, cl := range append(clauses, "foreign", "active", "fresh", "burst") {
				if (cl == "active" || cl == "fresh" || cl == "burst") && fmt.Sprint(recs[i].(rec)["judge"]) != cl {
					continue
				}
				// a record judged for one clause only (released / foreign) is re-judged for that clause
				if j := fmt.Sprint(recs[i].(rec)["judge"]); j != "all" && j != cl {
					continue
				}
				if _, has := recs[i].(rec)["sent"]; !has && cl == "foreign" {
					continue
				}
				r2 := rec{}
				for k, v := range recs[i].(rec) {
					r2[k] = v
				}
				r2["judge"] = cl
				recs2 = append(recs2, r2)
				which = append(which, cl)
			}
		}
		core.CheckRecords(c, "TraceQueryObs", "TraceQueryObs.cfg", recs2, nil, func(j int, r interface{}, inv string) {
			m := r.(rec)
			c.Violate(core.Violation{Signature: map[string]string{"engine": "qevent", "kind": which[j]},
				Text: fmt.Sprintf("query event violates clause %s: callbacks %v, received %v, replies %v, listener exited %v [%v]", which[j], m["cblog"], m["recv"], m["replies"], m["exited"], m["dbg"]), Replay: m})
		})
	}
	c.Cover("traces_validated_against_impl", len(recs))
	c.Cover("evaluations", len(recs))
	c.Cover("rule", "one record per query event on the real service: TLC counterexamples of the shipped design and tlc -simulate behaviours of the repaired ResQueryEvent replayed through listener/expiry gates; random histories (0-5 requests around the expiry, 9 callback behaviours, malformed and query-less payloads, failing subscription); long histories of 1/10/60+ expired query events counting listener goroutines; judged by TLC (TraceQueryObs.RecordOK)")
	if len(recs) > 0 {
		c.Sample(recs[0])
		c.Sample(recs[len(recs)-1])
	}
}

// RunGroupClause is the part of C01 that concerns query events: query-request and query-expiry
// callbacks belong to the resource's worker group. Only the clause "serialized" is judged.
func RunGroupClause(c *core.Ctx) {
	var recs []interface{}
	for i := 0; i < c.Pick(4, 30); i++ {
		for _, rr := range []rec{groupHistory(c.Seed + int64(i)), shutdownHistory(c.Seed + int64(i))} {
			if rr != nil {
				rr["judge"] = "serialized"
				recs = append(recs, rr)
			}
		}
	}
	core.CheckRecords(c, "TraceQueryObs", "TraceQueryObs.cfg", recs, nil, func(i int, r interface{}, inv string) {
		m := r.(rec)
		c.Violate(core.Violation{Signature: map[string]string{"engine": "qevent", "kind": "serialized"},
			Text: fmt.Sprintf("a query callback ran while another callback of the resource's group was inside: callbacks %v [%v]", m["cblog"], m["dbg"]), Replay: m})
	})
	c.AddCount("traces_validated_against_impl", len(recs))
	c.Cover("query_callback_group_records", len(recs))
}

func simulate(c *core.Ctx, num int) [][]sched.Step {
	return sched.SimulateModule(c, "ResQueryEvent", "MCQuery.cfg", num, 40, c.Seed)
}

// Package subs is the C09 engine: services are configured with every
// ownership list / name / handler-kind / queue combination of the bound,
// served on the recording connection, and the observed subscriptions and
// system.reset payloads are judged by TLC against ResSubs.tla.
package subs

import (
	"sync/atomic"
	"encoding/json"
	"fmt"
	"math/rand"
	"strings"
	"sync"
	"time"

	res "github.com/jirenius/go-res"

	"verif/internal/core"
	"verif/internal/rconn"
)

type rec = map[string]interface{}

type config struct {
	sn     string
	rr, ra []string // nil = left unset
	hasRes bool
	hasAcc bool
	queue  string
	setQ   bool
	layout int // how the handlers of the registered kinds are laid out in the pattern tree (see register)
	failAt int // >0: the connection refuses the failAt-th subscription of the Serve call
	pre    int // calls made on the new, stopped service before the handlers are registered: 1 ResetAll, 2 ResetAll after one handler-less pattern, 3 Reset
	relife int // 1: a first life with default ownership, the explicit lists are set after its Shutdown; 2: set while that first life runs
}

const nLayouts = 9

// register adds handlers so that the service has a resource-kind handler (get/call/auth/new) iff hasRes
// and an access handler iff hasAcc; the layout only varies where in the pattern tree they sit.
func register(s *res.Service, cfg config) {
	get := res.GetResource(func(r res.GetRequest) { r.NotFound() })
	acc := res.Access(res.AccessGranted)
	none := func(p string) { s.Handle(p) }
	switch cfg.layout {
	case 1: // the kinds sit below a registered pattern that lacks them
		none("m")
		if cfg.hasRes {
			s.Handle("m.$id", get)
		} else {
			none("m.$id")
		}
		if cfg.hasAcc {
			s.Handle("m.$id.sub", acc)
		}
	case 2: // access above, resource kinds below (and the mirror image)
		if cfg.hasAcc {
			s.Handle("m", acc)
		} else {
			none("m")
		}
		if cfg.hasRes {
			s.Handle("m.$id", res.Call("x", func(r res.CallRequest) { r.OK(nil) }))
		}
	case 3: // through a mounted sub-mux, below a full wildcard sibling
		sub := res.NewMux("")
		none("zz.other")
		if cfg.hasRes {
			sub.Handle("deep.$a.$b", res.Auth("login", func(r res.AuthRequest) { r.OK(nil) }))
		}
		if cfg.hasAcc {
			sub.Handle("deep.>", acc)
		}
		if !cfg.hasRes && !cfg.hasAcc {
			sub.Handle("x")
		}
		s.Mount("sub", sub)
	case 4: // only the deprecated new handler / a wildcard call handler stand for the resource kinds
		if cfg.hasRes {
			s.Handle("m.$id", res.Call("*", func(r res.CallRequest) { r.OK(nil) }))
		}
		if cfg.hasAcc {
			s.Handle("m.$id.n", acc)
		}
		none("o")
	case 5: // both kinds on one deep handler under two handler-less levels
		none("h5")
		none("h5.b")
		var opts []res.Option
		if cfg.hasRes {
			opts = append(opts, get)
		}
		if cfg.hasAcc {
			opts = append(opts, acc)
		}
		s.Handle("h5.b.c", opts...)
	case 7: // three levels assembled top-down: the inner mux has its handlers before it is mounted into the
		// (already mounted) middle one
		outer := s.Route("outer", nil)
		inner := res.NewMux("")
		if cfg.hasRes {
			inner.Handle("r.$id", get)
		}
		if cfg.hasAcc {
			inner.Handle("a.$id", acc)
		}
		if !cfg.hasRes && !cfg.hasAcc {
			inner.Handle("x")
		}
		outer.Mount("inner", inner)
	case 8: // three levels assembled bottom-up, one kind registered on the inner mux after everything is mounted
		outer, inner := res.NewMux(""), res.NewMux("in")
		if cfg.hasRes {
			inner.Handle("r.$id", get)
		}
		outer.Mount("mid", inner)
		s.Mount("up", outer)
		if cfg.hasAcc {
			inner.Handle("late.$id", acc)
		} else {
			inner.Handle("late.$id")
		}
	case 6: // the service's root resource (pattern "") carries the handlers
		var opts []res.Option
		if cfg.hasRes {
			opts = append(opts, get)
		}
		if cfg.hasAcc {
			opts = append(opts, acc)
		}
		s.Handle("", opts...)
	default:
		if cfg.hasRes {
			s.Handle("m", get)
		}
		if cfg.hasAcc {
			s.Handle("n", acc)
		}
		if !cfg.hasRes && !cfg.hasAcc {
			s.Handle("o")
		}
	}
}

func chlist(l []string) [][]string {
	out := [][]string{}
	for _, s := range l {
		out = append(out, core.Chars(s))
	}
	return out
}

var hookMu sync.Mutex

// observe serves the configuration once and records what the service did.
func observe(cfg config) (rec, error) {
	hookMu.Lock()
	defer hookMu.Unlock()
	var s *res.Service
	if pv := core.Catch(func() { s = res.NewService(cfg.sn) }); pv != nil {
		return nil, fmt.Errorf("NewService(%q) panicked: %v", cfg.sn, pv)
	}
	s.SetLogger(nil)
	s.SetWorkerCount(1)
	// calls the stopped service refuses: they have no effect on what it later serves
	switch cfg.pre {
	case 1:
		s.ResetAll()
	case 2:
		s.Handle("zz.early")
		s.ResetAll()
	case 3:
		s.Reset([]string{cfg.sn + ".>"}, []string{cfg.sn + ".>"})
	}
	if pv := core.Catch(func() { register(s, cfg) }); pv != nil {
		return nil, fmt.Errorf("registration (layout %d) panicked: %v", cfg.layout, pv)
	}
	if cfg.setQ {
		s.SetQueueGroup(cfg.queue)
	}
	if cfg.relife != 0 && (cfg.hasRes || cfg.hasAcc) && (cfg.rr != nil || cfg.ra != nil) {
		// a first life of the same Service value with default ownership
		c1 := rconn.New(nil)
		served1 := make(chan struct{}, 1)
		s.SetOnServe(func(*res.Service) { served1 <- struct{}{} })
		d1 := make(chan error, 1)
		go func() { d1 <- s.Serve(c1) }()
		select {
		case <-served1:
		case err := <-d1:
			return nil, fmt.Errorf("first life (default ownership) did not serve: %v", err)
		case <-time.After(5 * time.Second):
			return nil, fmt.Errorf("first life did not start")
		}
		if cfg.relife == 2 {
			s.SetOwnedResources(cfg.rr, cfg.ra)
		}
		s.Shutdown()
		select {
		case <-d1:
		case <-time.After(5 * time.Second):
			return nil, fmt.Errorf("first life did not end")
		}
		s.SetOnServe(nil)
		if cfg.relife == 1 {
			s.SetOwnedResources(cfg.rr, cfg.ra)
		}
	} else if cfg.rr != nil || cfg.ra != nil {
		s.SetOwnedResources(cfg.rr, cfg.ra)
	}
	conn := rconn.New(nil)
	var refused int32
	if cfg.failAt > 0 {
		var nsub int32
		conn.FailSub = func(string) error {
			if int(atomic.AddInt32(&nsub, 1)) == cfg.failAt {
				atomic.StoreInt32(&refused, 1)
				return fmt.Errorf("subscription refused")
			}
			return nil
		}
	}
	subscribed := make(chan error, 1)
	res.VerifHook = func(p string, a ...interface{}) {
		if p == "sv.subscribed" {
			var err error
			if len(a) > 0 && a[0] != nil {
				err, _ = a[0].(error)
			}
			select {
			case subscribed <- err:
			default:
			}
		}
	}
	defer func() { res.VerifHook = nil }()
	done := make(chan error, 1)
	var pv interface{}
	go func() {
		defer func() {
			if v := recover(); v != nil {
				pv = v
				done <- fmt.Errorf("panic: %v", v)
			}
		}()
		done <- s.Serve(conn)
	}()
	served := false
	select {
	case err := <-subscribed:
		served = err == nil
	case err := <-done:
		// Serve may already have returned (nothing to subscribe to): both channels are ready then
		select {
		case serr := <-subscribed:
			served = serr == nil
			done <- err
		default:
			return nil, fmt.Errorf("Serve returned early: %v (panic %v)", err, pv)
		}
	case <-time.After(5 * time.Second):
		return nil, fmt.Errorf("Serve did not reach subscribe")
	}
	if cfg.failAt > 0 && atomic.LoadInt32(&refused) == 0 {
		// (the service makes fewer subscriptions than that: an ordinary run)
	} else if cfg.failAt > 0 && !served {
		select { // the service gave up, as it should
		case <-done:
		case <-time.After(5 * time.Second):
			return nil, fmt.Errorf("Serve did not return after a refused subscription")
		}
		return nil, nil
	} else if cfg.failAt > 0 {
		// a subscription was refused and the service serves all the same: it announces (system.reset) resources
		// whose requests it will never receive
		resetSent := len(conn.PubsOn("system.reset")) > 0
		s.Shutdown()
		select {
		case <-done:
		case <-time.After(5 * time.Second):
		}
		return nil, fmt.Errorf("subscription number %d was refused, yet Serve went on (system.reset sent: %v, %d subscriptions made)", cfg.failAt, resetSent, len(conn.Subs()))
	}
	if served {
		// wait for the start-up reset, then ask for another one
		deadline := time.Now().Add(2 * time.Second)
		for len(conn.PubsOn("system.reset")) == 0 && time.Now().Before(deadline) {
			time.Sleep(200 * time.Microsecond)
		}
		s.ResetAll()
		s.Shutdown()
	}
	select {
	case <-done:
	case <-time.After(5 * time.Second):
		return nil, fmt.Errorf("Serve did not return after Shutdown")
	}
	qexp := cfg.sn
	if cfg.setQ {
		qexp = cfg.queue
	}
	subs := [][][]string{}
	var dbg []string
	for _, sb := range conn.Subs() {
		subs = append(subs, [][]string{core.Chars(sb.Subject), core.Chars(sb.Queue)})
		dbg = append(dbg, sb.Subject)
	}
	resets := []rec{}
	for _, m := range conn.PubsOn("system.reset") {
		var p struct {
			Resources []string `json:"resources"`
			Access    []string `json:"access"`
		}
		if err := json.Unmarshal(m.Data, &p); err != nil {
			return nil, fmt.Errorf("system.reset payload not JSON: %s", m.Data)
		}
		resets = append(resets, rec{"resources": chlist(p.Resources), "access": chlist(p.Access), "dbg": string(m.Data)})
	}
	r := rec{
		"judge": "all", "sn": core.Chars(cfg.sn), "rr": chlist(cfg.rr), "ra": chlist(cfg.ra),
		"rrnil": cfg.rr == nil, "ranil": cfg.ra == nil, "hasRes": cfg.hasRes, "hasAcc": cfg.hasAcc,
		"queue": core.Chars(qexp), "subs": subs, "resets": resets, "served": served,
		"dbg": fmt.Sprintf("name=%q resources=%q access=%q hasRes=%v hasAcc=%v layout=%d pre=%d queue=%q -> subs=%q", cfg.sn, cfg.rr, cfg.ra, cfg.hasRes, cfg.hasAcc, cfg.layout, cfg.pre, qexp, dbg),
	}
	if cfg.rr == nil != (cfg.ra == nil) {
		// SetOwnedResources(nil, x) leaves one list to the defaults
	}
	return r, nil
}

// doubleWithoutQueue tells whether every probe of a real-server record that deviates from "covered =>
// once" is a call/auth request answered twice by a service that runs without a queue group: two of its
// subscriptions (e.g. call.p.*.* for the owned p.* and call.p.a.> for the owned p.a.>) both match the
// subject although neither covers the other, and without a queue group the server hands the message to both.
func doubleWithoutQueue(cfg config, m rec) bool {
	q := cfg.sn
	if cfg.setQ {
		q = cfg.queue
	}
	if q != "" {
		return false
	}
	str := func(v interface{}) string {
		var b strings.Builder
		switch x := v.(type) {
		case []string:
			for _, c := range x {
				b.WriteString(c)
			}
		case []interface{}:
			for _, c := range x {
				b.WriteString(fmt.Sprint(c))
			}
		}
		return b.String()
	}
	probes, _ := m["probes"].([][]interface{})
	deviating := 0
	for _, p := range probes {
		typ, name := str(p[0]), str(p[1])
		n, _ := p[2].(int)
		owned := cfg.rr
		if typ == "access" {
			owned = cfg.ra
		}
		covered := false
		for _, o := range owned {
			if rconn.SubjectMatches(o, name) {
				covered = true
			}
		}
		if (covered && n == 1) || (!covered && n <= 1) {
			continue
		}
		deviating++
		if n != 2 || (typ != "call" && typ != "auth") {
			return false
		}
	}
	return deviating > 0
}

func classify(cfg config, clause string) string {
	dup := func(l []string) bool {
		seen := map[string]bool{}
		for _, e := range l {
			if seen[e] {
				return true
			}
			seen[e] = true
		}
		return false
	}
	overlap := func(l []string) bool {
		for i, a := range l {
			for j, b := range l {
				if i != j && a != b && res.Pattern(a).Matches(b) {
					return true
				}
			}
		}
		return false
	}
	switch {
	case cfg.layout == 6 && (cfg.rr == nil || cfg.ra == nil):
		return clause + ":root-handler-only"
	case cfg.sn == "" && (cfg.rr == nil || cfg.ra == nil):
		return clause + ":empty-service-name-defaults"
	case dup(cfg.rr) || dup(cfg.ra):
		return clause + ":duplicate-ownership-entries"
	case overlap(cfg.ra) && clause == "redundant":
		return clause + ":overlapping-access-entries"
	}
	return clause + ":other"
}

// Run executes the C09 check.
func Run(c *core.Ctx) {
	c.SetLevel("model_checking")
	c.Assume("the recording connection stands for the NATS server: subscriptions and publishes are observed there; NATS subject matching is the reference's NMatches")
	c.Assume("ownership entries that are not valid NATS subjects themselves are outside the judged domain")
	cfgName := "MCSubs.cfg"
	if c.Thorough() {
		cfgName = "MCSubsThorough.cfg"
	}
	core.ModelMustHold(c, core.ModelCheck(c, "MCSubs", cfgName, core.TLCOpts{Timeout: 40 * time.Minute}), "MCSubs")

	rng := rand.New(rand.NewSource(c.Seed))
	var cfgs []config
	// defaults: every name x handler kinds x queue setting (names with characters that JSON escapes included)
	for _, sn := range []string{"", "s", "s.t", `q"t`, `b\n`, "<&"} {
		for k := 0; k < 4; k++ {
			for _, q := range []struct {
				set bool
				q   string
			}{{false, ""}, {true, ""}, {true, "qg"}} {
				for l := 0; l < nLayouts; l++ {
					cfgs = append(cfgs, config{sn: sn, hasRes: k&1 != 0, hasAcc: k&2 != 0, setQ: q.set, queue: q.q, layout: l})
				}
			}
		}
	}
	entriesFor := func(sn string) []string {
		if sn == "" {
			return []string{">", "a", "a.>", "a.b", "a.*", "b.>"}
		}
		return []string{sn, sn + ".>", sn + ".a", sn + ".a.>", sn + ".*", ">"}
	}
	lists := func(sn string, max int) [][]string {
		es := entriesFor(sn)
		out := [][]string{nil, {}}
		var gen func(cur []string)
		gen = func(cur []string) {
			if len(cur) > 0 {
				out = append(out, append([]string{}, cur...))
			}
			if len(cur) == max {
				return
			}
			for _, e := range es {
				gen(append(cur, e))
			}
		}
		gen(nil)
		return out
	}
	for _, sn := range []string{"s", "", "s.t"} {
		ls := lists(sn, 2)
		for _, rr := range ls {
			for _, ra := range ls {
				if sn != "s" && rng.Intn(4) != 0 && !c.Thorough() {
					continue
				}
				k := rng.Intn(4)
				q := rng.Intn(3)
				cfgs = append(cfgs, config{sn: sn, rr: rr, ra: ra, hasRes: k&1 != 0, hasAcc: k&2 != 0, setQ: q > 0, queue: []string{"", "", "qg"}[q], layout: rng.Intn(nLayouts), relife: []int{0, 0, 1, 2}[rng.Intn(4)]})
			}
		}
	}
	// longer lists, random
	for i := 0; i < c.Pick(300, 6000); i++ {
		sn := []string{"s", "", "s.t"}[rng.Intn(3)]
		es := entriesFor(sn)
		mk := func() []string {
			if rng.Intn(6) == 0 {
				return nil
			}
			n := rng.Intn(4)
			l := []string{}
			for j := 0; j < n; j++ {
				l = append(l, es[rng.Intn(len(es))])
			}
			return l
		}
		k := rng.Intn(4)
		cfgs = append(cfgs, config{sn: sn, rr: mk(), ra: mk(), hasRes: k&1 != 0, hasAcc: k&2 != 0, setQ: rng.Intn(2) == 0, queue: "qg"})
	}
	var recs []interface{}
	var kept []config
	for i := range cfgs {
		cfgs[i].pre = []int{0, 1, 0, 2, 0, 3}[rng.Intn(6)]
	}
	// a refused subscription: the service gives up (with and without queue group)
	for i := 0; i < c.Pick(24, 120); i++ {
		sn := []string{"s", "", "s"}[i%3]
		cfgs = append(cfgs, config{sn: sn, hasRes: true, hasAcc: i%2 == 0, setQ: i%3 != 0, queue: []string{"", "qg"}[i%2], layout: i % nLayouts, failAt: 1 + i%9})
	}
	for _, cfg := range cfgs {
		r, err := observe(cfg)
		if r == nil && err == nil {
			continue
		}
		if err != nil {
			c.Violate(core.Violation{Signature: map[string]string{"engine": "subs", "kind": "serve-failed", "cfg": fmt.Sprintf("%+v", cfg)}, Text: err.Error(), Replay: fmt.Sprintf("%+v", cfg)})
			continue
		}
		recs = append(recs, r)
		kept = append(kept, cfg)
	}
	// on a real (embedded) NATS server: deliverability of probe requests, reset after a reconnect
	nreal := 0
	for i, cfg := range cfgs {
		if i%c.Pick(40, 8) != 3 {
			continue
		}
		r, err := observeReal(cfg)
		if err != nil {
			c.Inconclusive("real NATS server run for %+v: %v", cfg, err)
			continue
		}
		recs = append(recs, r)
		kept = append(kept, cfg)
		nreal++
	}
	c.Cover("configurations_on_real_nats_server", nreal)
	var bad []int
	core.CheckRecords(c, "TraceSubs", "TraceSubs.cfg", recs, nil, func(i int, r interface{}, inv string) { bad = append(bad, i) })
	if len(bad) > 0 {
		clauses := []string{"coverage", "redundant", "valid", "exact", "queue", "reset", "serves", "delivered", "reconnect"}
		var recs2 []interface{}
		var which []struct {
			i  int
			cl string
		}
		for _, i := range bad {
			for _, cl := range clauses {
				isReal := recs[i].(rec)["judge"] == "real"
				if isReal != (cl == "delivered" || cl == "reconnect" || ((cl == "reset" || cl == "serves") && isReal)) {
					continue
				}
				r2 := rec{}
				for k, v := range recs[i].(rec) {
					r2[k] = v
				}
				r2["judge"] = cl
				recs2 = append(recs2, r2)
				which = append(which, struct {
					i  int
					cl string
				}{i, cl})
			}
		}
		core.CheckRecords(c, "TraceSubs", "TraceSubs.cfg", recs2, nil, func(j int, r interface{}, inv string) {
			w := which[j]
			m := r.(rec)
			kind := classify(kept[w.i], w.cl)
			if w.cl == "delivered" && kept[w.i].rr != nil && doubleWithoutQueue(kept[w.i], recs[w.i].(rec)) {
				kind = "delivered:twice-without-queue-group"
			}
			sig := map[string]string{"engine": "subs", "kind": kind, "cfg": m["dbg"].(string)}
			c.Violate(core.Violation{Signature: sig, Text: "clause " + w.cl + " fails for " + m["dbg"].(string), Replay: m})
		})
	}
	c.Cover("traces_validated_against_impl", len(recs))
	c.Cover("evaluations", len(recs))
	c.Cover("rule", "every default-ownership configuration (3 names x 4 handler-kind sets x 3 queue settings); every pair of explicit ownership lists of <=2 entries over 6 entries for name s (sampled 1/4 for the other names in quick); seeded random lists of <=3 entries; each served once on the recording connection and judged clause by clause by TLC (TraceSubs.ConfigOK)")
	if len(recs) > 0 {
		c.Sample(map[string]interface{}{"cfg": recs[len(recs)/2].(rec)["dbg"]})
		c.Sample(strings.TrimSpace(fmt.Sprint(recs[0].(rec)["dbg"])))
	}
}

package subs

import (
	"encoding/json"
	"fmt"
	"os"
	"strings"
	"sync"
	"sync/atomic"
	"time"

	res "github.com/jirenius/go-res"
	"github.com/nats-io/nats-server/v2/server"
	"github.com/nats-io/nats.go"

	"verif/internal/core"
)

// observeReal serves the configuration on an embedded NATS server (ListenAndServe), sends probe
// requests from a second client - the real server decides which subscriptions receive them -,
// restarts the server so that the service reconnects, and records the resets and the number of
// responses per probe.
func observeReal(cfg config) (rec, error) {
	hookMu.Lock()
	defer hookMu.Unlock()
	start := func(port int) (*server.Server, error) {
		srv, err := server.NewServer(&server.Options{Host: "127.0.0.1", Port: port, NoLog: true, NoSigs: true})
		if err != nil {
			return nil, err
		}
		go srv.Start()
		if !srv.ReadyForConnections(5 * time.Second) {
			return nil, fmt.Errorf("embedded nats-server did not start")
		}
		return srv, nil
	}
	srv, err := start(-1)
	if err != nil {
		return nil, err
	}
	url := srv.ClientURL()
	port := srv.Addr().(interface{ String() string }).String()
	port = port[strings.LastIndexByte(port, ':')+1:]
	var portN int
	fmt.Sscan(port, &portN)

	var mu sync.Mutex
	var resets []rec
	replies := map[string]int{}
	watch := func() (*nats.Conn, error) {
		mc, err := nats.Connect(url, nats.NoReconnect())
		if err != nil {
			return nil, err
		}
		mc.Subscribe("system.reset", func(m *nats.Msg) {
			var p struct {
				Resources []string `json:"resources"`
				Access    []string `json:"access"`
			}
			if json.Unmarshal(m.Data, &p) == nil {
				mu.Lock()
				resets = append(resets, rec{"resources": chlist(p.Resources), "access": chlist(p.Access), "dbg": string(m.Data)})
				mu.Unlock()
			}
		})
		mc.Subscribe("_PROBE.>", func(m *nats.Msg) {
			if strings.HasPrefix(string(m.Data), "timeout:") {
				return
			}
			mu.Lock()
			replies[m.Subject]++
			mu.Unlock()
		})
		return mc, mc.Flush()
	}
	mc, err := watch()
	if err != nil {
		srv.Shutdown()
		return nil, err
	}

	var s *res.Service
	if pv := core.Catch(func() { s = res.NewService(cfg.sn) }); pv != nil {
		srv.Shutdown()
		return nil, fmt.Errorf("NewService(%q) panicked: %v", cfg.sn, pv)
	}
	s.SetLogger(nil)
	s.SetWorkerCount(2)
	if pv := core.Catch(func() { register(s, cfg) }); pv != nil {
		srv.Shutdown()
		return nil, fmt.Errorf("registration (layout %d) panicked: %v", cfg.layout, pv)
	}
	if cfg.rr != nil || cfg.ra != nil {
		s.SetOwnedResources(cfg.rr, cfg.ra)
	}
	if cfg.setQ {
		s.SetQueueGroup(cfg.queue)
	}
	var recv, done2 int64
	res.VerifHook = func(p string, a ...interface{}) {
		switch p {
		case "hr.recv":
			atomic.AddInt64(&recv, 1)
		case "rq.done":
			atomic.AddInt64(&done2, 1)
		}
	}
	defer func() { res.VerifHook = nil }()
	servedCh := make(chan struct{}, 1)
	reconn := make(chan struct{}, 4)
	s.SetOnServe(func(*res.Service) { servedCh <- struct{}{} })
	s.SetOnReconnect(func(*res.Service) { reconn <- struct{}{} })
	done := make(chan error, 1)
	go func() { done <- s.ListenAndServe(url, nats.ReconnectWait(250*time.Millisecond)) }()
	served, returned := false, false
	select {
	case <-servedCh:
		served = true
	case <-done:
		returned = true
	case <-time.After(5 * time.Second):
		srv.Shutdown()
		return nil, fmt.Errorf("ListenAndServe neither served nor returned")
	}
	probes := [][]interface{}{}
	if served {
		// the start-up reset travels on the service's connection behind its subscriptions: once the
		// watcher has seen it, the server knows the subscriptions
		for deadline := time.Now().Add(5 * time.Second); time.Now().Before(deadline); {
			mu.Lock()
			n := len(resets)
			mu.Unlock()
			if n > 0 {
				break
			}
			time.Sleep(2 * time.Millisecond)
		}
		// probe names: instances of the owned patterns, extended, truncated, and strangers
		names := map[string]bool{"zz9": true, "q.zz9": true}
		if cfg.sn != "" {
			names[cfg.sn] = true
			names[cfg.sn+".zz9"] = true
			names[cfg.sn+".a.zz9"] = true
			names[cfg.sn+"x.zz9"] = true
		}
		for _, p := range append(append([]string{}, cfg.rr...), cfg.ra...) {
			inst := strings.ReplaceAll(strings.ReplaceAll(p, "*", "zz9"), ">", "y.zz9")
			names[inst] = true
			names[inst+".zz8"] = true
			if i := strings.LastIndexByte(inst, '.'); i > 0 {
				names[inst[:i]] = true
			}
		}
		type probe struct{ typ, name, inbox string }
		var ps []probe
		n := 0
		for name := range names {
			if name == "" || strings.ContainsAny(name, "*> ") {
				continue
			}
			for _, typ := range []string{"get", "call", "auth", "access"} {
				if m := s.GetHandler(name); typ == "access" && m != nil && m.Handler.Access == nil {
					continue // a registered pattern without access handler: such a request is left to other services
				}
				n++
				ps = append(ps, probe{typ, name, fmt.Sprintf("_PROBE.%d", n)})
			}
		}
		runProbes := func(round string) {
			mc := mc
			for _, p := range ps {
				subj := p.typ + "." + p.name
				if p.typ == "call" || p.typ == "auth" {
					subj += ".m"
				}
				mc.PublishRequest(subj, p.inbox+round, nil)
			}
			mc.Flush()
			// wait until the service has processed everything it received and nothing new has arrived
			// (requests or replies) for a while
			quiet := func() (int64, int64, int) {
				mu.Lock()
				defer mu.Unlock()
				n := 0
				for _, c := range replies {
					n += c
				}
				return atomic.LoadInt64(&recv), atomic.LoadInt64(&done2), n
			}
			lastChange := time.Now()
			pr, pd, pn := quiet()
			for deadline := time.Now().Add(8 * time.Second); time.Now().Before(deadline); {
				time.Sleep(5 * time.Millisecond)
				r, d, n := quiet()
				if r != pr || d != pd || n != pn {
					pr, pd, pn = r, d, n
					lastChange = time.Now()
				}
				if r == d && time.Since(lastChange) > 250*time.Millisecond {
					break
				}
			}
			if os.Getenv("VERIF_SUBS_DEBUG") != "" {
				r, d, n := quiet()
				fmt.Printf("realnats %+v: %d probes sent, service received %d, processed %d, replies %d\n", cfg, len(ps), r, d, n)
			}
			mu.Lock()
			for _, p := range ps {
				probes = append(probes, []interface{}{core.Chars(p.typ), core.Chars(p.name), replies[p.inbox+round]})
			}
			mu.Unlock()
		}
		runProbes("")
		// restart the server: the service reconnects and announces itself again
		mc.Close()
		srv.Shutdown()
		srv.WaitForShutdown()
		srv, err = start(portN)
		if err != nil {
			s.Shutdown()
			return nil, fmt.Errorf("cannot restart the embedded server on port %d: %v", portN, err)
		}
		mc, err = watch()
		if err != nil {
			s.Shutdown()
			srv.Shutdown()
			return nil, err
		}
		select {
		case <-reconn:
		case <-time.After(5 * time.Second):
			s.Shutdown()
			srv.Shutdown()
			return nil, fmt.Errorf("the service did not reconnect within 5s")
		}
		mc.Flush()
		time.Sleep(30 * time.Millisecond)
		// the same probes after the reconnect: the subscriptions are what they were
		runProbes(".r2")
		s.Shutdown()
	}
	if !returned {
		select {
		case <-done:
		case <-time.After(5 * time.Second):
			srv.Shutdown()
			return nil, fmt.Errorf("ListenAndServe did not return after Shutdown")
		}
	}
	expectResets := 2
	if served {
		// a second life of the same Service value on a new connection: it announces itself again
		expectResets = 3
		mu.Lock()
		before := len(resets)
		mu.Unlock()
		done2 := make(chan error, 1)
		go func() { done2 <- s.ListenAndServe(url, nats.ReconnectWait(250*time.Millisecond)) }()
		select {
		case <-servedCh:
		case err := <-done2:
			mc.Close()
			srv.Shutdown()
			return nil, fmt.Errorf("second ListenAndServe of the stopped service returned: %v", err)
		case <-time.After(5 * time.Second):
			mc.Close()
			srv.Shutdown()
			return nil, fmt.Errorf("second ListenAndServe did not start serving")
		}
		for deadline := time.Now().Add(2 * time.Second); time.Now().Before(deadline); {
			mu.Lock()
			n := len(resets)
			mu.Unlock()
			if n > before {
				break
			}
			time.Sleep(2 * time.Millisecond)
		}
		s.Shutdown()
		select {
		case <-done2:
		case <-time.After(5 * time.Second):
			srv.Shutdown()
			return nil, fmt.Errorf("second ListenAndServe did not return after Shutdown")
		}
	}
	mc.Close()
	srv.Shutdown()
	mu.Lock()
	defer mu.Unlock()
	rs := resets
	if rs == nil {
		rs = []rec{}
	}
	return rec{
		"judge": "real", "sn": core.Chars(cfg.sn), "rr": chlist(cfg.rr), "ra": chlist(cfg.ra),
		"rrnil": cfg.rr == nil, "ranil": cfg.ra == nil, "hasRes": cfg.hasRes, "hasAcc": cfg.hasAcc,
		"queue": core.Chars(""), "subs": [][][]string{}, "resets": rs, "served": served, "probes": probes, "expectResets": expectResets,
		"dbg": fmt.Sprintf("real NATS server: name=%q resources=%q access=%q hasRes=%v hasAcc=%v layout=%d", cfg.sn, cfg.rr, cfg.ra, cfg.hasRes, cfg.hasAcc, cfg.layout),
	}, nil
}

// Package racer is the C16 engine: concurrent client programs built from the
// public API run against the real library in a binary built with -race. The
// instrumentation hooks only perturb the schedule (without any
// synchronisation of their own, so that they cannot hide a race) and the
// harness callbacks touch deliberately unsynchronised per-group memory.
package racer

import (
	"bytes"
	"fmt"
	"math/rand"
	"net/url"
	"os"
	"os/exec"
	"path/filepath"
	"regexp"
	"runtime"
	"strings"
	"sync"
	"time"

	"github.com/dgraph-io/badger"
	res "github.com/jirenius/go-res"
	"github.com/jirenius/go-res/logger"
	"github.com/jirenius/go-res/store"
	"github.com/jirenius/go-res/store/badgerstore"
	"github.com/jirenius/go-res/store/mockstore"
	nats "github.com/nats-io/nats.go"

	"verif/internal/core"
)

// quietConn is a res.Conn with as little synchronisation of its own as possible.
type quietConn struct {
	mu     sync.Mutex
	subs   []qsub
	dmu    sync.RWMutex // like a real client: no delivery after Close has returned
	closed bool
}
type qsub struct {
	subject string
	ch      chan *nats.Msg
}

func (c *quietConn) Publish(string, []byte) error                { return nil }
func (c *quietConn) PublishRequest(string, string, []byte) error { return nil }
func (c *quietConn) ChanSubscribe(subject string, ch chan *nats.Msg) (*nats.Subscription, error) {
	c.mu.Lock()
	c.subs = append(c.subs, qsub{subject, ch})
	c.mu.Unlock()
	return &nats.Subscription{Subject: subject}, nil
}
func (c *quietConn) ChanQueueSubscribe(subject, q string, ch chan *nats.Msg) (*nats.Subscription, error) {
	return c.ChanSubscribe(subject, ch)
}
func (c *quietConn) Close() {
	c.dmu.Lock()
	c.closed = true
	c.dmu.Unlock()
}

// deliver places a message in a subscriber channel unless the connection is closed.
func (c *quietConn) deliver(ch chan *nats.Msg, m *nats.Msg) {
	c.dmu.RLock()
	defer c.dmu.RUnlock()
	if c.closed {
		return
	}
	select {
	case ch <- m:
	case <-time.After(time.Millisecond):
	}
}

// perturb is installed as the hook: no shared memory, no locks, no atomics.
var dbgSubj sync.Map

func perturb(point string, args ...interface{}) {
	if (point == "rw.enq" || point == "rw.refused" || point == "pq.take") && os.Getenv("VERIF_RACER_DEBUG") != "" && (point == "pq.take" || strings.HasPrefix(fmt.Sprint(args[0]), "test.bsq")) {
		fmt.Println("RACER-DEBUG", point, args[0])
	}
	if (point == "ql.recv" || point == "qr.done" || point == "ql.exit") && os.Getenv("VERIF_RACER_DEBUG") != "" {
		fmt.Println("RACER-DEBUG", point, args[0])
	}
	if point == "qe.added" && os.Getenv("VERIF_RACER_DEBUG") != "" {
		fmt.Println("RACER-DEBUG qe.added", args[0], time.Now().UnixNano()/1000%100000000)
		dbgSubj.Store(args[1], args[0])
	}
	switch point {
	case "rw.enq", "wk.locked", "wk.park", "wk.wake", "wk.pop", "wk.exit", "pq.take", "pq.relock", "pq.retire", "cl.nil":
		return
	}
	n := time.Now().UnixNano()
	switch (n >> 4) & 15 {
	case 0, 1, 2, 3:
		runtime.Gosched()
	case 4:
		time.Sleep(time.Microsecond)
	case 5:
		time.Sleep(20 * time.Microsecond)
	}
}

type item struct {
	ID   string `json:"id"`
	Name string `json:"name"`
	N    int    `json:"n"`
}

// TouchGroupMemory reads and writes the unsynchronised memory of a group. It is a named function so
// that a race report on it (two callbacks of one group without happens-before) can be recognised.
func TouchGroupMemory(mem map[string]*int, g string) {
	if p := mem[g]; p != nil {
		*p = *p + 1
	}
}

// KeptResourceUse reads a Resource value that a handler of the group kept from an earlier request. A named
// function so that a race report on it can be recognised (like TouchGroupMemory).
func KeptResourceUse(r res.Resource) {
	_ = r.ResourceName()
	_ = r.PathParams()
	_ = r.Group()
}

// ChildMain runs the concurrent program; it is only meaningful in the -race binary.
func ChildMain(seed int64, rounds int) {
	rng := rand.New(rand.NewSource(seed))
	res.VerifHook = perturb
	badgerstore.VerifHook = perturb
	dir, err := os.MkdirTemp("", "vrace-db-")
	if err != nil {
		fmt.Println("cannot create temp dir:", err)
		os.Exit(3)
	}
	defer os.RemoveAll(dir)
	opts := badger.DefaultOptions(dir)
	opts.Logger = nil
	opts.SyncWrites = false
	db, err := badger.Open(opts)
	if err != nil {
		fmt.Println("cannot open badger:", err)
		os.Exit(3)
	}
	defer db.Close()
	for round := 0; round < rounds; round++ {
		oneRound(rng.Int63(), db, round)
	}
	fmt.Println("race child done")
}

func oneRound(seed int64, db *badger.DB, round int) {
	rng := rand.New(rand.NewSource(seed))
	s := res.NewService("test")
	if round%2 == 0 {
		s.SetLogger(logger.NewMemLogger())
	} else {
		s.SetLogger(nil)
	}
	s.SetWorkerCount(1 + rng.Intn(4))
	s.SetQueryEventDuration(2 * time.Millisecond)
	// per-group memory touched without synchronisation from the group's callbacks only
	mem := map[string]*int{}
	for _, g := range []string{"test.r.a", "test.r.b", "grp.x", "grp.y", "shared", "test.sub.late.1", "test.sub.x.1", "hot"} {
		mem[g] = new(int)
	}
	touch := func(g string) { TouchGroupMemory(mem, g) }
	// per-group state of the handlers: the Resource value of the last request, kept and used later by callbacks of
	// the same group (nothing in the API says a Resource dies with the request)
	type slot struct{ r res.Resource }
	keptOf := map[string]*slot{"test.r.a": {}, "test.r.b": {}}
	keep := func(r res.Resource) {
		if sl := keptOf[r.Group()]; sl != nil {
			sl.r = r
		}
	}
	useKept := func(g string) {
		if sl := keptOf[g]; sl != nil && sl.r != nil {
			KeptResourceUse(sl.r)
		}
	}
	ms := mockstore.NewStore()
	ms.Add("test.ms.1", map[string]interface{}{"n": 1})
	bs := badgerstore.NewStore(db).SetType(item{}).SetPrefix(fmt.Sprintf("r%d", round))
	qs := badgerstore.NewQueryStore(bs, func(qs *badgerstore.QueryStore, q url.Values) (*badgerstore.IndexQuery, error) {
		if q.Get("by") == "parity" {
			return &badgerstore.IndexQuery{Index: qs.Index("parity"), KeyPrefix: []byte(q.Get("p")), Limit: -1}, nil
		}
		return &badgerstore.IndexQuery{Index: qs.Index("name"), KeyPrefix: []byte(q.Get("p")), Limit: -1}, nil
	}).AddIndex(badgerstore.Index{Name: "name", Key: func(v interface{}) []byte { return []byte(v.(item).Name) }}).
		// a second index whose key most writes leave unchanged
		AddIndex(badgerstore.Index{Name: "parity", Key: func(v interface{}) []byte { return []byte(fmt.Sprint(len(v.(item).ID) % 2)) }})
	s.Handle("r.$id",
		res.Access(func(r res.AccessRequest) { touch(r.Group()); useKept(r.Group()); r.AccessGranted() }),
		res.GetModel(func(r res.ModelRequest) { touch(r.Group()); useKept(r.Group()); keep(r); r.Model(map[string]int{"x": 1}) }),
		res.Call("m", func(r res.CallRequest) {
			touch(r.Group())
			useKept(r.Group())
			r.ChangeEvent(map[string]interface{}{"x": 2})
			r.OK(nil)
		}),
		res.Call("q", func(r res.CallRequest) {
			touch(r.Group())
			g := r.Group()
			r.QueryEvent(func(qr res.QueryRequest) {
				touch(g)
				if qr != nil {
					qr.NotFound()
				}
			})
			r.OK(nil)
		}),
		res.Auth("a", func(r res.AuthRequest) { touch(r.Group()); r.TokenEvent(nil); r.OK(nil) }),
	)
	// a mounted mux, and a handler registered on the service afterwards whose pattern passes through the
	// mount point (no Group option: the resource name is the group); their memory is keyed by resource name
	sub := res.NewMux("")
	sub.Handle("x.$id", res.GetModel(func(r res.ModelRequest) { touch(r.ResourceName()); r.NotFound() }), res.Call("m", func(r res.CallRequest) { touch(r.ResourceName()); r.OK(nil) }))
	s.Mount("sub", sub)
	s.Handle("sub.late.$id", res.Access(func(r res.AccessRequest) { touch(r.ResourceName()); r.AccessGranted() }),
		res.GetModel(func(r res.ModelRequest) { touch(r.ResourceName()); r.NotFound() }), res.Call("m", func(r res.CallRequest) { touch(r.ResourceName()); r.OK(nil) }))
	s.Handle("g.$id", res.Group("grp.${id}"), res.GetCollection(func(r res.CollectionRequest) { touch(r.Group()); r.Collection([]int{1}) }))
	s.Handle("sh.$id", res.Group("shared"), res.GetModel(func(r res.ModelRequest) { touch(r.Group()); r.NotFound() }))
	s.Handle("par.$id", res.Parallel(true), res.GetModel(func(r res.ModelRequest) { r.NotFound() }),
		// a parallel resource's query requests run concurrently; each sees its own query
		res.Call("q", func(r res.CallRequest) {
			r.QueryEvent(func(qr res.QueryRequest) {
				if qr != nil {
					q := qr.Query()
					qr.ParseQuery()
					qr.Collection([]string{q})
				}
			})
			r.OK(nil)
		}))
	s.Handle("ms.$id", res.Model, store.Handler{Store: ms})
	s.Handle("bs.$id", res.Model, store.Handler{Store: bs, Transformer: store.IDTransformer("id", nil)})
	// collections of one handler, written to by different goroutines (one id each)
	bsc := badgerstore.NewStore(db).SetType([]string{}).SetPrefix(fmt.Sprintf("c%d", round))
	s.Handle("bc.$id", res.Collection, store.Handler{Store: bsc, Transformer: store.IDTransformer("id", nil)})
	s.Handle("bsq", res.Collection, store.QueryHandler{QueryStore: qs, Transformer: store.IDToRIDCollectionTransformer(func(id string) string { return "test.bs." + id }),
		QueryRequestHandler: func(rname string, pp map[string]string, q url.Values) (url.Values, string, error) {
			if os.Getenv("VERIF_RACER_DEBUG") != "" {
				fmt.Println("RACER-DEBUG qrh1", time.Now().UnixNano()/1000%100000000)
			}
			time.Sleep(40 * time.Microsecond)
			return url.Values{"p": {q.Get("p")}}, "p=" + q.Get("p"), nil
		}})
	// a second query resource on the same query store, in another worker group
	s.Handle("bsq2", res.Collection, store.QueryHandler{QueryStore: qs, Transformer: store.IDToRIDCollectionTransformer(func(id string) string { return "test.bs." + id }),
		QueryRequestHandler: func(rname string, pp map[string]string, q url.Values) (url.Values, string, error) {
			if os.Getenv("VERIF_RACER_DEBUG") != "" {
				fmt.Println("RACER-DEBUG qrh2", time.Now().UnixNano()/1000%100000000)
			}
			time.Sleep(40 * time.Microsecond) // a handler that takes a moment: callbacks of different groups overlap
			return url.Values{"p": {q.Get("p")}, "by": {"parity"}}, "by=parity&p=" + q.Get("p"), nil
		}})
	conn := &quietConn{}
	served := make(chan struct{})
	s.SetOnServe(func(*res.Service) { close(served) })
	done := make(chan error, 1)
	go func() { done <- s.Serve(conn) }()
	select {
	case <-served:
	case <-time.After(5 * time.Second):
		fmt.Println("RACER-ERROR: service did not start")
		return
	}
	conn.mu.Lock()
	var inCh chan *nats.Msg
	if len(conn.subs) > 0 {
		inCh = conn.subs[0].ch
	}
	conn.mu.Unlock()
	var wg sync.WaitGroup
	stop := make(chan struct{})
	goer := func(f func(r *rand.Rand)) {
		wg.Add(1)
		sd := rng.Int63()
		go func() {
			defer wg.Done()
			defer func() { recover() }() // panics are C03's business; here only races count
			f(rand.New(rand.NewSource(sd)))
		}()
	}
	names := []string{"test.r.a", "test.r.b", "test.g.x", "test.g.y", "test.sh.1", "test.sh.2", "test.par.1", "test.ms.1", "test.bs.1", "test.sub.late.1", "test.sub.late.1", "test.sub.x.1"}
	// request delivery (one goroutine: it stands for the NATS client)
	goer(func(r *rand.Rand) {
		for i := 0; i < 150; i++ {
			select {
			case <-stop:
				return
			default:
			}
			n := names[r.Intn(len(names))]
			if r.Intn(4) == 0 {
				// resources no handler matches (answered with system.notFound)
				n = []string{"test.nothing.7", "test.r", "test.g.x.y.z"}[r.Intn(3)]
			}
			var subj string
			switch r.Intn(5) {
			case 0:
				subj = "access." + n
			case 1:
				subj = "get." + n
			case 2:
				subj = "call." + n + ".m"
			case 3:
				subj = "call." + n + ".q"
			default:
				subj = "auth." + n + ".a"
			}
			conn.deliver(inCh, &nats.Msg{Subject: subj, Reply: "inbox.x", Data: []byte(`{"cid":"c1"}`)})
		}
	})
	// query requests on the subjects of the live query events (the gateway's side of a query event): two
	// clients, one for the even and one for the odd subscriptions, so that the query events that one store
	// change fans out to (adjacent subscriptions, different worker groups) are queried at the same time
	for g := 0; g < 2; g++ {
		g := g
		goer(func(r *rand.Rand) {
			sent := map[int]int{}
			for i := 0; i < 20000; i++ {
				select {
				case <-stop:
					return
				default:
				}
				conn.mu.Lock()
				var qsubs []qsub
				for _, sb := range conn.subs {
					if strings.HasPrefix(sb.subject, "_INBOX.") {
						qsubs = append(qsubs, sb)
					}
				}
				conn.mu.Unlock()
				did := false
				for idx := len(qsubs) - 1; idx >= 0 && idx >= len(qsubs)-12; idx-- {
					if idx%2 != g || sent[idx] >= 6 {
						continue
					}
					sb := qsubs[idx]
					k := sent[idx]
					sent[idx]++
					did = true
					conn.deliver(sb.ch, &nats.Msg{Subject: sb.subject, Reply: "inbox.q", Data: []byte(fmt.Sprintf(`{"query":"q=%d&p=%d&by=%s"}`, idx*8+k, k%2, []string{"parity", "name"}[k%2]))})
				}
				if !did {
					time.Sleep(20 * time.Microsecond)
				}
			}
		})
	}
	// query events on parallel resources, started all through the round
	goer(func(r *rand.Rand) {
		for i := 0; i < 25; i++ {
			select {
			case <-stop:
				return
			default:
			}
			conn.deliver(inCh, &nats.Msg{Subject: fmt.Sprintf("call.test.par.%d.q", 1+r.Intn(2)), Reply: "inbox.x", Data: []byte(`{"cid":"c1"}`)})
			time.Sleep(time.Duration(100+r.Intn(300)) * time.Microsecond)
		}
	})
	// With / WithResource / WithGroup from foreign goroutines
	for k := 0; k < 3; k++ {
		goer(func(r *rand.Rand) {
			for i := 0; i < 80; i++ {
				if round%2 == 0 {
					// long rounds: a paced load, so that the work queue stays short and every kind of callback gets to run
					select {
					case <-stop:
						return
					case <-time.After(time.Duration(50+r.Intn(250)) * time.Microsecond):
					}
				}
				n := names[r.Intn(5)]
				switch r.Intn(8) {
				case 3:
					// a callback that stays inside its group for a while (Shutdown and query expiry overlap it)
					pause := time.Duration(300+r.Intn(1500)) * time.Microsecond
					s.With(n, func(rs res.Resource) {
						g := rs.Group()
						touch(g)
						time.Sleep(pause)
						touch(g)
					})
				case 0, 4, 5:
					s.With(n, func(rs res.Resource) { touch(rs.Group()); useKept(rs.Group()) })
				case 1, 6:
					if rs, err := s.Resource(n); err == nil {
						g := rs.Group()
						s.WithResource(rs, func() { touch(g) })
					}
				default:
					g := []string{"grp.x", "shared"}[r.Intn(2)]
					s.WithGroup(g, func(*res.Service) { touch(g) })
				}
			}
		})
	}
	// a handler keeps the Resource value of a request; callbacks of the same group use it while requests for
	// other resources are being served
	goer(func(r *rand.Rand) {
		for i := 0; i < 200; i++ {
			select {
			case <-stop:
				return
			default:
			}
			n := []string{"test.r.a", "test.r.b"}[i%2]
			conn.deliver(inCh, &nats.Msg{Subject: "get." + n, Reply: "inbox.x", Data: []byte(`{"cid":"c1"}`)})
			s.With(n, func(rs res.Resource) { useKept(rs.Group()) })
			conn.deliver(inCh, &nats.Msg{Subject: "get.test.g." + []string{"x", "y"}[i%2], Reply: "inbox.x", Data: []byte(`{"cid":"c1"}`)})
			// several requests for the resource of the handler registered through the mount point, back to back
			for k := 0; k < 3; k++ {
				conn.deliver(inCh, &nats.Msg{Subject: []string{"get.test.sub.late.1", "call.test.sub.late.1.m", "access.test.sub.late.1"}[k], Reply: "inbox.x", Data: []byte(`{"cid":"c1"}`)})
			}
		}
	})
	// a hot group: two goroutines submit a few hundred callbacks each to one group as fast as they can, so that
	// the group's work item lives through long runs of callbacks while new ones keep arriving
	if round%3 == 1 {
		for k := 0; k < 2; k++ {
			goer(func(r *rand.Rand) {
				for i := 0; i < 400; i++ {
					select {
					case <-stop:
						return
					default:
					}
					s.WithGroup("hot", func(*res.Service) { touch("hot") })
				}
			})
		}
	}
	// API calls
	goer(func(r *rand.Rand) {
		for i := 0; i < 60; i++ {
			switch r.Intn(5) {
			case 0:
				s.Reset([]string{"test.>"}, nil)
			case 1:
				s.ResetAll()
			case 2:
				s.TokenEvent("c1", nil)
			case 3:
				s.TokenReset("auth.test.r", "tid")
			default:
				s.TokenEventWithID("c1", "tid", 1)
			}
		}
	})
	// store transactions on foreign goroutines (emit events through the store handlers) and index queries
	for k := 0; k < 2; k++ {
		k := k
		goer(func(r *rand.Rand) {
			for i := 0; i < 400; i++ {
				select {
				case <-stop:
					return
				default:
				}
				if i >= 40 {
					// after the opening burst: paced, so that index maintenance and query events happen all through the life
					time.Sleep(time.Duration(100+r.Intn(300)) * time.Microsecond)
				}
				if i%3 == 0 {
					// this goroutine's own collection: the values differ from write to write
					cid := fmt.Sprintf("col%d", k)
					t := bsc.Write(cid)
					v := []string{"a", "b", "c", "d", "e", "f"}[:1+r.Intn(6)]
					if r.Intn(2) == 0 {
						v = append([]string{fmt.Sprint("x", i)}, v...)
					}
					if t.Create(v) != nil {
						t.Update(v)
					}
					t.Close()
				}
				id := fmt.Sprint(1 + r.Intn(3))
				switch r.Intn(4) {
				case 0:
					t := bs.Write(id)
					if t.Create(item{ID: id, Name: fmt.Sprintf("n%d", r.Intn(4)), N: i}) != nil {
						t.Update(item{ID: id, Name: fmt.Sprintf("n%d", r.Intn(4)), N: i})
					}
					t.Close()
				case 1:
					t := bs.Write(id)
					t.Delete()
					t.Close()
				case 2:
					t := bs.Read(id)
					t.Value()
					t.Exists()
					t.Close()
					qs.Query(url.Values{"p": {"n"}})
				default:
					if k == 0 {
						t := ms.Write("test.ms.1")
						t.Update(map[string]interface{}{"n": i})
						t.Close()
					} else {
						qs.Flush()
					}
				}
			}
		})
	}
	// Shutdown at a random moment
	if round%2 == 0 {
		// a longer life: the slower goroutines (store transactions, query traffic) get their turn
		time.Sleep(time.Duration(8000+rng.Intn(15000)) * time.Microsecond)
	} else {
		time.Sleep(time.Duration(rng.Intn(3000)) * time.Microsecond)
	}
	if os.Getenv("VERIF_RACER_DEBUG") != "" && round%3 == 0 {
		buf := make([]byte, 1<<20)
		buf = buf[:runtime.Stack(buf, true)]
		for _, blk := range strings.Split(string(buf), "\n\n") {
			if strings.Contains(blk, "queryHandler") || strings.Contains(blk, "handleQueryRequest") {
				fmt.Println("RACER-STACK", strings.ReplaceAll(blk, "\n", " | ")[:min(1500, len(blk))])
			}
		}
	}
	s.Shutdown()
	close(stop)
	select {
	case <-done:
	case <-time.After(5 * time.Second):
		fmt.Println("RACER-ERROR: Serve did not return")
	}
	wg.Wait()
	qs.Flush()
	time.Sleep(3 * time.Millisecond) // let query-event timers fire
}

var reRaceSplit = regexp.MustCompile(`(?m)^==================\n`)

// Run is the parent side: it runs the -race binary with several seeds and reads its reports.
func Run(c *core.Ctx) {
	c.SetLevel("exploration")
	c.Assume("the verdict is the Go race detector's: it reports only races that happen in the explored executions")
	c.Assume("instrumentation hooks in race runs perform no synchronisation (they only yield or sleep), so they cannot hide a race; harness callbacks touch per-group memory without synchronisation")
	exe := filepath.Join(core.VerifDir, "bin", "engine-race")
	if _, err := os.Stat(exe); err != nil {
		c.Inconclusive("race binary missing: %v", err)
		return
	}
	procs := c.Pick(8, 16)
	rounds := c.Pick(6, 40)
	type outT struct {
		seed int64
		out  string
		err  error
	}
	outs := make([]outT, procs)
	var wg sync.WaitGroup
	for i := 0; i < procs; i++ {
		wg.Add(1)
		go func(i int) {
			defer wg.Done()
			seed := c.Seed*100 + int64(i)
			cmd := exec.Command(exe, "__race", fmt.Sprint(seed), fmt.Sprint(rounds))
			cmd.Env = append(os.Environ(), "GORACE=halt_on_error=0 exitcode=0 history_size=3")
			var buf bytes.Buffer
			cmd.Stdout = &buf
			cmd.Stderr = &buf
			done := make(chan error, 1)
			cmd.Start()
			go func() { done <- cmd.Wait() }()
			select {
			case err := <-done:
				outs[i] = outT{seed, buf.String(), err}
			case <-time.After(time.Duration(60+rounds*10) * time.Second):
				cmd.Process.Kill()
				<-done
				outs[i] = outT{seed, buf.String(), fmt.Errorf("timeout")}
			}
		}(i)
	}
	wg.Wait()
	reports := 0
	distinct := map[string]bool{}
	completed := 0
	for _, o := range outs {
		if strings.Contains(o.out, "race child done") {
			completed++
		} else {
			c.Inconclusive("race child seed %d did not finish: %v: %s", o.seed, o.err, tail(o.out, 400))
		}
		for _, blk := range reRaceSplit.Split(o.out, -1) {
			if !strings.Contains(blk, "WARNING: DATA RACE") {
				continue
			}
			reports++
			site := raceSite(blk)
			if site == "" {
				continue // no go-res frame on top of either access: a dependency's business
			}
			if distinct[site] {
				continue
			}
			distinct[site] = true
			c.Violate(core.Violation{Signature: map[string]string{"engine": "racer", "kind": "data-race", "site": site},
				Text: "data race reported by the Go race detector at " + site, Replay: map[string]interface{}{"seed": o.seed, "rounds": rounds, "report": blk}})
		}
	}
	c.Cover("evaluations", procs*rounds)
	c.Cover("distinct_nontrivial", procs*rounds)
	c.Cover("race_reports", reports)
	c.Cover("children_completed", completed)
	c.Cover("rule", fmt.Sprintf("%d processes x %d rounds; each round builds a service (requests of all types for 9 resources incl. store-backed and query resources, With/WithResource/WithGroup from 3 goroutines, Reset/ResetAll/Token* calls, store transactions and index queries from 2 goroutines, query events, Shutdown at a random moment) in a -race binary with yield-only hooks; rounds are distinct by seed", procs, rounds))
	c.Sample(map[string]interface{}{"seed": outs[0].seed, "rounds": rounds, "output_tail": tail(outs[0].out, 300)})
}

// raceSite names the two access sites of a report when the race concerns go-res: an access site is
// the first frame of an access stack that is not in the Go runtime / standard library; the report
// counts when a site is inside go-res, or is the harness' TouchGroupMemory (user memory that only
// callbacks of one group touch - a race there means the library did not order those callbacks).
var reFrameFile = regexp.MustCompile(`^\s+(/\S+):(\d+)`)

func raceSite(blk string) string {
	lines := strings.Split(blk, "\n")
	var sites []string
	relevant := false
	for i := 0; i < len(lines); i++ {
		l := lines[i]
		if !(strings.HasPrefix(l, "Read at") || strings.HasPrefix(l, "Write at") || strings.HasPrefix(l, "Previous read at") || strings.HasPrefix(l, "Previous write at") || strings.Contains(l, "atomic") && strings.Contains(l, " at 0x")) {
			continue
		}
		// frames follow as pairs: function line, then "      file:line +0x.."
		for j := i + 1; j+1 < len(lines) && strings.TrimSpace(lines[j]) != ""; j += 2 {
			fn := strings.TrimSpace(lines[j])
			m := reFrameFile.FindStringSubmatch(lines[j+1])
			if m == nil {
				break
			}
			file := m[1]
			if strings.HasPrefix(file, "/usr/lib/go") || strings.Contains(file, "/go/pkg/mod/golang.org") {
				continue
			}
			site := strings.TrimPrefix(file, core.RepoDir+"/") + ":" + m[2]
			if strings.HasPrefix(file, core.RepoDir+"/") {
				relevant = true
			} else if strings.Contains(fn, "TouchGroupMemory") {
				relevant = true
				site = "user-group-memory"
			} else {
				site = "other:" + filepath.Base(file)
			}
			sites = append(sites, site)
			break
		}
	}
	if !relevant || len(sites) == 0 {
		return ""
	}
	return strings.Join(sites, " <-> ")
}

func tail(s string, n int) string {
	if len(s) > n {
		return s[len(s)-n:]
	}
	return s
}

// Package legacy is the C20 engine: resources backed by the deprecated
// BadgerDB middleware (both packages) receive random event histories from With
// callbacks on a real service; per event the harness records what was
// published, what listeners received and what get / Value() serve afterwards,
// and what get serves after the database was closed and reopened. TLC judges
// each history against the fold ResLegacy.tla.
package legacy

import (
	"encoding/json"
	"fmt"
	"math/rand"
	"os"
	"sort"
	"strings"
	"sync"
	"time"

	"github.com/dgraph-io/badger"
	res "github.com/jirenius/go-res"
	"github.com/jirenius/go-res/middleware"
	"github.com/jirenius/go-res/middleware/resbadger"

	"verif/internal/core"
	"verif/internal/rconn"
)

type rec = map[string]interface{}

type lcfg struct {
	pkg   string // middleware | resbadger
	typ   string // model | collection
	def   bool
	index bool // resbadger model with an index set
	typed bool // resbadger model with a struct Type (declares only the property "a")
}

// typedModel is the Type of the typed configuration: Value() and the index callbacks see values of this
// type; what is stored and served stays the full JSON the events produced.
type typedModel struct {
	A interface{} `json:"a,omitempty"`
}

func (c lcfg) String() string {
	if c.typed {
		return fmt.Sprintf("%s/%s/default=%v/index=%v/typed", c.pkg, c.typ, c.def, c.index)
	}
	return fmt.Sprintf("%s/%s/default=%v/index=%v", c.pkg, c.typ, c.def, c.index)
}

func canon(v interface{}) string {
	b, err := json.Marshal(v)
	if err != nil {
		return "!unmarshalable"
	}
	var x interface{}
	json.Unmarshal(b, &x)
	b, _ = json.Marshal(x)
	if string(b) == `{"action":"delete"}` {
		return "DELETE"
	}
	return string(b)
}

func absResource(typ string, raw interface{}) rec {
	if raw == nil {
		return rec{"t": "missing"}
	}
	b, err := json.Marshal(raw)
	if err != nil {
		return rec{"t": "bad"}
	}
	if typ == "model" {
		var m map[string]json.RawMessage
		if json.Unmarshal(b, &m) != nil || m == nil {
			return rec{"t": "bad"}
		}
		keys := make([]string, 0, len(m))
		for k := range m {
			keys = append(keys, k)
		}
		sort.Strings(keys)
		ps := [][]string{}
		for _, k := range keys {
			ps = append(ps, []string{k, canon(m[k])})
		}
		return rec{"t": "model", "m": ps}
	}
	var c []json.RawMessage
	if json.Unmarshal(b, &c) != nil || c == nil {
		return rec{"t": "bad"} // (null is not a collection: an empty one is [])
	}
	out := []string{}
	for _, e := range c {
		out = append(out, canon(e))
	}
	return rec{"t": "collection", "c": out}
}

type world struct {
	lval    interface{}
	lvalErr error
	lvalSet bool
	nperf   int
	cfg     lcfg
	dir     string
	db      *badger.DB
	s       *res.Service
	conn    *rconn.Conn
	done    chan error
	rq      chan string
	lmu     sync.Mutex
	lastEv  *res.Event
	inboxN  int
	rname   string
	defVal  interface{}
	defAbs  rec
	started bool
	pattern string // resource pattern ("res" unless set)
	workers int    // worker count (1 unless set)
}

func (w *world) open() error {
	opts := badger.DefaultOptions(w.dir)
	opts.Logger = nil
	db, err := badger.Open(opts)
	if err != nil {
		return err
	}
	w.db = db
	s := res.NewService("test")
	s.SetLogger(nil)
	if w.pattern == "" {
		w.pattern = "res"
	}
	if w.workers == 0 {
		w.workers = 1
	}
	s.SetWorkerCount(w.workers)
	w.defVal = nil
	w.defAbs = rec{"t": "missing"}
	if w.cfg.def {
		if w.cfg.typ == "model" {
			w.defVal = map[string]interface{}{"a": float64(1)}
		} else {
			w.defVal = []interface{}{"d1"}
		}
		w.defAbs = absResource(w.cfg.typ, w.defVal)
	}
	var opt res.Option
	if w.cfg.pkg == "middleware" {
		m := middleware.BadgerDB{DB: db}
		if w.defVal != nil {
			m = m.WithDefault(w.defVal)
		}
		opt = m
	} else {
		b := resbadger.BadgerDB{DB: db}
		if w.cfg.typ == "model" {
			m := b.Model()
			if w.defVal != nil {
				m = m.WithDefault(w.defVal)
			}
			if w.cfg.typed {
				m = m.WithType(typedModel{})
			}
			if w.cfg.index {
				m = m.WithIndexSet(&resbadger.IndexSet{Indexes: []resbadger.Index{{Name: "ia", Key: func(v interface{}) []byte {
					switch x := v.(type) {
					case map[string]interface{}:
						return []byte(fmt.Sprint(x["a"]))
					case typedModel:
						return []byte(fmt.Sprint(x.A))
					case *typedModel:
						return []byte(fmt.Sprint(x.A))
					}
					return nil
				}}}})
			}
			opt = m
		} else {
			cc := b.Collection()
			if w.defVal != nil {
				cc = cc.WithDefault(w.defVal)
			}
			opt = cc
		}
	}
	w.rname = "test.res"
	var typ res.Option = res.Model
	if w.cfg.typ == "collection" {
		typ = res.Collection
	}
	var pv interface{}
	if w.cfg.pkg == "middleware" {
		pv = core.Catch(func() { s.Handle(w.pattern, typ, opt) })
	} else {
		pv = core.Catch(func() { s.Handle(w.pattern, opt) })
	}
	if pv != nil {
		db.Close()
		return fmt.Errorf("Handle panicked: %v", pv)
	}
	s.AddListener(w.pattern, func(ev *res.Event) {
		// the listener also asks the resource for its value: the event has been applied by now
		lv, lerr := ev.Resource.Value()
		w.lmu.Lock()
		w.lastEv = ev
		w.lval, w.lvalErr, w.lvalSet = lv, lerr, true
		w.lmu.Unlock()
	})
	w.s = s
	w.conn = rconn.New(nil)
	w.done = make(chan error, 1)
	w.rq = make(chan string, 64)
	res.VerifHook = func(p string, a ...interface{}) {
		if p == "rq.done" && len(a) > 1 {
			select {
			case w.rq <- fmt.Sprint(a[1]):
			default:
			}
		}
	}
	served := make(chan struct{})
	s.SetOnServe(func(*res.Service) { close(served) })
	go func() { w.done <- s.Serve(w.conn) }()
	select {
	case <-served:
	case <-time.After(3 * time.Second):
		return fmt.Errorf("service did not start")
	}
	return nil
}

func (w *world) shut() {
	w.s.Shutdown()
	select {
	case <-w.done:
	case <-time.After(3 * time.Second):
	}
	res.VerifHook = nil
	w.db.Close()
}

func (w *world) get() (rec, error) { return w.getName(w.rname) }

func (w *world) getName(rname string) (rec, error) {
	w.inboxN++
	inbox := fmt.Sprintf("inbox.l%d", w.inboxN)
	if n, err := w.conn.Deliver("get."+rname, inbox, nil); n != 1 || err != nil {
		return nil, fmt.Errorf("get delivered %d times: %v", n, err)
	}
	deadline := time.After(3 * time.Second)
	for {
		select {
		case r := <-w.rq:
			if r != inbox {
				continue
			}
		case <-deadline:
			return nil, fmt.Errorf("get not processed")
		}
		break
	}
	ms := w.conn.PubsOn(inbox)
	if len(ms) != 1 {
		return nil, fmt.Errorf("get answered %d times", len(ms))
	}
	return parseGet(ms[0].Data)
}

// getParallel is getName for gets made by several goroutines at once: it waits for the response itself.
func (w *world) getParallel(rname, inbox string) (rec, error) {
	if n, err := w.conn.Deliver("get."+rname, inbox, nil); n != 1 || err != nil {
		return nil, fmt.Errorf("get delivered %d times: %v", n, err)
	}
	for t := 0; t < 3000; t++ {
		if ms := w.conn.PubsOn(inbox); len(ms) > 0 {
			return parseGet(ms[0].Data)
		}
		time.Sleep(time.Millisecond)
	}
	return nil, fmt.Errorf("get not answered")
}

func parseGet(data []byte) (rec, error) {
	ms := []struct{ Data []byte }{{data}}
	var resp struct {
		Result *struct {
			Model      json.RawMessage `json:"model"`
			Collection json.RawMessage `json:"collection"`
		} `json:"result"`
		Error *struct {
			Code string `json:"code"`
		} `json:"error"`
	}
	if json.Unmarshal(ms[0].Data, &resp) != nil {
		return nil, fmt.Errorf("bad get response %s", ms[0].Data)
	}
	if resp.Error != nil {
		if resp.Error.Code == "system.notFound" {
			return rec{"t": "missing"}, nil
		}
		return rec{"t": "bad", "dbg": string(ms[0].Data)}, nil
	}
	if resp.Result != nil && resp.Result.Model != nil {
		return absResource("model", resp.Result.Model), nil
	}
	if resp.Result != nil && resp.Result.Collection != nil {
		return absResource("collection", resp.Result.Collection), nil
	}
	return rec{"t": "bad", "dbg": string(ms[0].Data)}, nil
}

var lvals = []interface{}{float64(1), float64(2), "x", nil, true}

// event performs one random event inside a With callback and records it.
func (w *world) event(rng *rand.Rand) (rec, error) {
	e, do := w.genEvent(rng)
	return w.perform(e, do)
}

// genEvent draws one event: its description for the reference and the call that performs it.
func (w *world) genEvent(rng *rand.Rand) (rec, func(r res.Resource)) {
	e := rec{"ev": "", "vals": [][]string{}, "v": "", "idx": 0, "data": rec{"t": "missing"}, "pub": false, "old": [][]string{}, "hasdata": false, "datajudged": false, "deleted": rec{"t": "missing"}}
	var do func(r res.Resource)
	if w.cfg.typ == "model" {
		switch rng.Intn(6) {
		case 0:
			e["ev"] = "create"
			data := map[string]interface{}{"b": lvals[rng.Intn(len(lvals))]}
			e["data"] = absResource("model", data)
			do = func(r res.Resource) { r.CreateEvent(data) }
		case 1:
			e["ev"] = "delete"
			do = func(r res.Resource) { r.DeleteEvent() }
		default:
			e["ev"] = "change"
			ch := map[string]interface{}{}
			n := 1 + rng.Intn(2)
			if rng.Intn(5) == 0 {
				// a change that takes the model back to exactly what the default is (when there is one)
				ch = map[string]interface{}{"a": float64(1), "b": res.DeleteAction, "c": res.DeleteAction}
				n = 0
			}
			for i := 0; i < n; i++ {
				k := []string{"a", "b", "c"}[rng.Intn(3)]
				if rng.Intn(4) == 0 {
					ch[k] = res.DeleteAction
				} else {
					ch[k] = lvals[rng.Intn(len(lvals))]
				}
			}
			keys := make([]string, 0, len(ch))
			for k := range ch {
				keys = append(keys, k)
			}
			sort.Strings(keys)
			vals := [][]string{}
			for _, k := range keys {
				vals = append(vals, []string{k, canon(ch[k])})
			}
			e["vals"] = vals
			do = func(r res.Resource) { r.ChangeEvent(ch) }
		}
	} else {
		switch rng.Intn(6) {
		case 0:
			e["ev"] = "create"
			data := []interface{}{lvals[rng.Intn(len(lvals))]}
			e["data"] = absResource("collection", data)
			do = func(r res.Resource) { r.CreateEvent(data) }
		case 1:
			e["ev"] = "delete"
			do = func(r res.Resource) { r.DeleteEvent() }
		case 2, 3:
			e["ev"] = "remove"
			idx := rng.Intn(4)
			e["idx"] = idx
			do = func(r res.Resource) { r.RemoveEvent(idx) }
		default:
			e["ev"] = "add"
			idx := rng.Intn(4)
			v := lvals[rng.Intn(len(lvals))]
			e["idx"] = idx
			e["v"] = canon(v)
			do = func(r res.Resource) { r.AddEvent(v, idx) }
		}
	}
	return e, do
}

// perform executes the event inside a With callback and records what was published, handed to listeners and served.
func (w *world) perform(e rec, do func(r res.Resource)) (rec, error) {
	from := len(w.conn.Pubs())
	w.lmu.Lock()
	w.lastEv = nil
	w.lvalSet = false
	w.lmu.Unlock()
	var value interface{}
	var valErr error
	doneCh := make(chan struct{})
	w.nperf++
	preRead := w.nperf%2 == 0
	err := w.s.With(w.rname, func(r res.Resource) {
		defer close(doneCh)
		if preRead {
			r.Value() // the handler looks at the current value first (as the package examples do)
		}
		core.Catch(func() { do(r) })
		value, valErr = r.Value()
	})
	if err != nil {
		return nil, err
	}
	select {
	case <-doneCh:
	case <-time.After(3 * time.Second):
		return nil, fmt.Errorf("With callback did not run")
	}
	for _, m := range w.conn.Pubs()[from:] {
		if m.Subject == "event."+w.rname+"."+fmt.Sprint(e["ev"]) {
			e["pub"] = true
		} else if strings.HasPrefix(m.Subject, "event."+w.rname+".") {
			e["pub"] = true
			e["ev2"] = m.Subject
		}
	}
	e["datajudged"] = !w.cfg.typed
	w.lmu.Lock()
	if w.lastEv != nil {
		if w.lastEv.Name == "change" {
			keys := make([]string, 0, len(w.lastEv.OldValues))
			for k := range w.lastEv.OldValues {
				keys = append(keys, k)
			}
			sort.Strings(keys)
			old := [][]string{}
			for _, k := range keys {
				old = append(old, []string{k, canon(w.lastEv.OldValues[k])})
			}
			e["old"] = old
		}
		if w.lastEv.Name == "delete" && w.lastEv.Data != nil {
			if rm, ok := w.lastEv.Data.(json.RawMessage); (!ok || len(rm) > 0) && !w.cfg.typed {
				// (with a struct Type the listener gets a value of that type, a projection of what was stored)
				e["hasdata"] = true
				e["deleted"] = absResource(w.cfg.typ, w.lastEv.Data)
			}
		}
	}
	w.lmu.Unlock()
	if valErr != nil {
		if re, ok := valErr.(*res.Error); ok && re.Code == res.CodeNotFound {
			e["value"] = rec{"t": "missing"}
		} else {
			e["value"] = rec{"t": "bad", "dbg": valErr.Error()}
		}
	} else {
		e["value"] = absResource(w.cfg.typ, value)
		// what the listener got from ev.Resource.Value() while the event was being sent is that value too
		w.lmu.Lock()
		if w.lvalSet && w.lvalErr == nil && !w.cfg.typed {
			if lv := absResource(w.cfg.typ, w.lval); fmt.Sprint(lv) != fmt.Sprint(e["value"]) {
				e["value"] = rec{"t": "bad", "dbg": fmt.Sprintf("a listener's ev.Resource.Value() gave %v during the event, Value() after it gives %v", lv, e["value"])}
			}
		}
		w.lmu.Unlock()
		if w.cfg.typed {
			e["value"] = nil // Value() is of the declared type (a projection): only get is compared, see below
		}
	}
	served, err := w.get()
	if err != nil {
		return nil, err
	}
	e["served"] = served
	if e["value"] == nil {
		e["value"] = served
	}
	return e, nil
}

func history(cfg lcfg, seed int64, n int) (rec, error) {
	dir, err := os.MkdirTemp("", "vlegacy-")
	if err != nil {
		return nil, err
	}
	defer os.RemoveAll(dir)
	w := &world{cfg: cfg, dir: dir}
	if err := w.open(); err != nil {
		return nil, err
	}
	rng := rand.New(rand.NewSource(seed))
	evs := []rec{}
	var last rec = rec{"t": "missing"}
	if cfg.def {
		last = w.defAbs
	}
	for i := 0; i < n; i++ {
		var e rec
		var err error
		if k := len(evs); k > 0 && evs[k-1]["ev"] == "change" && len(evs[k-1]["vals"].([][]string)) == 3 && rng.Intn(2) == 0 {
			// the resource was just taken back to its default content: delete it now
			d := rec{"ev": "delete", "vals": [][]string{}, "v": "", "idx": 0, "data": rec{"t": "missing"}, "pub": false, "old": [][]string{}, "hasdata": false, "datajudged": false, "deleted": rec{"t": "missing"}}
			e, err = w.perform(d, func(r res.Resource) { r.DeleteEvent() })
		} else {
			e, err = w.event(rng)
		}
		if err != nil {
			w.shut()
			return nil, err
		}
		evs = append(evs, e)
		last = e["served"].(rec)
	}
	def := w.defAbs
	w.shut()
	if err := w.open(); err != nil {
		return nil, fmt.Errorf("reopen: %v", err)
	}
	reopened, err := w.get()
	w.shut()
	if err != nil {
		return nil, err
	}
	return rec{"upto": 0, "def": def, "evs": evs, "last": last, "reopened": reopened, "dbg": fmt.Sprintf("%s seed %d", cfg, seed)}, nil
}

// concurrentHistory applies independent event histories to several resources of one pattern at the same
// time (one goroutine per resource, several workers) and records, per resource, the events and what is
// served in the end and after reopening: the fold must not depend on what happens to other resources.
func concurrentHistory(cfg lcfg, seed int64, nres, nev int) ([]rec, error) {
	dir, err := os.MkdirTemp("", "vlegacyc-")
	if err != nil {
		return nil, err
	}
	defer os.RemoveAll(dir)
	w := &world{cfg: cfg, dir: dir, pattern: "res.$id", workers: 16}
	if err := w.open(); err != nil {
		return nil, err
	}
	evs := make([][]rec, nres)
	var wg sync.WaitGroup
	errs := make([]error, nres)
	for i := 0; i < nres; i++ {
		wg.Add(1)
		go func(i int) {
			defer wg.Done()
			rng := rand.New(rand.NewSource(seed*100 + int64(i)))
			rname := fmt.Sprintf("test.res.%d", i)
			for k := 0; k < nev; k++ {
				e, do := w.genEvent(rng)
				doneCh := make(chan struct{})
				if err := w.s.With(rname, func(r res.Resource) {
					defer close(doneCh)
					core.Catch(func() { do(r) })
				}); err != nil {
					errs[i] = err
					return
				}
				select {
				case <-doneCh:
				case <-time.After(5 * time.Second):
					errs[i] = fmt.Errorf("With callback on %s did not run", rname)
					return
				}
				evs[i] = append(evs[i], e)
			}
		}(i)
	}
	wg.Wait()
	for _, e := range errs {
		if e != nil {
			w.shut()
			return nil, e
		}
	}
	finals := make([]rec, nres)
	for i := range finals {
		if finals[i], err = w.getName(fmt.Sprintf("test.res.%d", i)); err != nil {
			w.shut()
			return nil, err
		}
	}
	// all resources read at the same time, several times: every reader gets its own resource's value
	reads := make([][]rec, nres)
	var rwg sync.WaitGroup
	const perRes = 250
	for i := 0; i < nres; i++ {
		rwg.Add(1)
		go func(i int) {
			defer rwg.Done()
			// the requests are all sent before the first answer is looked at: the workers are kept busy with gets
			// of different resources
			for k := 0; k < perRes; k++ {
				w.conn.Deliver(fmt.Sprintf("get.test.res.%d", i), fmt.Sprintf("inbox.par%d_%d", i, k), nil)
			}
			for k := 0; k < perRes; k++ {
				inbox := fmt.Sprintf("inbox.par%d_%d", i, k)
				for t := 0; t < 3000; t++ {
					if ms := w.conn.PubsOn(inbox); len(ms) > 0 {
						if r, err := parseGet(ms[0].Data); err == nil {
							reads[i] = append(reads[i], r)
						} else {
							reads[i] = append(reads[i], rec{"t": "bad", "dbg": err.Error()})
						}
						break
					}
					time.Sleep(time.Millisecond)
				}
			}
		}(i)
	}
	rwg.Wait()
	def := w.defAbs
	w.shut()
	if err := w.open(); err != nil {
		return nil, fmt.Errorf("reopen: %v", err)
	}
	var out []rec
	for i := range finals {
		reopened, err := w.getName(fmt.Sprintf("test.res.%d", i))
		if err != nil {
			w.shut()
			return nil, err
		}
		es := evs[i]
		if es == nil {
			es = []rec{}
		}
		if reads[i] == nil {
			reads[i] = []rec{}
		}
		out = append(out, rec{"upto": 99999, "def": def, "evs": es, "last": finals[i], "reopened": reopened, "reads": reads[i],
			"dbg": fmt.Sprintf("%s seed %d: resource %d of %d changed concurrently", cfg, seed, i, nres)})
	}
	w.shut()
	return out, nil
}

// Run executes the C20 check.
func Run(c *core.Ctx) {
	c.SetLevel("model_checking")
	c.Assume("values are canonical JSON texts; the removed value of a remove event is not part of the property (the middleware does not report it)")
	core.ModelMustHold(c, core.ModelCheck(c, "MCLegacy", "MCLegacy.cfg", core.TLCOpts{}), "MCLegacy")
	var cfgs []lcfg
	for _, pkg := range []string{"middleware", "resbadger"} {
		for _, typ := range []string{"model", "collection"} {
			for _, def := range []bool{false, true} {
				cfgs = append(cfgs, lcfg{pkg: pkg, typ: typ, def: def})
			}
		}
	}
	cfgs = append(cfgs, lcfg{pkg: "resbadger", typ: "model", index: true}, lcfg{pkg: "resbadger", typ: "model", def: true, index: true},
		lcfg{pkg: "resbadger", typ: "model", index: true, typed: true}, lcfg{pkg: "resbadger", typ: "model", typed: true})
	var recs []interface{}
	for ci, cfg := range cfgs {
		for h := 0; h < c.Pick(6, 60); h++ {
			r, err := history(cfg, c.Seed*1000+int64(ci*100+h), 6+h%7)
			if err != nil {
				c.Violate(core.Violation{Signature: map[string]string{"engine": "legacy", "kind": "harness:" + cfg.String()}, Text: err.Error(), Replay: cfg.String()})
				continue
			}
			recs = append(recs, r)
		}
	}
	// several resources of one pattern changed at the same time
	nconc := 0
	for ci, cfg := range cfgs {
		if cfg.index {
			continue
		}
		for h := 0; h < c.Pick(1, 6); h++ {
			rs, err := concurrentHistory(cfg, c.Seed*77+int64(ci*10+h), c.Pick(8, 24), 12)
			if err != nil {
				c.Violate(core.Violation{Signature: map[string]string{"engine": "legacy", "kind": "harness:" + cfg.String()}, Text: err.Error(), Replay: cfg.String()})
				continue
			}
			for _, r := range rs {
				recs = append(recs, r)
				nconc++
			}
		}
	}
	c.Cover("resources_changed_concurrently", nconc)
	var bad []int
	core.CheckRecords(c, "TraceLegacy", "TraceLegacy.cfg", recs, nil, func(i int, r interface{}, inv string) { bad = append(bad, i) })
	if len(bad) > 0 {
		var recs2 []interface{}
		var src, upto []int
		for _, i := range bad {
			h := recs[i].(rec)
			if h["upto"] == 99999 {
				c.Violate(core.Violation{Signature: map[string]string{"engine": "legacy", "kind": "concurrent:" + strings.SplitN(fmt.Sprint(h["dbg"]), " ", 2)[0]},
					Text: fmt.Sprintf("after %d events get serves %v (after reopening %v), which is not the fold of the resource's events [%v]", len(h["evs"].([]rec)), h["last"], h["reopened"], h["dbg"]), Replay: h})
				continue
			}
			n := len(h["evs"].([]rec))
			for k := 1; k <= n; k++ {
				r2 := rec{}
				for kk, v := range h {
					r2[kk] = v
				}
				r2["upto"] = k
				recs2 = append(recs2, r2)
				src = append(src, i)
				upto = append(upto, k)
			}
		}
		first := map[int]int{}
		core.CheckRecords(c, "TraceLegacy", "TraceLegacy.cfg", recs2, nil, func(j int, r interface{}, inv string) {
			if cur, ok := first[src[j]]; !ok || upto[j] < cur {
				first[src[j]] = upto[j]
			}
		})
		for _, i := range bad {
			h := recs[i].(rec)
			if h["upto"] == 99999 {
				continue
			}
			evs := h["evs"].([]rec)
			k := first[i]
			if k == 0 {
				c.Violate(core.Violation{Signature: map[string]string{"engine": "legacy", "kind": "reopen"}, Text: fmt.Sprintf("after closing and reopening the database get serves %v, before it served %v [%v]", h["reopened"], h["last"], h["dbg"]), Replay: h})
				continue
			}
			e := evs[k-1]
			c.Violate(core.Violation{Signature: map[string]string{"engine": "legacy", "kind": fmt.Sprintf("%v:%v", e["ev"], strings.SplitN(fmt.Sprint(h["dbg"]), " ", 2)[0])},
				Text: fmt.Sprintf("event %d %v deviates from the fold (published=%v old=%v served=%v value=%v) [%v]", k, e["ev"], e["pub"], e["old"], e["served"], e["value"], h["dbg"]), Replay: h})
		}
	}
	c.Cover("traces_validated_against_impl", len(recs))
	c.Cover("evaluations", len(recs))
	c.Cover("rule", "random event histories (6-12 change/add/remove/create/delete events with in-range and out-of-range indexes, delete actions, creates on existing resources) from With callbacks on 10 configurations (middleware.BadgerDB and resbadger Model/Collection x default x index set) on a real BadgerDB; per event: published?, listener old values / deleted data, get response, Value(); after the history the database is closed and reopened; one record per history judged by TLC (TraceLegacy.HistoryOK = ResLegacy.LFirstBad)")
	if len(recs) > 0 {
		c.Sample(recs[0])
	}
}

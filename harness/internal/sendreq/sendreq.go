// Package sendreq is the C19 engine: resprot.SendRequest is called over a real
// NATS connection (embedded server) while a responder plays inbox scripts
// (pre-responses, responses, silences on a coarse time grid) and connection
// operations are made to fail; outcome, reported extensions, promptness of
// failures and release of the inbox subscription are recorded and judged by
// TLC against ResSendReq.tla.
package sendreq

import (
	"fmt"
	"math/rand"
	"sync"
	"sync/atomic"
	"time"

	res "github.com/jirenius/go-res"
	"github.com/jirenius/go-res/resprot"
	"github.com/nats-io/nats-server/v2/server"
	nats "github.com/nats-io/nats.go"

	"verif/internal/core"
)

type rec = map[string]interface{}

const tick = 100 * time.Millisecond

// failConn delegates to a real connection but fails chosen operations.
type failConn struct {
	*nats.Conn
	failSub, failPub bool
}

func (c *failConn) ChanSubscribe(subject string, ch chan *nats.Msg) (*nats.Subscription, error) {
	if c.failSub {
		return nil, fmt.Errorf("subscribe refused")
	}
	return c.Conn.ChanSubscribe(subject, ch)
}
func (c *failConn) PublishRequest(subject, reply string, data []byte) error {
	if c.failPub {
		return fmt.Errorf("publish refused")
	}
	return c.Conn.PublishRequest(subject, reply, data)
}

type scriptEv []interface{}

// scriptedConn is a res.Conn that is not NATS: every message of the script is handed to the channel
// the caller subscribed with, by blocking sends of a responder goroutine (like restest.MockConn) -
// also the messages that follow the one SendRequest returned with.
type scriptedConn struct {
	mu    sync.Mutex
	subs  map[string]chan *nats.Msg
	burst [][]byte
}

func (c *scriptedConn) Publish(string, []byte) error { return nil }
func (c *scriptedConn) ChanSubscribe(subject string, ch chan *nats.Msg) (*nats.Subscription, error) {
	c.mu.Lock()
	c.subs[subject] = ch
	c.mu.Unlock()
	return &nats.Subscription{Subject: subject}, nil
}
func (c *scriptedConn) ChanQueueSubscribe(subject, q string, ch chan *nats.Msg) (*nats.Subscription, error) {
	return c.ChanSubscribe(subject, ch)
}
func (c *scriptedConn) Close() {}
func (c *scriptedConn) PublishRequest(subject, reply string, data []byte) error {
	c.mu.Lock()
	ch := c.subs[reply]
	msgs := c.burst
	c.mu.Unlock()
	go func() {
		for _, m := range msgs {
			select {
			case ch <- &nats.Msg{Subject: reply, Data: m}:
			case <-time.After(300 * time.Millisecond):
				return
			}
		}
	}()
	return nil
}

// echoConn answers every request with a result that carries the request's payload, on the reply subject it was
// published with, and counts how often each inbox subject was subscribed to.
type echoConn struct {
	mu    sync.Mutex
	subs  map[string]chan *nats.Msg
	count map[string]int
}

func (c *echoConn) Publish(string, []byte) error { return nil }
func (c *echoConn) Close()                       {}
func (c *echoConn) ChanSubscribe(subject string, ch chan *nats.Msg) (*nats.Subscription, error) {
	c.mu.Lock()
	c.subs[subject] = ch
	c.count[subject]++
	c.mu.Unlock()
	return &nats.Subscription{Subject: subject}, nil
}
func (c *echoConn) ChanQueueSubscribe(subject, q string, ch chan *nats.Msg) (*nats.Subscription, error) {
	return c.ChanSubscribe(subject, ch)
}
func (c *echoConn) PublishRequest(subject, reply string, data []byte) error {
	c.mu.Lock()
	ch := c.subs[reply]
	c.mu.Unlock()
	msg := &nats.Msg{Subject: reply, Data: []byte(`{"result":` + string(data) + `}`)}
	select {
	case ch <- msg:
	default:
		go func() {
			select {
			case ch <- msg:
			case <-time.After(200 * time.Millisecond):
			}
		}()
	}
	return nil
}

// runConcurrentEcho: many goroutines call SendRequest on one connection at the same time. Every call has an inbox
// of its own and returns the response to its own request.
func runConcurrentEcho(procs, each int) rec {
	conn := &echoConn{subs: map[string]chan *nats.Msg{}, count: map[string]int{}}
	var wrong, timeouts int64
	var wg sync.WaitGroup
	for p := 0; p < procs; p++ {
		wg.Add(1)
		go func(p int) {
			defer wg.Done()
			for k := 0; k < each; k++ {
				want := p*1000000 + k
				resp := resprot.SendRequest(conn, "call.test.echo.m", want, 300*time.Millisecond)
				var got int
				switch {
				case resp.HasError() && resp.Error.Code == res.CodeTimeout:
					atomic.AddInt64(&timeouts, 1)
				case resp.HasError() || resp.ParseResult(&got) != nil || got != want:
					atomic.AddInt64(&wrong, 1)
				}
			}
		}(p)
	}
	wg.Wait()
	shared := 0
	conn.mu.Lock()
	for _, n := range conn.count {
		if n > 1 {
			shared++
		}
	}
	conn.mu.Unlock()
	return rec{"judge": "echo", "fail": "", "t0": 0, "script": [][]interface{}{}, "res": "result", "ext": []int{}, "released": true, "fast": true, "elapsed_ticks": 0.0,
		"wrong": wrong, "timeouts": timeouts, "shared": shared,
		"dbg": fmt.Sprintf("%d goroutines x %d concurrent requests on one connection: %d answered with another request's response, %d timed out, %d inbox subjects used more than once", procs, each, wrong, timeouts, shared)}
}

// timedConn delivers a fixed schedule of messages to the inbox of the one request made on it.
type timedConn struct {
	scriptedConn
	at   []time.Duration
	msgs [][]byte
	subd int32
}

func (c *timedConn) ChanSubscribe(subject string, ch chan *nats.Msg) (*nats.Subscription, error) {
	atomic.AddInt32(&c.subd, 1)
	return c.scriptedConn.ChanSubscribe(subject, ch)
}

func (c *timedConn) PublishRequest(subject, reply string, data []byte) error {
	c.mu.Lock()
	ch := c.subs[reply]
	c.mu.Unlock()
	t0 := time.Now()
	go func() {
		for i, m := range c.msgs {
			time.Sleep(time.Until(t0.Add(c.at[i])))
			select {
			case ch <- &nats.Msg{Subject: reply, Data: m}:
			case <-time.After(500 * time.Millisecond):
				return
			}
		}
	}()
	return nil
}

// runBackToBack: a timeout pre-response with the response right behind it. When SendRequest returns the
// response, the extension callbacks have been told about the pre-response that came before it.
func runBackToBack(rep int) rec {
	conn := &timedConn{scriptedConn: scriptedConn{subs: map[string]chan *nats.Msg{}}}
	n := 1 + rep%3
	for i := 0; i < n; i++ {
		conn.at = append(conn.at, 0)
		conn.msgs = append(conn.msgs, []byte(fmt.Sprintf(`timeout:"%d"`, 500+i)))
	}
	conn.at = append(conn.at, 0)
	conn.msgs = append(conn.msgs, []byte(`{"result":{"done":true}}`))
	var ext []int
	var mu sync.Mutex
	resp := resprot.SendRequest(conn, "call.test.b2b.m", nil, time.Second, func(d time.Duration) {
		mu.Lock()
		ext = append(ext, int(d/time.Millisecond))
		mu.Unlock()
	})
	mu.Lock()
	atReturn := append([]int{}, ext...)
	mu.Unlock()
	kind := "result"
	switch {
	case resp.HasError() && resp.Error.Code == res.CodeTimeout:
		kind = "timeout"
	case resp.HasError():
		kind = "error"
	}
	return rec{"judge": "backtoback", "fail": "", "t0": n, "script": [][]interface{}{}, "res": kind, "ext": atReturn, "released": true, "fast": true, "elapsed_ticks": 0.0,
		"dbg": fmt.Sprintf("scripted connection: %d timeout pre-response(s) and the response delivered back to back", n)}
}

// runSlowCallback: the first timeout pre-response announces a short deadline and the extension callback
// it triggers takes longer than that; meanwhile a second pre-response with a long deadline arrives, and
// the response comes well inside it. SendRequest finds, when the callback returns, an expired deadline
// and the second pre-response: it may give up (timeout, one extension reported) or go on (two
// extensions reported) - but once it has restarted the deadline with the long duration and told the
// callbacks so, the response that arrives in time is what it returns.
func runSlowCallback(rep int) rec {
	d1 := time.Duration(20+5*(rep%3)) * time.Millisecond
	conn := &timedConn{scriptedConn: scriptedConn{subs: map[string]chan *nats.Msg{}}}
	conn.at = []time.Duration{0, d1 + d1/2, 8 * d1}
	conn.msgs = [][]byte{[]byte(fmt.Sprintf(`timeout:"%d"`, d1/time.Millisecond)), []byte(`timeout:"2000"`), []byte(`{"result":{"done":true}}`)}
	var ext []int
	var mu sync.Mutex
	resp := resprot.SendRequest(conn, "call.test.slow.m", nil, time.Second, func(d time.Duration) {
		mu.Lock()
		first := len(ext) == 0
		ext = append(ext, int(d/time.Millisecond))
		mu.Unlock()
		if first {
			time.Sleep(3 * d1)
		}
	})
	kind := "result"
	switch {
	case resp.HasError() && resp.Error.Code == res.CodeTimeout:
		kind = "timeout"
	case resp.HasError():
		kind = "error"
	}
	mu.Lock()
	defer mu.Unlock()
	return rec{"judge": "slowcb", "fail": "", "t0": 0, "script": [][]interface{}{}, "res": kind, "ext": append([]int{}, ext...), "released": true, "fast": true, "elapsed_ticks": 0.0,
		"dbg": fmt.Sprintf("scripted connection: pre-response %v at 0, callback takes %v, pre-response 2s at %v, response at %v", d1, 3*d1, d1+d1/2, 8*d1)}
}

// runScriptedPair issues, on one goroutine, a request that is answered by a burst of n responses and then a
// request nobody answers: the second must time out, whatever reached the first one's inbox after it returned.
func runScriptedPair(n int) []rec {
	conn := &scriptedConn{subs: map[string]chan *nats.Msg{}}
	for i := 0; i < n; i++ {
		conn.burst = append(conn.burst, []byte(fmt.Sprintf(`{"result":{"burst":%d}}`, i)))
	}
	classify := func(resp resprot.Response) string {
		switch {
		case resp.HasError() && resp.Error.Code == res.CodeTimeout:
			return "timeout"
		case resp.HasError() && resp.Error.Code == res.CodeInternalError:
			return "internal"
		case resp.HasError():
			return "error"
		case resp.HasResource():
			return "resource"
		}
		return "result"
	}
	first := resprot.SendRequest(conn, "call.test.a.m", nil, 2*tick, nil)
	time.Sleep(5 * time.Millisecond) // the rest of the burst is on its way
	conn.mu.Lock()
	conn.burst = nil
	conn.mu.Unlock()
	t := time.Now()
	second := resprot.SendRequest(conn, "call.test.b.m", nil, tick, nil)
	el := time.Since(t)
	sc1 := [][]interface{}{}
	for i := 0; i < n; i++ {
		sc1 = append(sc1, []interface{}{"resp", "result"})
	}
	return []rec{
		{"fail": "", "t0": 2, "script": sc1, "res": classify(first), "ext": []int{}, "released": true, "fast": true, "elapsed_ticks": 0.0, "dbg": fmt.Sprintf("scripted connection: burst of %d responses", n)},
		{"fail": "", "t0": 1, "script": [][]interface{}{}, "res": classify(second), "ext": []int{}, "released": true, "fast": el < tick/2, "elapsed_ticks": float64(el) / float64(tick), "dbg": fmt.Sprintf("scripted connection: silent request after a request that was answered by a burst of %d responses", n)},
	}
}

func runScript(url string, id int, fail string, t0 int, script []scriptEv) (rec, error) {
	nc, err := nats.Connect(url)
	if err != nil {
		return nil, err
	}
	defer nc.Close()
	rc, err := nats.Connect(url)
	if err != nil {
		return nil, err
	}
	defer rc.Close()
	subject := fmt.Sprintf("call.test.x%d.m", id)
	reqCh := make(chan *nats.Msg, 1)
	if _, err := rc.ChanSubscribe(subject, reqCh); err != nil {
		return nil, err
	}
	rc.Flush()
	// responder: plays the script once the request arrives; deliveries fall between ticks
	var late int32
	respDone := make(chan struct{})
	go func() {
		defer close(respDone)
		var m *nats.Msg
		select {
		case m = <-reqCh:
		case <-time.After(5 * time.Second):
			return
		}
		start := time.Now()
		at := time.Duration(0)
		answered := false
		for k, e := range script {
			switch e[0] {
			case "wait":
				at += time.Duration(e[1].(int)) * tick
				continue
			}
			// Deliveries fall strictly between ticks and never coincide with a deadline: the k-th event of
			// the script is delivered 0.2+0.05k ticks (pre-responses) or 0.6+0.05k ticks (responses) after
			// its tick, so a deadline set by an earlier pre-response (its delivery time + d ticks) lies
			// before any later delivery of the same tick and after any delivery of an earlier tick.
			off := tick/5 + time.Duration(k)*tick/20
			if e[0] == "resp" {
				off = 3*tick/5 + time.Duration(k)*tick/20
			}
			target := start.Add(at + off)
			if d := time.Until(target); d > 0 {
				time.Sleep(d)
			}
			if !answered && time.Since(target) > tick/20 {
				// the responder itself fell off the time grid (busy machine): the run is not judged
				atomic.StoreInt32(&late, 1)
			}
			if e[0] == "resp" {
				answered = true // what follows the first response is not timed (SendRequest has returned)
			}
			switch e[0] {
			case "pre":
				rc.Publish(m.Reply, []byte(fmt.Sprintf(`timeout:"%d"`, e[1].(int)*int(tick/time.Millisecond))))
			case "prebad":
				// pre-responses that announce no (usable) timeout: a value that is no number, other keys -
				// also keys that merely end in "timeout"
				rc.Publish(m.Reply, []byte([]string{`timeout:"soon" other:"x"`, `idletimeout:"1"`, `other:"x" mytimeout:"1"`, `x_timeout:"2" timeout:"never"`}[k%4]))
			case "resp":
				switch e[1] {
				case "result":
					rc.Publish(m.Reply, []byte(`{"result":{"a":1}}`))
				case "resource":
					rc.Publish(m.Reply, []byte(`{"resource":{"rid":"test.y"}}`))
				case "error":
					// error responses: a custom one, and ones that use the library's own codes and default messages
					// and carry data (what arrives is what SendRequest returns)
					v := k % 3
					rc.Publish(m.Reply, []byte([]string{`{"error":{"code":"custom.err","message":"m"}}`,
						`{"error":{"code":"system.notFound","message":"Not found","data":{"retryAfter":30}}}`,
						`{"error":{"code":"system.timeout","message":"Request timeout","data":{"n":1}}}`}[v]))
				case "garbage-bom":
					rc.Publish(m.Reply, []byte("\xef\xbb\xbf{\"result\":{\"a\":1}}"))
				case "garbage-latin":
					rc.Publish(m.Reply, []byte("\xe9t\xe9 is not JSON"))
				case "garbage-digit":
					rc.Publish(m.Reply, []byte("12 monkeys"))
				default:
					rc.Publish(m.Reply, []byte(`{"neither":true`))
				}
			}
			rc.Flush()
		}
	}()
	var conn res.Conn = nc
	var req interface{} = map[string]int{"x": 1}
	switch fail {
	case "marshal":
		req = make(chan int)
	case "subscribe":
		conn = &failConn{Conn: nc, failSub: true}
	case "publish":
		conn = &failConn{Conn: nc, failPub: true}
	}
	subsBefore := nc.NumSubscriptions()
	var ext []int
	var mu sync.Mutex
	t := time.Now()
	resp := resprot.SendRequest(conn, subject, req, time.Duration(t0)*tick, func(d time.Duration) {
		mu.Lock()
		ext = append(ext, int((d+tick/2)/tick))
		mu.Unlock()
	})
	elapsed := time.Since(t)
	// what the callbacks have been told by the time SendRequest returns (a notification that comes later is
	// a call into the application after the request is over)
	mu.Lock()
	extAtReturn := append([]int{}, ext...)
	mu.Unlock()
	nc.Flush()
	time.Sleep(2 * time.Millisecond)
	subsAfter := nc.NumSubscriptions()
	kind := "result"
	switch {
	case resp.HasError() && resp.Error.Data != nil && (resp.Error.Code == res.CodeTimeout || resp.Error.Code == res.CodeNotFound):
		kind = "error" // one of the error responses the responder sends, data included
	case resp.HasError() && resp.Error.Code == res.CodeTimeout:
		kind = "timeout"
	case resp.HasError() && resp.Error.Code == res.CodeInternalError:
		kind = "internal"
	case resp.HasError() && resp.Error.Code == res.CodeNotFound:
		kind = "error-without-its-data" // (the responder's system.notFound error carries data)
	case resp.HasError():
		kind = "error"
	case resp.HasResource():
		kind = "resource"
	}
	ext = extAtReturn
	if ext == nil {
		ext = []int{}
	}
	sc := [][]interface{}{}
	for _, e := range script {
		sc = append(sc, e)
	}
	r := rec{"fail": fail, "t0": t0, "script": sc, "res": kind, "ext": ext, "released": subsAfter == subsBefore, "fast": elapsed < tick/2,
		"elapsed_ticks": float64(elapsed) / float64(tick), "dbg": fmt.Sprintf("subs %d -> %d", subsBefore, subsAfter)}
	if atomic.LoadInt32(&late) != 0 {
		r["untimely"] = true
	}
	return r, nil
}

// expectedAt mirrors ResSendReq.Wait only to judge the timing tolerance (never the verdict).
func expectedAt(t0 int, script []scriptEv) float64 {
	now, dl := 0, t0
	for _, e := range script {
		switch e[0] {
		case "wait":
			if now+e[1].(int) >= dl {
				return float64(dl)
			}
			now += e[1].(int)
		case "pre":
			dl = now + e[1].(int)
		case "resp":
			return float64(now) + 0.25
		}
	}
	return float64(dl)
}

// Run executes the C19 check.
func Run(c *core.Ctx) {
	c.SetLevel("model_checking")
	c.Assume(fmt.Sprintf("coarse timing: 1 tick = %v, deliveries strictly between ticks and staggered so that none coincides with a deadline; a run whose measured duration is off by more than a tick is discarded as inconclusive, never judged", tick))
	core.ModelMustHold(c, core.ModelCheck(c, "MCSendReq", "MCSendReq.cfg", core.TLCOpts{}), "MCSendReq")
	opts := &server.Options{Host: "127.0.0.1", Port: -1, NoLog: true, NoSigs: true}
	srv, err := server.NewServer(opts)
	if err != nil {
		c.Inconclusive("cannot create embedded nats-server: %v", err)
		return
	}
	go srv.Start()
	if !srv.ReadyForConnections(5 * time.Second) {
		c.Inconclusive("embedded nats-server did not start")
		return
	}
	defer srv.Shutdown()
	url := srv.ClientURL()
	rng := rand.New(rand.NewSource(c.Seed))
	type job struct {
		fail   string
		t0     int
		script []scriptEv
	}
	var jobs []job
	evs := []scriptEv{{"wait", 1}, {"wait", 2}, {"pre", 1}, {"pre", 3}, {"prebad"}, {"resp", "result"}, {"resp", "error"}, {"resp", "resource"}, {"resp", "garbage"}, {"resp", "garbage-bom"}, {"resp", "garbage-latin"}, {"resp", "garbage-digit"}}
	// every script of length <= 2, then random ones up to 5
	for _, a := range evs {
		jobs = append(jobs, job{"", 2, []scriptEv{a}})
		for _, b := range evs {
			jobs = append(jobs, job{"", 2, []scriptEv{a, b}})
		}
	}
	jobs = append(jobs, job{"", 2, nil})
	// every script of length 3 and 4 over a reduced alphabet (silence, bad and good pre-response, response)
	small := []scriptEv{{"wait", 1}, {"prebad"}, {"pre", 1}, {"resp", "result"}}
	for _, a := range small {
		for _, b := range small {
			for _, d := range small {
				jobs = append(jobs, job{"", 2, []scriptEv{a, b, d}})
				for _, e := range small {
					if true {
						jobs = append(jobs, job{"", 2, []scriptEv{a, b, d, e}})
					}
				}
			}
		}
	}
	for i := 0; i < c.Pick(60, 600); i++ {
		n := 3 + rng.Intn(3)
		var s []scriptEv
		for j := 0; j < n; j++ {
			s = append(s, evs[rng.Intn(len(evs))])
		}
		jobs = append(jobs, job{"", 1 + rng.Intn(3), s})
	}
	for _, f := range []string{"marshal", "subscribe", "publish"} {
		for k := 0; k < 4; k++ {
			jobs = append(jobs, job{f, 2, []scriptEv{{"resp", "result"}}})
		}
	}
	recs := make([]interface{}, len(jobs))
	var wg sync.WaitGroup
	sem := make(chan struct{}, 24)
	for i, j := range jobs {
		wg.Add(1)
		go func(i int, j job) {
			defer wg.Done()
			sem <- struct{}{}
			defer func() { <-sem }()
			r, err := runScript(url, i, j.fail, j.t0, j.script)
			if err != nil {
				return
			}
			if j.fail == "" {
				want := expectedAt(j.t0, j.script)
				got := r["elapsed_ticks"].(float64)
				if got < want-0.6 || got > want+1.2 {
					r["untimely"] = true
				}
			}
			recs[i] = r
		}(i, j)
	}
	wg.Wait()
	var good []interface{}
	for n := 1; n <= 4; n++ {
		for rep := 0; rep < c.Pick(3, 20); rep++ {
			for _, r := range runScriptedPair(n) {
				good = append(good, r)
			}
		}
	}
	for rep := 0; rep < c.Pick(9, 60); rep++ {
		good = append(good, runSlowCallback(rep))
	}
	for rep := 0; rep < c.Pick(30, 120); rep++ {
		good = append(good, runBackToBack(rep))
	}
	for rep := 0; rep < c.Pick(2, 8); rep++ {
		good = append(good, runConcurrentEcho(16, c.Pick(6000, 20000)))
	}
	untimely := 0
	for _, r := range recs {
		if r == nil {
			continue
		}
		if r.(rec)["untimely"] == true {
			untimely++
			continue
		}
		good = append(good, r)
	}
	if untimely*3 > len(jobs) {
		c.Inconclusive("%d of %d runs were off the time grid (machine too busy)", untimely, len(jobs))
	}
	for _, r := range good {
		if _, ok := r.(rec)["judge"]; !ok {
			r.(rec)["judge"] = "script"
		}
	}
	core.CheckRecords(c, "TraceSendReq", "TraceSendReq.cfg", good, nil, func(i int, r interface{}, inv string) {
		m := r.(rec)
		kind := "outcome"
		if m["released"] != true {
			kind = "subscription-not-released"
		}
		c.Violate(core.Violation{Signature: map[string]string{"engine": "sendreq", "kind": kind, "fail": fmt.Sprint(m["fail"])},
			Text: fmt.Sprintf("SendRequest with inbox script %v (timeout %v ticks, failing %q) returned %v with extensions %v after %.2f ticks; released=%v (%v)", m["script"], m["t0"], m["fail"], m["res"], m["ext"], m["elapsed_ticks"], m["released"], m["dbg"]), Replay: m})
	})
	c.Cover("traces_validated_against_impl", len(good))
	c.Cover("evaluations", len(good))
	c.Cover("discarded_untimely", untimely)
	c.Cover("rule", "real SendRequest calls over an embedded nats-server: every inbox script of <=2 events over 9 event kinds (waits of 1-2 ticks, timeout pre-responses of 1 and 3 ticks, a malformed pre-response, result/resource/error/garbage responses), seeded random scripts of 3-5 events with timeouts of 1-3 ticks, and failing marshal/subscribe/publish; outcome class, reported extensions, promptness and the connection's subscription count before/after judged by TLC (TraceSendReq.RecordOK)")
	if len(good) > 0 {
		c.Sample(good[len(good)/2])
	}
}

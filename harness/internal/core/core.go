// Package core holds what every check shares: run context (tier, seed), the
// verdict/evidence writer, and known-finding matching.
package core

import (
	"encoding/json"
	"fmt"
	"os"
	"path/filepath"
	"regexp"
	"sort"
	"strconv"
	"strings"
	"sync"
	"time"
)

// VerifDir is the root of the verification tree (where MANIFEST.json lives).
var VerifDir = func() string {
	if d := os.Getenv("VERIF_DIR"); d != "" {
		return d
	}
	return "/verif"
}()

// RepoDir is the repository under verification.
var RepoDir = func() string {
	if d := os.Getenv("VERIF_REPO"); d != "" {
		return d
	}
	return "/repo"
}()

// Ctx is the context of one check run.
type Ctx struct {
	Property string
	Tier     string // quick | thorough
	Seed     int64
	Replay   string // path of a replay artefact, or ""
	Start    time.Time

	mu         sync.Mutex
	level      string
	coverage   map[string]interface{}
	assume     []string
	violations []Violation
	inconcl    []string
	notes      []string
}

// Violation is one observation on the real code that contradicts the property.
type Violation struct {
	// Signature identifies the failing input / call site / history shape. It is
	// what KNOWN_FINDINGS.json entries are matched against.
	Signature map[string]string `json:"signature"`
	Text      string            `json:"text"`
	// Replay is written to the replay artefact.
	Replay interface{} `json:"replay"`
}

// NewCtx builds the context from the command line values and environment.
func NewCtx(prop, tier, replay string) *Ctx {
	seed := int64(1)
	if s := os.Getenv("VERIF_SEED"); s != "" {
		if v, err := strconv.ParseInt(s, 10, 64); err == nil {
			seed = v
		}
	}
	if tier == "" {
		tier = os.Getenv("VERIF_TIER")
	}
	if tier != "thorough" {
		tier = "quick"
	}
	return &Ctx{Property: prop, Tier: tier, Seed: seed, Replay: replay, Start: time.Now(),
		coverage: map[string]interface{}{}}
}

// Thorough reports whether the thorough tier was requested.
func (c *Ctx) Thorough() bool { return c.Tier == "thorough" }

// Pick returns q in the quick tier and t in the thorough tier.
func (c *Ctx) Pick(q, t int) int {
	if c.Thorough() {
		return t
	}
	return q
}

// SetLevel sets the evidence level.
func (c *Ctx) SetLevel(l string) { c.level = l }

// Cover sets a coverage key.
func (c *Ctx) Cover(k string, v interface{}) {
	c.mu.Lock()
	defer c.mu.Unlock()
	c.coverage[k] = v
}

// AddCount adds n to an integer coverage key.
func (c *Ctx) AddCount(k string, n int) {
	c.mu.Lock()
	defer c.mu.Unlock()
	cur, _ := c.coverage[k].(int)
	c.coverage[k] = cur + n
}

// Sample appends a sample case (bounded).
func (c *Ctx) Sample(v interface{}) {
	c.mu.Lock()
	defer c.mu.Unlock()
	s, _ := c.coverage["samples"].([]interface{})
	if len(s) < 8 {
		c.coverage["samples"] = append(s, v)
	}
}

// Assume records an assumption / trusted-base item.
func (c *Ctx) Assume(s string) {
	c.mu.Lock()
	defer c.mu.Unlock()
	for _, a := range c.assume {
		if a == s {
			return
		}
	}
	c.assume = append(c.assume, s)
}

// Note prints and remembers an informational line.
func (c *Ctx) Note(format string, a ...interface{}) {
	s := fmt.Sprintf(format, a...)
	fmt.Println("note:", s)
	c.mu.Lock()
	c.notes = append(c.notes, s)
	c.mu.Unlock()
}

// Violate records a violation observed on the real code.
func (c *Ctx) Violate(v Violation) {
	c.mu.Lock()
	defer c.mu.Unlock()
	if len(c.violations) < 2000 {
		c.violations = append(c.violations, v)
	}
}

// NumViolations returns the number recorded so far.
func (c *Ctx) NumViolations() int {
	c.mu.Lock()
	defer c.mu.Unlock()
	return len(c.violations)
}

// Inconclusive records a reason why (part of) the check could not decide.
func (c *Ctx) Inconclusive(format string, a ...interface{}) {
	s := fmt.Sprintf(format, a...)
	fmt.Println("INCONCLUSIVE:", s)
	c.mu.Lock()
	c.inconcl = append(c.inconcl, s)
	c.mu.Unlock()
}

// Finding is an entry of KNOWN_FINDINGS.json.
type Finding struct {
	Property  string            `json:"property"`
	Status    string            `json:"status"` // known | fixed
	ID        string            `json:"id"`
	Signature map[string]string `json:"signature"`
	Commit    string            `json:"commit,omitempty"`
	Text      string            `json:"text"`
}

// LoadFindings reads KNOWN_FINDINGS.json (never written at run time).
func LoadFindings() []Finding {
	b, err := os.ReadFile(filepath.Join(VerifDir, "KNOWN_FINDINGS.json"))
	if err != nil {
		return nil
	}
	var f []Finding
	if err := json.Unmarshal(b, &f); err != nil {
		fmt.Println("warning: KNOWN_FINDINGS.json unreadable:", err)
		return nil
	}
	return f
}

func sigMatch(entry, got map[string]string) bool {
	if len(entry) == 0 {
		return false
	}
	for k, want := range entry {
		have, ok := got[k]
		if !ok {
			return false
		}
		if strings.HasPrefix(want, "re:") {
			re, err := regexp.Compile("^(?:" + want[3:] + ")$")
			if err != nil || !re.MatchString(have) {
				return false
			}
		} else if want != have {
			return false
		}
	}
	return true
}

// Finish writes the evidence file, prints the verdict lines and returns the
// process exit code: 0 held, 1 violation, 2 inconclusive.
func (c *Ctx) Finish() int {
	c.mu.Lock()
	defer c.mu.Unlock()
	findings := LoadFindings()
	knownHit := map[string]string{}
	var fresh []Violation
	for _, v := range c.violations {
		matched := false
		for _, f := range findings {
			if f.Status == "known" && f.Property == c.Property && sigMatch(f.Signature, v.Signature) {
				if _, ok := knownHit[f.ID]; !ok {
					knownHit[f.ID] = f.Text
				}
				matched = true
				break
			}
		}
		if !matched {
			fresh = append(fresh, v)
		}
	}
	ids := make([]string, 0, len(knownHit))
	for id := range knownHit {
		ids = append(ids, id)
	}
	sort.Strings(ids)
	for _, id := range ids {
		fmt.Printf("KNOWN-FINDING: property=%s %s: %s\n", c.Property, id, knownHit[id])
	}
	outDir := filepath.Join(VerifDir, "out")
	os.MkdirAll(outDir, 0o755)
	kinds := map[string]int{}
	for _, v := range fresh {
		kinds[v.Signature["engine"]+"/"+v.Signature["kind"]]++
	}
	if len(kinds) > 0 {
		fmt.Println("violations by kind:", kinds)
	}
	// group fresh violations by signature so the output stays readable
	seen := map[string]bool{}
	nrep := 0
	for _, v := range fresh {
		key := fmt.Sprint(v.Signature)
		if seen[key] {
			continue
		}
		seen[key] = true
		nrep++
		if nrep > 20 {
			continue
		}
		p := filepath.Join(outDir, fmt.Sprintf("%s-%s-seed%d-%d.json", c.Property, c.Tier, c.Seed, nrep))
		b, _ := json.MarshalIndent(map[string]interface{}{
			"property": c.Property, "signature": v.Signature, "text": v.Text, "replay": v.Replay,
			"seed": c.Seed, "tier": c.Tier,
		}, "", " ")
		os.WriteFile(p, b, 0o644)
		fmt.Printf("VIOLATION property=%s replay=%s\n", c.Property, p)
		fmt.Printf("  what: %s\n  signature: %v\n", v.Text, v.Signature)
	}
	if c.level == "" {
		c.level = "model_checking"
	}
	if _, ok := c.coverage["samples"]; !ok {
		c.coverage["samples"] = []interface{}{}
	}
	c.coverage["known_findings_hit"] = ids
	if len(c.inconcl) > 0 {
		c.coverage["inconclusive"] = c.inconcl
	}
	if len(c.notes) > 0 {
		c.coverage["notes"] = c.notes
	}
	ev := map[string]interface{}{
		"property_id": c.Property,
		"tier":        c.Tier,
		"seed":        c.Seed,
		"level":       c.level,
		"coverage":    c.coverage,
		"assumptions": c.assume,
		"wall_s":      time.Since(c.Start).Seconds(),
		"violations":  len(fresh),
	}
	if c.assume == nil {
		ev["assumptions"] = []string{}
	}
	if c.Replay == "" {
		evDir := filepath.Join(VerifDir, "evidence")
		os.MkdirAll(evDir, 0o755)
		b, _ := json.MarshalIndent(ev, "", " ")
		if err := os.WriteFile(filepath.Join(evDir, c.Property+".json"), b, 0o644); err != nil {
			fmt.Println("cannot write evidence:", err)
			return 2
		}
	}
	switch {
	case len(fresh) > 0:
		fmt.Printf("RESULT %s: %d violation(s), %d known finding(s)\n", c.Property, len(seen), len(ids))
		return 1
	case len(c.inconcl) > 0:
		fmt.Printf("RESULT %s: inconclusive (%d reason(s))\n", c.Property, len(c.inconcl))
		return 2
	default:
		fmt.Printf("RESULT %s: held on everything explored (%d known finding(s))\n", c.Property, len(ids))
		return 0
	}
}

package core

import (
	"bufio"
	"bytes"
	"context"
	"fmt"
	"io"
	"os"
	"os/exec"
	"path/filepath"
	"regexp"
	"strconv"
	"strings"
	"time"
)

// TLCOpts describes one TLC run.
type TLCOpts struct {
	Module    string            // module name (file Module.tla in spec/)
	Cfg       string            // config file name in spec/
	Files     map[string][]byte // extra files written next to the spec (traces, generated MC modules)
	Workers   int               // 0 = 16
	Timeout   time.Duration     // 0 = 10 min
	Args      []string          // extra TLC arguments (e.g. -continue, -simulate ...)
	DFS       bool              // depth-first state queue (trace validation with unlogged steps)
	KeepLines func(string) bool // which output lines to keep verbatim in Lines (default: PrintT strings)
	Stack     bool              // larger thread stack
}

// TLCResult is what was parsed from TLC's output.
type TLCResult struct {
	Generated  int64
	Distinct   int64
	Depth      int
	Errors     []TLCError // invariant / property / deadlock / evaluation errors
	Printed    []string   // unquoted PrintT string values
	Lines      []string
	Completed  bool // "Model checking completed" or simulation ended normally
	TimedOut   bool
	ExitErr    error
	Wall       time.Duration
	RawTail    string
	PostFailed bool // POSTCONDITION evaluated to FALSE
}

// TLCError is one error block of the TLC output.
type TLCError struct {
	Kind    string   // invariant | deadlock | property | eval | postcondition | other
	Name    string   // invariant/property name when known
	Head    string   // the "Error:" line
	State   string   // text of the (last) state printed with the error, if any
	Trace   []string // all states of the counterexample (text blocks)
	Actions []string // action label of every state of the counterexample, e.g. "RwCheck(p1)"
}

var (
	reStates    = regexp.MustCompile(`(\d+) states generated, (\d+) distinct states found`)
	reDepth     = regexp.MustCompile(`The depth of the complete state graph search is (\d+)`)
	reInv       = regexp.MustCompile(`Invariant (\S+) is violated`)
	reProp      = regexp.MustCompile(`(?:Temporal properties were violated|Action property (\S+) is violated|property (\S+) (?:is|was) violated)`)
	reState     = regexp.MustCompile(`^State (\d+): `)
	reActionLbl = regexp.MustCompile(`^State \d+: <(\w+(?:\([^)]*\))?) line`)
)

// SpecDir is where the TLA+ modules live.
func SpecDir() string { return filepath.Join(VerifDir, "spec") }

// RunTLC copies spec/ into a scratch directory, writes the extra files and
// runs TLC there. The scratch directory is removed afterwards.
func RunTLC(o TLCOpts) (*TLCResult, error) {
	tmp, err := os.MkdirTemp("", "vtlc-")
	if err != nil {
		return nil, err
	}
	defer os.RemoveAll(tmp)
	ents, err := os.ReadDir(SpecDir())
	if err != nil {
		return nil, err
	}
	for _, e := range ents {
		if e.IsDir() {
			continue
		}
		n := e.Name()
		if strings.HasSuffix(n, ".tla") || strings.HasSuffix(n, ".cfg") {
			b, err := os.ReadFile(filepath.Join(SpecDir(), n))
			if err != nil {
				return nil, err
			}
			if err := os.WriteFile(filepath.Join(tmp, n), b, 0o644); err != nil {
				return nil, err
			}
		}
	}
	for n, b := range o.Files {
		if err := os.WriteFile(filepath.Join(tmp, n), b, 0o644); err != nil {
			return nil, err
		}
	}
	if o.Workers == 0 {
		o.Workers = 16
	}
	if o.Timeout == 0 {
		o.Timeout = 10 * time.Minute
	}
	args := []string{"-XX:+UseParallelGC"}
	if o.Stack {
		args = append(args, "-Xss512m")
	}
	if o.DFS {
		args = append(args, "-Dtlc2.tool.queue.IStateQueue=StateDeque")
	}
	args = append(args, "-cp", "/opt/veriftools/tla/tla2tools.jar:/opt/veriftools/tla/CommunityModules-deps.jar", "tlc2.TLC",
		"-workers", strconv.Itoa(o.Workers), "-metadir", filepath.Join(tmp, "meta"), "-config", o.Cfg)
	args = append(args, o.Args...)
	args = append(args, o.Module+".tla")
	ctx, cancel := context.WithTimeout(context.Background(), o.Timeout)
	defer cancel()
	cmd := exec.CommandContext(ctx, "java", args...)
	cmd.Dir = tmp
	pr, pw := io.Pipe()
	cmd.Stdout = pw
	cmd.Stderr = pw
	res := &TLCResult{}
	start := time.Now()
	done := make(chan struct{})
	var tail []string
	go func() {
		defer close(done)
		sc := bufio.NewScanner(pr)
		sc.Buffer(make([]byte, 1<<20), 64<<20)
		var cur *TLCError
		var stateBuf []string
		flushState := func() {
			if cur != nil && len(stateBuf) > 0 {
				st := strings.Join(stateBuf, "\n")
				cur.Trace = append(cur.Trace, st)
				cur.State = st
			}
			stateBuf = nil
		}
		inState := false
		for sc.Scan() {
			line := sc.Text()
			if len(tail) > 60 {
				tail = tail[1:]
			}
			tail = append(tail, line)
			if m := reStates.FindStringSubmatch(line); m != nil {
				res.Generated, _ = strconv.ParseInt(m[1], 10, 64)
				res.Distinct, _ = strconv.ParseInt(m[2], 10, 64)
			}
			if m := reDepth.FindStringSubmatch(line); m != nil {
				res.Depth, _ = strconv.Atoi(m[1])
			}
			if strings.HasPrefix(line, "Model checking completed") || strings.HasPrefix(line, "Finished in") {
				res.Completed = true
			}
			if strings.HasPrefix(line, "\"") && strings.HasSuffix(line, "\"") {
				if s, err := strconv.Unquote(line); err == nil {
					res.Printed = append(res.Printed, s)
					continue
				}
			}
			if o.KeepLines != nil && o.KeepLines(line) {
				res.Lines = append(res.Lines, line)
			}
			if strings.HasPrefix(line, "Error: ") {
				flushState()
				inState = false
				e := TLCError{Head: line, Kind: "other"}
				switch {
				case reInv.MatchString(line):
					e.Kind = "invariant"
					e.Name = reInv.FindStringSubmatch(line)[1]
					if strings.Contains(line, "by the initial state") {
						inState = true
					}
				case strings.Contains(line, "Deadlock reached"):
					e.Kind = "deadlock"
				case reProp.MatchString(line):
					e.Kind = "property"
					m := reProp.FindStringSubmatch(line)
					e.Name = m[1] + m[2]
				case strings.Contains(line, "Postcondition") || strings.Contains(line, "POSTCONDITION") || strings.Contains(line, "post-condition"):
					e.Kind = "postcondition"
					res.PostFailed = true
				case strings.Contains(line, "The behavior up to this point is"), strings.Contains(line, "The following behavior constitutes a counter-example"):
					// continuation of the previous error
					if cur != nil {
						continue
					}
				case strings.Contains(line, "evaluat") || strings.Contains(line, "Attempted") || strings.Contains(line, "TLC threw"):
					e.Kind = "eval"
				}
				res.Errors = append(res.Errors, e)
				cur = &res.Errors[len(res.Errors)-1]
				continue
			}
			if reState.MatchString(line) {
				flushState()
				inState = true
				if cur != nil {
					if m := reActionLbl.FindStringSubmatch(line); m != nil {
						cur.Actions = append(cur.Actions, m[1])
					}
				}
				continue
			}
			if inState {
				if strings.TrimSpace(line) == "" {
					flushState()
					inState = false
					continue
				}
				if strings.HasPrefix(line, "/\\ ") || strings.HasPrefix(line, "  ") || !strings.Contains(line, " states generated") && (strings.Contains(line, " = ") || strings.HasPrefix(line, "\\/")) {
					stateBuf = append(stateBuf, line)
					continue
				}
				flushState()
				inState = false
			}
		}
		flushState()
	}()
	err = cmd.Run()
	pw.Close()
	<-done
	res.Wall = time.Since(start)
	res.RawTail = strings.Join(tail, "\n")
	if ctx.Err() == context.DeadlineExceeded {
		res.TimedOut = true
	}
	res.ExitErr = err
	return res, nil
}

// FirstErrorText gives a short description of the errors of a run.
func (r *TLCResult) FirstErrorText() string {
	var b bytes.Buffer
	for i, e := range r.Errors {
		if i > 3 {
			break
		}
		fmt.Fprintf(&b, "%s\n%s\n", e.Head, e.State)
	}
	return b.String()
}

// Broken reports a run that did not produce a usable answer (parse error,
// evaluation error, timeout, crash). Such a run is never a violation.
func (r *TLCResult) Broken() string {
	if r.TimedOut {
		return "TLC timed out"
	}
	for _, e := range r.Errors {
		if e.Kind == "eval" || e.Kind == "other" {
			return "TLC error: " + e.Head
		}
	}
	if !r.Completed && len(r.Errors) == 0 {
		return "TLC did not complete: " + lastLines(r.RawTail, 8)
	}
	return ""
}

func lastLines(s string, n int) string {
	ls := strings.Split(s, "\n")
	if len(ls) > n {
		ls = ls[len(ls)-n:]
	}
	return strings.Join(ls, " | ")
}

// StateVar extracts the value text of variable v from a TLC state block.
func StateVar(state, v string) string {
	for _, line := range strings.Split(state, "\n") {
		line = strings.TrimPrefix(strings.TrimSpace(line), "/\\ ")
		if strings.HasPrefix(line, v+" = ") {
			return strings.TrimSpace(strings.TrimPrefix(line, v+" = "))
		}
	}
	return ""
}

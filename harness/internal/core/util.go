package core

import (
	"bytes"
	"encoding/json"
	"fmt"
	"os"
	"strconv"
	"strings"
	"time"
)

// Chars turns a string into the character sequence the TLA+ specs work on:
// one one-character string per rune, "INV" for anything outside 33..126.
func Chars(s string) []string {
	out := make([]string, 0, len(s))
	for _, r := range s {
		if r < 33 || r > 126 {
			out = append(out, "INV")
		} else {
			out = append(out, string(r))
		}
	}
	return out
}

// NDJSON marshals records, one per line.
func NDJSON(recs []interface{}) []byte {
	var b bytes.Buffer
	enc := json.NewEncoder(&b)
	enc.SetEscapeHTML(false)
	for _, r := range recs {
		enc.Encode(strip(r))
	}
	return b.Bytes()
}

// DebugKeys are record fields kept for humans (replay artefacts) and not sent to TLC.
var DebugKeys = map[string]bool{"ps": true, "ns": true, "pats": true, "grps": true, "groups": true, "local": true, "panicv": true, "ms": true, "ids": true, "dbg": true}

func strip(v interface{}) interface{} {
	switch x := v.(type) {
	case map[string]interface{}:
		out := make(map[string]interface{}, len(x))
		for k, e := range x {
			if !DebugKeys[k] {
				out[k] = strip(e)
			}
		}
		return out
	case []map[string]interface{}:
		out := make([]interface{}, len(x))
		for i, e := range x {
			out[i] = strip(e)
		}
		return out
	case []interface{}:
		out := make([]interface{}, len(x))
		for i, e := range x {
			out[i] = strip(e)
		}
		return out
	}
	return v
}

// AllStrings enumerates every string over alphabet of length 0..maxLen.
func AllStrings(alphabet []string, maxLen int) []string {
	out := []string{""}
	prev := []string{""}
	for l := 1; l <= maxLen; l++ {
		var cur []string
		for _, p := range prev {
			for _, a := range alphabet {
				cur = append(cur, p+a)
			}
		}
		out = append(out, cur...)
		prev = cur
	}
	return out
}

// Catch runs f and returns the recovered panic value, if any.
func Catch(f func()) (pv interface{}) {
	defer func() { pv = recover() }()
	f()
	return nil
}

// RecordLine extracts the trace line number l from a TLC one-state counterexample.
func RecordLine(e TLCError) int {
	v := StateVar(e.State, "l")
	if v == "" {
		// initial-state form: "l = 4"
		for _, ln := range strings.Split(e.State, "\n") {
			ln = strings.TrimSpace(ln)
			if strings.HasPrefix(ln, "l = ") {
				v = strings.TrimPrefix(ln, "l = ")
			}
		}
	}
	n, err := strconv.Atoi(strings.TrimSpace(v))
	if err != nil {
		return -1
	}
	return n
}

// CheckRecords runs a "one record per initial state" trace spec over recs and
// calls onBad for every record whose invariant TLC reports violated. It
// returns the TLC result (nil when TLC itself failed; then the check is
// inconclusive, never a violation).
func CheckRecords(c *Ctx, module, cfg string, recs []interface{}, extra map[string][]byte, onBad func(i int, rec interface{}, inv string)) *TLCResult {
	if len(recs) == 0 {
		return nil
	}
	files := map[string][]byte{"trace.ndjson": NDJSON(recs)}
	if d := os.Getenv("VERIF_KEEP_TRACE"); d != "" {
		os.WriteFile(d+"/"+module+".trace.ndjson", files["trace.ndjson"], 0o644)
	}
	for k, v := range extra {
		files[k] = v
	}
	t0 := time.Now()
	r, err := RunTLC(TLCOpts{Module: module, Cfg: cfg, Files: files, Args: []string{"-continue"}, Timeout: 20 * time.Minute, Stack: true})
	if err != nil {
		c.Inconclusive("%s: cannot run TLC: %v", module, err)
		return nil
	}
	if why := r.Broken(); why != "" {
		c.Inconclusive("%s: %s", module, why)
		return nil
	}
	if r.Distinct != int64(len(recs)) {
		c.Inconclusive("%s: TLC saw %d records, %d were written", module, r.Distinct, len(recs))
		return nil
	}
	for _, e := range r.Errors {
		if e.Kind != "invariant" {
			continue
		}
		i := RecordLine(e)
		if i < 1 || i > len(recs) {
			c.Inconclusive("%s: cannot locate violated record: %s / %s", module, e.Head, e.State)
			continue
		}
		onBad(i-1, recs[i-1], e.Name)
	}
	fmt.Printf("tlc %s/%s: %d records judged in %.1fs\n", module, cfg, len(recs), time.Since(t0).Seconds())
	return r
}

// ModelCheck runs an exhaustive model-checking configuration and records its
// size in the evidence. Any error in the model-level run is reported as
// inconclusive (a model counterexample alone is a lead, not a verdict).
func ModelCheck(c *Ctx, module, cfg string, o TLCOpts) *TLCResult {
	o.Module, o.Cfg = module, cfg
	r, err := RunTLC(o)
	if err != nil {
		c.Inconclusive("%s/%s: cannot run TLC: %v", module, cfg, err)
		return nil
	}
	fmt.Printf("tlc %s/%s: %d generated, %d distinct, depth %d, %.1fs\n", module, cfg, r.Generated, r.Distinct, r.Depth, r.Wall.Seconds())
	c.AddCount("states", int(r.Distinct))
	c.AddCount("transitions", int(r.Generated))
	mc, _ := c.coverage["model_runs"].([]interface{})
	c.Cover("model_runs", append(mc, map[string]interface{}{"module": module, "cfg": cfg, "distinct": r.Distinct, "generated": r.Generated, "depth": r.Depth, "wall_s": r.Wall.Seconds()}))
	if why := r.Broken(); why != "" {
		c.Inconclusive("%s/%s: %s", module, cfg, why)
		return r
	}
	return r
}

// ModelMustHold reports model-level counterexamples of a run as inconclusive
// (they say the model is wrong or the design has a lead to follow up, not that
// the code misbehaves) and returns true when the run was clean.
func ModelMustHold(c *Ctx, r *TLCResult, what string) bool {
	if r == nil {
		return false
	}
	ok := true
	for _, e := range r.Errors {
		if e.Kind == "invariant" || e.Kind == "deadlock" || e.Kind == "property" || e.Kind == "postcondition" {
			c.Inconclusive("%s: model-level counterexample (%s %s) - not a verdict about the code", what, e.Kind, e.Name)
			ok = false
		}
	}
	return ok && r.Broken() == ""
}

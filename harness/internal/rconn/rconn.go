// Package rconn is a recording, scriptable implementation of res.Conn used by
// the engines: it records subscriptions and published messages with a global
// sequence number, checks subjects against the NATS rules, lets the harness
// deliver messages to subscribed channels and fail chosen operations.
package rconn

import (
	"errors"
	"strings"
	"sync"
	"sync/atomic"
	"time"

	nats "github.com/nats-io/nats.go"
)

// Msg is a published message.
type Msg struct {
	Seq     int64
	Subject string
	Reply   string
	Data    []byte
	Req     bool // published with PublishRequest
}

// Sub is a recorded subscription.
type Sub struct {
	Subject string
	Queue   string
	Ch      chan *nats.Msg
	NS      *nats.Subscription
}

// Conn implements res.Conn.
type Conn struct {
	dmu    sync.RWMutex // held (read) while a delivery is in flight; Close waits for deliveries like a real connection
	mu     sync.Mutex
	subs   []*Sub
	pubs   []Msg
	closed int32
	nclose int32
	seq    *int64

	// FailSub, when set, decides whether a subscription attempt fails.
	FailSub func(subject string) error
	// FailPub, when set, decides whether a publish attempt fails.
	FailPub func(subject string) error
	// OnPub is called (outside the lock) for every accepted publish.
	OnPub func(m Msg)
	// BadSubjects collects invalid subjects that were subscribed to or published on.
	bad []string
}

// New returns a connection. seq may be shared between several recorders.
func New(seq *int64) *Conn {
	if seq == nil {
		seq = new(int64)
	}
	return &Conn{seq: seq}
}

// ValidSubject reports whether s is a valid NATS subject; wild says whether
// wildcard tokens are allowed (subscriptions) or not (publishes).
func ValidSubject(s string, wild bool) bool {
	if s == "" {
		return false
	}
	toks := strings.Split(s, ".")
	for i, t := range toks {
		if t == "" {
			return false
		}
		if strings.ContainsAny(t, " \t\r\n") {
			return false
		}
		if t == "*" || t == ">" {
			if !wild {
				return false
			}
			if t == ">" && i != len(toks)-1 {
				return false
			}
		}
	}
	return true
}

// SubjectMatches implements NATS subject matching of a subscription pattern.
func SubjectMatches(pattern, subject string) bool {
	pt := strings.Split(pattern, ".")
	st := strings.Split(subject, ".")
	for i, p := range pt {
		if p == ">" {
			return len(st) > i
		}
		if i >= len(st) {
			return false
		}
		if p != "*" && p != st[i] {
			return false
		}
	}
	return len(pt) == len(st)
}

func (c *Conn) next() int64 { return atomic.AddInt64(c.seq, 1) }

// Publish implements res.Conn.
func (c *Conn) Publish(subject string, payload []byte) error {
	return c.publish(subject, "", payload, false)
}

// PublishRequest implements res.Conn.
func (c *Conn) PublishRequest(subject, reply string, data []byte) error {
	return c.publish(subject, reply, data, true)
}

func (c *Conn) publish(subject, reply string, payload []byte, req bool) error {
	if f := c.FailPub; f != nil {
		if err := f(subject); err != nil {
			return err
		}
	}
	if atomic.LoadInt32(&c.closed) != 0 {
		return nats.ErrConnectionClosed
	}
	m := Msg{Subject: subject, Reply: reply, Data: append([]byte(nil), payload...), Req: req}
	c.mu.Lock()
	m.Seq = c.next()
	if !ValidSubject(subject, false) {
		c.bad = append(c.bad, "publish:"+subject)
	}
	c.pubs = append(c.pubs, m)
	c.mu.Unlock()
	if f := c.OnPub; f != nil {
		f(m)
	}
	return nil
}

// ChanSubscribe implements res.Conn.
func (c *Conn) ChanSubscribe(subject string, ch chan *nats.Msg) (*nats.Subscription, error) {
	return c.ChanQueueSubscribe(subject, "", ch)
}

// ChanQueueSubscribe implements res.Conn.
func (c *Conn) ChanQueueSubscribe(subject, queue string, ch chan *nats.Msg) (*nats.Subscription, error) {
	if f := c.FailSub; f != nil {
		if err := f(subject); err != nil {
			return nil, err
		}
	}
	if atomic.LoadInt32(&c.closed) != 0 {
		return nil, nats.ErrConnectionClosed
	}
	c.mu.Lock()
	defer c.mu.Unlock()
	if !ValidSubject(subject, true) {
		c.bad = append(c.bad, "subscribe:"+subject)
	}
	s := &Sub{Subject: subject, Queue: queue, Ch: ch, NS: &nats.Subscription{Subject: subject, Queue: queue}}
	c.subs = append(c.subs, s)
	return s.NS, nil
}

// Close implements res.Conn.
func (c *Conn) Close() {
	atomic.AddInt32(&c.nclose, 1)
	atomic.StoreInt32(&c.closed, 1)
	// no message is delivered to a subscriber channel once Close has returned
	c.dmu.Lock()
	c.dmu.Unlock() //nolint:staticcheck
}

// CloseCount returns how often Close was called.
func (c *Conn) CloseCount() int { return int(atomic.LoadInt32(&c.nclose)) }

// Subs returns a snapshot of the subscriptions.
func (c *Conn) Subs() []*Sub {
	c.mu.Lock()
	defer c.mu.Unlock()
	return append([]*Sub(nil), c.subs...)
}

// Pubs returns a snapshot of everything published so far.
func (c *Conn) Pubs() []Msg {
	c.mu.Lock()
	defer c.mu.Unlock()
	return append([]Msg(nil), c.pubs...)
}

// PubsOn returns the messages published on subject.
func (c *Conn) PubsOn(subject string) []Msg {
	var out []Msg
	for _, m := range c.Pubs() {
		if m.Subject == subject {
			out = append(out, m)
		}
	}
	return out
}

// BadSubjects returns the invalid subjects seen.
func (c *Conn) BadSubjects() []string {
	c.mu.Lock()
	defer c.mu.Unlock()
	return append([]string(nil), c.bad...)
}

// ErrBlocked is returned when a delivery could not be placed in the channel.
var ErrBlocked = errors.New("rconn: subscriber channel full")

// Deliver sends a message to every matching subscription (one member per
// queue group, like a server would) and returns the number of deliveries.
func (c *Conn) Deliver(subject, reply string, data []byte) (int, error) {
	c.dmu.RLock()
	defer c.dmu.RUnlock()
	if atomic.LoadInt32(&c.closed) != 0 {
		return 0, nats.ErrConnectionClosed
	}
	c.mu.Lock()
	subs := append([]*Sub(nil), c.subs...)
	c.mu.Unlock()
	n := 0
	queues := map[string]bool{}
	for _, s := range subs {
		if !SubjectMatches(s.Subject, subject) {
			continue
		}
		if s.Queue != "" {
			if queues[s.Queue] {
				continue
			}
			queues[s.Queue] = true
		}
		m := &nats.Msg{Subject: subject, Reply: reply, Data: data, Sub: s.NS}
		sent := false
		for !sent {
			select {
			case s.Ch <- m:
				n++
				sent = true
			case <-time.After(200 * time.Microsecond):
				if atomic.LoadInt32(&c.closed) != 0 {
					return n, nats.ErrConnectionClosed
				}
			}
		}
	}
	return n, nil
}

// DeliverTo sends a message directly into one subscription's channel (used to
// model messages that were already in flight when a drain was requested).
func (c *Conn) DeliverTo(s *Sub, subject, reply string, data []byte) error {
	c.dmu.RLock()
	defer c.dmu.RUnlock()
	m := &nats.Msg{Subject: subject, Reply: reply, Data: data, Sub: s.NS}
	select {
	case s.Ch <- m:
		return nil
	case <-time.After(2 * time.Second):
		return ErrBlocked
	}
}

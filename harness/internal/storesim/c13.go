package storesim

import (
	"math"
	"encoding/hex"
	"encoding/json"
	"fmt"
	"math/rand"
	"net/url"
	"sort"
	"strconv"
	"strings"
	"sync"
	"sync/atomic"
	"time"

	res "github.com/jirenius/go-res"
	"github.com/jirenius/go-res/logger"
	"github.com/jirenius/go-res/store"
	"github.com/jirenius/go-res/store/badgerstore"
	"github.com/jirenius/go-res/store/mockstore"

	"verif/internal/core"
)

// ival is the stored value: Key == nil means "not indexed"
type ival struct {
	// (members that are empty are absent from the stored document: stored values differ in shape)
	Key     []byte `json:"key,omitempty"`     // raw bytes (base64 in the stored JSON), may contain 0xFF
	Indexed bool   `json:"indexed,omitempty"` // false: the key function returns nil
	Other   int    `json:"other"`
}

type iquery struct {
	prefix  string
	filter  string
	offset  int
	limit   int
	reverse bool
}

func bytesOf(s string) []int {
	out := []int{}
	for i := 0; i < len(s); i++ {
		out = append(out, int(s[i]))
	}
	return out
}

func (q iquery) rec() rec {
	// for the reference a limit beyond the number of stored values is any such limit, a negative one is -1
	lim := q.limit
	if lim > 1000 {
		lim = 1000
	}
	if lim < 0 {
		lim = -1
	}
	return rec{"prefix": bytesOf(q.prefix), "filter": q.filter, "offset": q.offset, "limit": lim, "reverse": q.reverse}
}

func (q iquery) values() url.Values {
	return url.Values{"p": {hex.EncodeToString([]byte(q.prefix))}, "f": {q.filter}, "o": {strconv.Itoa(q.offset)}, "l": {strconv.Itoa(q.limit)}, "r": {strconv.FormatBool(q.reverse)}}
}

type c13world struct {
	bs     *badgerstore.Store
	qs     *badgerstore.QueryStore
	clean  func()
	model  map[string]*string // id -> key (nil = not indexed) : the harness' own copy of the store content
	inited  bool // Init has run on this store
	lateKey map[string]string
	hold   int32
	gate   chan struct{}
	atGate chan struct{}

	cbMu     sync.Mutex
	cbs      []rec // query change callbacks observed
	commits  map[string]int
	lastQC   []store.QueryChange
	hookSeq  int64
	commitAt map[string][]int64
}

func parseQuery(qs *badgerstore.QueryStore, q url.Values) (*badgerstore.IndexQuery, error) {
	p, _ := hex.DecodeString(q.Get("p"))
	off, _ := strconv.Atoi(q.Get("o"))
	lim, err := strconv.Atoi(q.Get("l"))
	if err != nil {
		lim = -1
	}
	iq := &badgerstore.IndexQuery{Index: qs.Index("k"), KeyPrefix: p, Offset: off, Limit: lim, Reverse: q.Get("r") == "true"}
	if q.Get("f") == "odd" {
		iq.FilterKeys = func(k []byte) bool { return len(k) > 0 && k[len(k)-1]%2 == 1 }
	}
	return iq, nil
}

func newC13World(prefix string) (*c13world, error) {
	db, clean, err := OpenBadger()
	if err != nil {
		return nil, err
	}
	w := &c13world{clean: clean, model: map[string]*string{}, gate: make(chan struct{}), atGate: make(chan struct{}, 16), commitAt: map[string][]int64{}}
	w.bs = badgerstore.NewStore(db).SetType(ival{})
	if prefix != "" {
		w.bs.SetPrefix(prefix)
	}
	w.qs = badgerstore.NewQueryStore(w.bs, parseQuery).AddIndex(badgerstore.Index{Name: "k", Key: func(v interface{}) []byte {
		iv := v.(ival)
		if !iv.Indexed {
			return nil
		}
		return append([]byte{}, iv.Key...)
	}}).AddIndex(badgerstore.Index{Name: "fix", Key: func(v interface{}) []byte {
		// a second index whose key is the same for every indexed value: most mutations change the key in the
		// first index only
		if !v.(ival).Indexed {
			return nil
		}
		return []byte("c")
	}})
	w.qs.OnQueryChange(func(qc store.QueryChange) {
		w.cbMu.Lock()
		defer w.cbMu.Unlock()
		n := atomic.AddInt64(&w.hookSeq, 1)
		committed := false
		for _, s := range w.commitAt[qc.ID()] {
			if s < n {
				committed = true
			}
		}
		w.cbs = append(w.cbs, rec{"id": bytesOf(qc.ID()), "b": entryOf(qc.ID(), qc.Before()), "a": entryOf(qc.ID(), qc.After()), "afterCommit": committed})
		w.lastQC = append(w.lastQC, qc)
	})
	badgerstore.VerifHook = func(p string, a ...interface{}) {
		switch p {
		case "bs.idx.start":
			if atomic.LoadInt32(&w.hold) != 0 {
				w.atGate <- struct{}{}
				<-w.gate
			}
		case "bs.idx.committed":
			w.cbMu.Lock()
			id := fmt.Sprint(a[0])
			w.commitAt[id] = append(w.commitAt[id], atomic.AddInt64(&w.hookSeq, 1))
			w.cbMu.Unlock()
		}
	}
	return w, nil
}

func (w *c13world) close() {
	badgerstore.VerifHook = nil
	w.qs.Flush()
	time.Sleep(time.Millisecond)
	w.clean()
}

func entryOf(id string, v interface{}) rec {
	e := rec{"id": bytesOf(id), "key": []int{}, "idx": false}
	if v == nil {
		return e
	}
	if iv, ok := v.(ival); ok && iv.Indexed {
		e["key"] = bytesOf(string(iv.Key))
		e["idx"] = true
	}
	return e
}

func (w *c13world) entries() []rec {
	ids := make([]string, 0, len(w.model))
	for id := range w.model {
		ids = append(ids, id)
	}
	sort.Strings(ids)
	out := []rec{}
	for _, id := range ids {
		e := rec{"id": bytesOf(id), "key": []int{}, "idx": false}
		if k := w.model[id]; k != nil {
			e["key"] = bytesOf(*k)
			e["idx"] = true
		}
		out = append(out, e)
	}
	return out
}

// mutate sets id to key (nil pointer: value without index key; del: delete).
func (w *c13world) mutate(id string, key *string, del bool, other int) error {
	return w.mutateTxn(id, []mutOp{{key, del}}, other)
}

type mutOp struct {
	key *string
	del bool
}

// mutateTxn performs several mutations of one id inside ONE write transaction (optionally reading first).
func (w *c13world) mutateTxn(id string, ops []mutOp, other int) error {
	return w.mutateTxnObs(id, ops, other, nil)
}

// mutateTxnObs is mutateTxn with obs called around every operation that succeeded (model state before/after).
func (w *c13world) mutateTxnObs(id string, ops []mutOp, other int, obs func(before, after []rec, b, a rec)) error {
	entry := func() rec {
		e := rec{"id": bytesOf(id), "key": []int{}, "idx": false}
		if k, ok := w.model[id]; ok && k != nil {
			e = rec{"id": bytesOf(id), "key": bytesOf(*k), "idx": true}
		}
		return e
	}
	t := w.bs.Write(id)
	defer t.Close()
	var firstErr error
	if other%3 == 0 {
		t.Value() // populate whatever the transaction caches
	}
	for _, o := range ops {
		var err error
		before, b := w.entries(), entry()
		switch {
		case o.del:
			err = t.Delete()
			if err == nil {
				delete(w.model, id)
			}
		case t.Exists():
			err = t.Update(mkIval(o.key, other))
			if err == nil {
				w.model[id] = o.key
			}
		default:
			err = t.Create(mkIval(o.key, other))
			if err == nil {
				w.model[id] = o.key
			}
		}
		if err != nil && firstErr == nil {
			firstErr = err
		}
		if err == nil && obs != nil {
			obs(before, w.entries(), b, entry())
		}
	}
	return firstErr
}

func mkIval(key *string, other int) ival {
	if key == nil {
		return ival{Other: other}
	}
	return ival{Key: []byte(*key), Indexed: true, Other: other}
}

func (w *c13world) query(q iquery) ([][]int, error) {
	r, err := w.qs.Query(q.values())
	if err != nil {
		return nil, err
	}
	out := [][]int{}
	for _, id := range r.([]string) {
		out = append(out, bytesOf(id))
	}
	return out, nil
}

// "k;" is, in a store without prefix, a database key that is the exact successor of the query prefix "k:" of index "k".
// (Ids that start with "<index name>:" share the key space of the index entries of a prefix-less store and are outside the judged domain.)
var c13ids = []string{"a", "b", "ab", "ba", "k;"}
var c13keys = []string{"", "a", "b", "c", "aa", "ab", "ca", "\xff", "a\xff", "a\xffb"}
var c13prefixes = []string{"", "a", "b", "c", "aa", "ab", "ac", "ca", "d", "aab", "a\x00", "\x00", "ab\x00a", "\xff", "a\xff"}

func randQuery(rng *rand.Rand) iquery {
	return iquery{prefix: c13prefixes[rng.Intn(len(c13prefixes))], filter: []string{"none", "none", "odd"}[rng.Intn(3)], offset: rng.Intn(4),
		// (limits at the edge of the integer range: "as many as there are")
		limit: []int{-1, -1, 0, 1, 2, 5, math.MaxInt64, math.MaxInt64 - 2, math.MaxInt32, math.MinInt64}[rng.Intn(10)], reverse: rng.Intn(2) == 0}
}

func randMutation(w *c13world, rng *rand.Rand) (string, *string, bool) {
	id := c13ids[rng.Intn(len(c13ids))]
	switch rng.Intn(6) {
	case 0:
		return id, nil, true
	case 1:
		return id, nil, false
	}
	k := c13keys[rng.Intn(len(c13keys))]
	return id, &k, false
}

func classifyC13(r rec) string {
	if r["kind"] == "query" {
		q := r["q"].(rec)
		if r["flushrace"] == true {
			return "stale-after-flush"
		}
		if q["reverse"] == true {
			return "query:reverse"
		}
		return "query:forward"
	}
	return fmt.Sprint(r["kind"])
}

// RunC13 executes the C13 check.
func RunC13(c *core.Ctx) {
	c.SetLevel("model_checking")
	c.Assume("ids contain no NUL byte; index keys contain none either, except in the composite-key histories (keys <a> NUL <b> with exactly one NUL, judged only for prefixes that contain the NUL, where the order of the entry bytes and the order by (key, id) agree)")
	core.ModelMustHold(c, core.ModelCheck(c, "MCIndex", "MCIndex.cfg", core.TLCOpts{}), "MCIndex")
	rng := rand.New(rand.NewSource(c.Seed))
	var recs []interface{}
	for h := 0; h < c.Pick(12, 120); h++ {
		w, err := newC13World([]string{"", "pfx"}[h%2])
		if err != nil {
			c.Inconclusive("cannot open store: %v", err)
			return
		}
		for step := 0; step < 8; step++ {
			id, key, del := randMutation(w, rng)
			ops := []mutOp{{key, del}}
			for rng.Intn(3) == 0 && len(ops) < 3 { // several mutations of the id in one transaction
				_, k2, d2 := randMutation(w, rng)
				ops = append(ops, mutOp{k2, d2})
			}
			w.mutateTxn(id, ops, step)
			if step == 2+h%3 {
				// Init in the middle of the history: it creates the ids that are missing (once per store) and
				// leaves the values that exist alone - also in the indexes
				seedKeys := map[string]string{}
				err := w.bs.Init(func(add func(id string, v interface{})) error {
					for k := 0; k < 3; k++ {
						sid, sk := c13ids[rng.Intn(len(c13ids))], c13keys[1+rng.Intn(len(c13keys)-1)]
						if _, dup := seedKeys[sid]; dup {
							continue
						}
						seedKeys[sid] = sk
						key := sk
						add(sid, mkIval(&key, 77))
					}
					return nil
				})
				if err == nil && !w.inited {
					w.inited = true
					for sid, sk := range seedKeys {
						if _, exists := w.model[sid]; !exists {
							key := sk
							w.model[sid] = &key
						}
					}
				}
			}
			w.qs.Flush()
			ents := w.entries()
			for k := 0; k < c.Pick(14, 40); k++ {
				q := randQuery(rng)
				got, err := w.query(q)
				if err != nil {
					c.Violate(core.Violation{Signature: map[string]string{"engine": "c13", "kind": "query-error"}, Text: fmt.Sprintf("query %+v failed: %v", q, err), Replay: q.rec()})
					continue
				}
				recs = append(recs, rec{"kind": "query", "entries": ents, "q": q.rec(), "got": got, "dbg": fmt.Sprintf("history %d step %d", h, step)})
			}
		}
		// the indexes rebuilt from the stored values answer every query as before
		if err := w.qs.RebuildIndexes(); err != nil {
			c.Violate(core.Violation{Signature: map[string]string{"engine": "c13", "kind": "rebuild-error"}, Text: fmt.Sprintf("RebuildIndexes failed: %v", err), Replay: fmt.Sprint(h)})
		}
		w.qs.Flush()
		ents := w.entries()
		for k := 0; k < c.Pick(14, 40); k++ {
			q := randQuery(rng)
			if got, err := w.query(q); err == nil {
				recs = append(recs, rec{"kind": "query", "entries": ents, "q": q.rec(), "got": got, "dbg": fmt.Sprintf("history %d after RebuildIndexes", h)})
			}
		}
		w.close()
	}
	// a change listener that reacts to the notification of the first seeded value by writing another seeded id:
	// whether that write finds the value or not, after Init and Flush the index says what the store holds
	for h := 0; h < c.Pick(4, 20); h++ {
		w, err := newC13World([]string{"", "pfx"}[h%2])
		if err != nil {
			break
		}
		k1, k2, k3 := c13keys[1+h%3], c13keys[4+h%3], c13keys[2+h%4]
		var once sync.Once
		w.bs.OnChange(func(id string, before, after interface{}) {
			if before == nil && (id == "a" || id == "b") {
				once.Do(func() {
					other := map[string]string{"a": "b", "b": "a"}[id]
					t := w.bs.Write(other)
					if t.Update(mkIval(&k3, 5)) == nil {
						w.cbMu.Lock()
						w.lateKey = map[string]string{other: k3}
						w.cbMu.Unlock()
					}
					t.Close()
				})
			}
		})
		w.bs.Init(func(add func(id string, v interface{})) error {
			add("a", mkIval(&k1, 1))
			add("b", mkIval(&k2, 2))
			return nil
		})
		w.model["a"], w.model["b"] = &k1, &k2
		w.cbMu.Lock()
		for id, k := range w.lateKey {
			kk := k
			w.model[id] = &kk
		}
		w.cbMu.Unlock()
		w.qs.Flush()
		ents := w.entries()
		for k := 0; k < c.Pick(12, 30); k++ {
			q := randQuery(rng)
			if got, err := w.query(q); err == nil {
				recs = append(recs, rec{"kind": "query", "entries": ents, "q": q.rec(), "got": got, "dbg": fmt.Sprintf("init-listener history %d: a change listener writes another seeded id during Init", h)})
			}
		}
		w.close()
	}
	// Flush racing with the index task (the task is held inside the queue consumer)
	for h := 0; h < c.Pick(6, 40); h++ {
		w, err := newC13World("")
		if err != nil {
			break
		}
		k1 := "a"
		w.mutate("a", &k1, false, 0)
		w.qs.Flush()
		atomic.StoreInt32(&w.hold, 1)
		k2 := []string{"b", "c", "ab"}[h%3]
		w.mutate([]string{"a", "b"}[h%2], &k2, false, 1)
		select {
		case <-w.atGate:
		case <-time.After(time.Second):
		}
		done := make(chan struct{})
		go func() { w.qs.Flush(); close(done) }()
		early := false
		select {
		case <-done:
			early = true
		case <-time.After(30 * time.Millisecond):
		}
		if early {
			// Flush has returned: the query must see the mutation
			q := iquery{prefix: "", filter: "none", limit: -1}
			got, _ := w.query(q)
			recs = append(recs, rec{"kind": "query", "flushrace": true, "entries": w.entries(), "q": q.rec(), "got": got, "dbg": "Flush returned while the index task of the last mutation was still held before its transaction"})
		}
		atomic.StoreInt32(&w.hold, 0)
		close(w.gate)
		<-done
		q := randQuery(rng)
		got, _ := w.query(q)
		recs = append(recs, rec{"kind": "query", "entries": w.entries(), "q": q.rec(), "got": got, "dbg": "after the held task was released and Flush returned"})
		w.close()
	}
	// composite keys: index keys of the form <a> NUL <b> next to plain keys equal to some <a>, queried with
	// prefixes that contain the NUL byte. The raw prefix scan also meets entries of the plain keys whose id
	// starts like <b> (they match only because the prefix runs past the key into the id): they are no hits.
	for h := 0; h < c.Pick(6, 40); h++ {
		w, err := newC13World([]string{"", "pfx."}[h%2])
		if err != nil {
			break
		}
		ckeys := []string{"se\x00a", "se\x00ab", "se\x00b", "no\x00a", "se", "se", "no", "dk"}
		cids := []string{"a", "a1", "ab", "b", "x1", "x2", "x3", "x4"}
		for step := 0; step < 14; step++ {
			id := cids[rng.Intn(len(cids))]
			k := ckeys[rng.Intn(len(ckeys))]
			w.mutate(id, &k, rng.Intn(8) == 0, step)
		}
		w.qs.Flush()
		ents := w.entries()
		for k := 0; k < c.Pick(30, 80); k++ {
			q := iquery{prefix: []string{"se\x00", "se\x00a", "se\x00ab", "no\x00", "se\x00c", "se\x00b"}[rng.Intn(6)], filter: []string{"none", "none", "odd"}[rng.Intn(3)],
				offset: rng.Intn(5), limit: []int{-1, -1, 0, 1, 2, 5}[rng.Intn(6)], reverse: rng.Intn(2) == 0}
			got, err := w.query(q)
			if err != nil {
				c.Violate(core.Violation{Signature: map[string]string{"engine": "c13", "kind": "query-error"}, Text: fmt.Sprintf("query %+v failed: %v", q, err), Replay: q.rec()})
				continue
			}
			recs = append(recs, rec{"kind": "query", "entries": ents, "q": q.rec(), "got": got, "dbg": fmt.Sprintf("composite-key history %d", h)})
		}
		w.close()
	}
	// a backlog of index updates longer than the index task queue: the indexer is held while one writer
	// makes 300 changes (many to ids whose earlier change is still pending), then released
	for h := 0; h < c.Pick(2, 12); h++ {
		w, err := newC13World([]string{"", "pfx."}[h%2])
		if err != nil {
			break
		}
		atomic.StoreInt32(&w.hold, 1)
		wrng := rand.New(rand.NewSource(c.Seed*131 + int64(h)))
		done := make(chan struct{})
		go func() {
			defer close(done)
			for i := 0; i < 300; i++ {
				id, key, del := randMutation(w, wrng)
				w.mutate(id, key, del, i)
			}
		}()
		select {
		case <-w.atGate:
		case <-time.After(2 * time.Second):
		}
		select {
		case <-done: // the writer was never held up
		case <-time.After(40 * time.Millisecond):
		}
		atomic.StoreInt32(&w.hold, 0)
		close(w.gate)
		select {
		case <-done:
		case <-time.After(30 * time.Second):
			c.Inconclusive("c13 backlog history %d: the writer did not finish", h)
			w.close()
			continue
		}
		w.qs.Flush()
		ents := w.entries()
		for k := 0; k < c.Pick(20, 60); k++ {
			q := randQuery(rng)
			got, err := w.query(q)
			if err != nil {
				c.Violate(core.Violation{Signature: map[string]string{"engine": "c13", "kind": "query-error"}, Text: fmt.Sprintf("query %+v failed: %v", q, err), Replay: q.rec()})
				continue
			}
			recs = append(recs, rec{"kind": "query", "entries": ents, "q": q.rec(), "got": got, "dbg": fmt.Sprintf("backlog history %d: 300 changes while the indexer was held", h)})
		}
		w.close()
	}
	core.CheckRecords(c, "TraceIndex", "TraceIndex.cfg", recs, nil, func(i int, r interface{}, inv string) {
		m := r.(rec)
		c.Violate(core.Violation{Signature: map[string]string{"engine": "c13", "kind": classifyC13(m)},
			Text: fmt.Sprintf("index query differs from the sorted/filtered/windowed scan: entries %v query %v got %v [%v]", m["entries"], m["q"], m["got"], m["dbg"]), Replay: m})
	})
	c.Cover("traces_validated_against_impl", len(recs))
	c.Cover("evaluations", len(recs))
	c.Cover("rule", "random histories of 8 creates/updates/deletes over 4 ids and 7 keys (empty key, nil key) on a real BadgerDB query store with and without prefix; after every mutation and Flush 14 (thorough 40) random queries over 13 prefixes (incl. NUL bytes, longer than any key) x filter x offset 0-3 x limit {-1,0,1,2,5} x direction; plus Flush racing with an index task held at the bs.idx.start hook; one record per query judged by TLC (TraceIndex: got = RefQuery)")
	if len(recs) > 0 {
		c.Sample(recs[len(recs)/2])
	}
}

// RunC14 executes the C14 check.
func RunC14(c *core.Ctx) {
	c.SetLevel("model_checking")
	c.Assume("the query-change contract is judged at the store (callbacks, Events().reset) and, through store.QueryHandler on a recording connection, as 'a reset or query event is published whenever the result of the served query differs'")
	core.ModelMustHold(c, core.ModelCheck(c, "MCIndex", "MCIndex.cfg", core.TLCOpts{}), "MCIndex")
	rng := rand.New(rand.NewSource(c.Seed))
	var recs []interface{}
	for h := 0; h < c.Pick(10, 100); h++ {
		w, err := newC13World("")
		if err != nil {
			c.Inconclusive("cannot open store: %v", err)
			return
		}
		var muts []rec
		for step := 0; step < 8; step++ {
			id, key, del := randMutation(w, rng)
			ops := []mutOp{{key, del}}
			// half of the transactions perform several operations on the id before they are closed
			for rng.Intn(2) == 0 && len(ops) < 3 {
				_, k2, d2 := randMutation(w, rng)
				ops = append(ops, mutOp{k2, d2})
			}
			type opObs struct {
				before, after []rec
				b, a          rec
			}
			var seen []opObs
			ncb := len(w.lastQC)
			w.mutateTxnObs(id, ops, step, func(before, after []rec, b, a rec) {
				seen = append(seen, opObs{before, after, b, a})
			})
			w.qs.Flush()
			var keyChanging []opObs
			for _, o := range seen {
				muts = append(muts, rec{"b": o.b, "a": o.a})
				if o.b["idx"] != o.a["idx"] || (o.b["idx"] == true && fmt.Sprint(o.b["key"]) != fmt.Sprint(o.a["key"])) {
					keyChanging = append(keyChanging, o)
				}
			}
			w.cbMu.Lock()
			qcs := append([]store.QueryChange(nil), w.lastQC[ncb:]...)
			w.cbMu.Unlock()
			if len(qcs) != len(keyChanging) {
				continue // reported by the callbacks record below
			}
			for oi, qc := range qcs {
				o := keyChanging[oi]
				for k := 0; k < c.Pick(10, 30); k++ {
					q := randQuery(rng)
					_, affected, err := qc.Events(q.values())
					if err != nil {
						continue
					}
					recs = append(recs, rec{"kind": "change", "entries": o.before, "after": o.after, "b": o.b, "a": o.a, "q": q.rec(), "affected": affected, "dbg": fmt.Sprintf("history %d step %d op %d of %d", h, step, oi+1, len(ops))})
				}
			}
		}
		problems := cbProblems(w, muts)
		recs = append(recs, rec{"kind": "callbacks", "problems": problems, "dbg": fmt.Sprintf("history %d", h)})
		w.close()
	}
	// a backlog longer than the index task queue: the indexer is held while one writer makes 330 changes
	// (most ids are changed again while their earlier change is still pending), then released
	for h := 0; h < c.Pick(3, 16); h++ {
		w, err := newC13World([]string{"", "pfx."}[h%2])
		if err != nil {
			break
		}
		atomic.StoreInt32(&w.hold, 1)
		wrng := rand.New(rand.NewSource(c.Seed*137 + int64(h)))
		var muts []rec
		done := make(chan struct{})
		go func() {
			defer close(done)
			for i := 0; i < 330; i++ {
				id, key, del := randMutation(w, wrng)
				w.mutateTxnObs(id, []mutOp{{key, del}}, i, func(_, _ []rec, b, a rec) { muts = append(muts, rec{"b": b, "a": a}) })
			}
		}()
		select {
		case <-w.atGate:
		case <-time.After(2 * time.Second):
		}
		select {
		case <-done:
		case <-time.After(40 * time.Millisecond):
		}
		atomic.StoreInt32(&w.hold, 0)
		close(w.gate)
		select {
		case <-done:
		case <-time.After(30 * time.Second):
			c.Inconclusive("c14 backlog history %d: the writer did not finish", h)
			w.close()
			continue
		}
		w.qs.Flush()
		recs = append(recs, rec{"kind": "callbacks", "problems": cbProblems(w, muts), "dbg": fmt.Sprintf("backlog history %d: 330 changes while the indexer was held", h)})
		w.close()
	}
	// through the query handler: a client of the served query resource is told whenever its result differs
	for h := 0; h < c.Pick(4, 30); h++ {
		if r := queryHandlerHistory(c, rng, h); r != nil {
			recs = append(recs, r...)
		}
	}
	for h := 0; h < c.Pick(10, 60); h++ {
		// one ordinary resource per first letter of the key: values move from one resource to another
		if r := queryHandlerHistory(c, rng, 3*h+2); r != nil {
			recs = append(recs, r...)
		}
	}
	for h := 0; h < c.Pick(3, 20); h++ {
		if r := eventListHistory(c, rng, h); r != nil {
			recs = append(recs, r...)
		}
	}
	core.CheckRecords(c, "TraceIndex", "TraceIndex.cfg", recs, nil, func(i int, r interface{}, inv string) {
		m := r.(rec)
		kind := fmt.Sprint(m["kind"])
		c.Violate(core.Violation{Signature: map[string]string{"engine": "c14", "kind": kind},
			Text: fmt.Sprintf("query-change contract violated (%s): %v", kind, trimRec(m)), Replay: m})
	})
	c.Cover("traces_validated_against_impl", len(recs))
	c.Cover("evaluations", len(recs))
	c.Cover("rule", "random mutation histories on a real BadgerDB query store; for every key-changing mutation 10 (thorough 30) random queries: QueryChange.Events().reset against MustAffect (RefQuery before # RefQuery after) and MustNotAffect (neither key matches); callback count/order/after-commit per history; histories through store.QueryHandler (ordinary and query resources) checking that a reset or query event is published whenever the served result differs and that query requests are answered with the fresh result")
	if len(recs) > 0 {
		c.Sample(trimRec(recs[0].(rec)))
	}
}

// cbProblems compares the query-change callbacks seen so far with the mutations made: exactly one per
// key-changing mutation, in mutation order, after the index commit.
func cbProblems(w *c13world, muts []rec) []string {
	w.cbMu.Lock()
	defer w.cbMu.Unlock()
	problems := []string{}
	var exp []rec
	for _, m := range muts {
		b, a := m["b"].(rec), m["a"].(rec)
		if b["idx"] != a["idx"] || (b["idx"] == true && fmt.Sprint(b["key"]) != fmt.Sprint(a["key"])) {
			exp = append(exp, m)
		}
	}
	if len(exp) != len(w.cbs) {
		return append(problems, fmt.Sprintf("%d query-change callbacks for %d key-changing mutations", len(w.cbs), len(exp)))
	}
	// the order is promised per id
	perID := map[string][]rec{}
	for _, m := range exp {
		id := fmt.Sprint(m["b"].(rec)["id"])
		perID[id] = append(perID[id], m)
	}
	pos := map[string]int{}
	for i, cb := range w.cbs {
		id := fmt.Sprint(cb["b"].(rec)["id"])
		k := pos[id]
		pos[id]++
		if k >= len(perID[id]) {
			problems = append(problems, fmt.Sprintf("callback %d: more callbacks for id %s than key-changing mutations of it", i+1, id))
			continue
		}
		m := perID[id][k]
		if fmt.Sprint(m["b"]) != fmt.Sprint(cb["b"]) || fmt.Sprint(m["a"]) != fmt.Sprint(cb["a"]) {
			problems = append(problems, fmt.Sprintf("callback %d reports %v -> %v, key-changing mutation %d of that id was %v -> %v", i+1, cb["b"], cb["a"], k+1, m["b"], m["a"]))
		}
		if cb["afterCommit"] != true {
			problems = append(problems, fmt.Sprintf("callback %d ran before the index transaction committed", i+1))
		}
		if len(problems) > 6 {
			break
		}
	}
	return problems
}

func trimRec(m rec) rec {
	out := rec{}
	for k, v := range m {
		s := fmt.Sprint(v)
		if len(s) > 300 {
			s = s[:300] + "..."
		}
		out[k] = s
	}
	return out
}

// eventListHistory: a query store that reports event lists (mockstore) behind store.QueryHandler with the
// collection transformer. Several clients hold query results - some write the same query in different ways -,
// ids are added and removed, every client asks on the query event's subject and applies what it is given:
// it must then hold what a fresh get returns.
func eventListHistory(c *core.Ctx, rng *rand.Rand, h int) []interface{} {
	var mu sync.Mutex
	ids := []string{"b", "d"}
	query := func(q url.Values) []string {
		mu.Lock()
		defer mu.Unlock()
		out := []string{}
		for _, id := range ids {
			if id >= q.Get("from") {
				out = append(out, id)
			}
		}
		return out
	}
	qst := mockstore.NewQueryStore(func(q url.Values) (interface{}, error) { return query(q), nil })
	s := res.NewService("test")
	s.SetLogger(logger.NewMemLogger())
	s.SetWorkerCount(1)
	s.SetQueryEventDuration(30 * time.Millisecond)
	s.Handle("items", res.Collection, store.QueryHandler{}.WithQueryStore(qst).
		WithQueryRequestHandler(func(rname string, _ map[string]string, q url.Values) (url.Values, string, error) {
			nq := url.Values{"from": {q.Get("from")}, "limit": {q.Get("limit")}}
			return nq, nq.Encode(), nil
		}).
		WithTransformer(store.IDToRIDCollectionTransformer(func(id string) string { return "test.item." + id })))
	hs, err := serve(s)
	if err != nil {
		return nil
	}
	defer hs.close()
	forms := []string{"from=a&limit=10", "limit=10&from=a", "from=c&limit=10", "from=a", "limit=10&from=c"}
	held := map[string][]string{}
	refs := func(r rec) []string {
		out := []string{}
		if cs, ok := r["c"].([]string); ok {
			for _, cj := range cs {
				var ref struct {
					RID string `json:"rid"`
				}
				json.Unmarshal([]byte(cj), &ref)
				out = append(out, ref.RID)
			}
		}
		return out
	}
	for _, f := range forms {
		r, err := hs.get("test.items?" + f)
		if err != nil {
			return nil
		}
		held[f] = refs(r)
	}
	var out []interface{}
	pool := []string{"a", "b", "c", "d", "e", "f"}
	for step := 0; step < 6; step++ {
		id := pool[rng.Intn(len(pool))]
		mu.Lock()
		before := append([]string{}, ids...)
		present := false
		for _, x := range ids {
			if x == id {
				present = true
			}
		}
		if present {
			var n []string
			for _, x := range ids {
				if x != id {
					n = append(n, x)
				}
			}
			ids = n
		} else {
			ids = append(ids, id)
			sort.Strings(ids)
		}
		mu.Unlock()
		from := len(hs.conn.Pubs())
		qc := mockstore.QueryChange{IDValue: id, OnEvents: func(q url.Values) ([]store.ResultEvent, bool, error) {
			if id < q.Get("from") {
				return nil, false, nil
			}
			idx := 0
			for _, x := range before {
				if x >= q.Get("from") && x < id {
					idx++
				}
			}
			if present {
				return []store.ResultEvent{{Name: "remove", Idx: idx}}, false, nil
			}
			return []store.ResultEvent{{Name: "add", Idx: idx, Value: id}}, false, nil
		}}
		if present {
			qc.BeforeValue = id
		} else {
			qc.AfterValue = id
		}
		qst.TriggerQueryChange(qc)
		// the query event's subject
		subject := ""
		for deadline := time.Now().Add(time.Second); subject == "" && time.Now().Before(deadline); time.Sleep(200 * time.Microsecond) {
			for _, m := range hs.conn.Pubs()[from:] {
				if m.Subject == "event.test.items.query" {
					var p struct {
						Subject string `json:"subject"`
					}
					json.Unmarshal(m.Data, &p)
					subject = p.Subject
				}
			}
		}
		problems := []string{}
		if subject == "" {
			problems = append(problems, "no query event was published for a change of the query store")
		}
		for fi, f := range forms {
			if subject == "" {
				break
			}
			inbox := fmt.Sprintf("inbox.el%d_%d_%d", h, step, fi)
			payload, _ := json.Marshal(map[string]string{"query": f})
			hs.conn.Deliver(subject, inbox, payload)
			var data []byte
			for deadline := time.Now().Add(time.Second); data == nil && time.Now().Before(deadline); time.Sleep(200 * time.Microsecond) {
				if ms := hs.conn.PubsOn(inbox); len(ms) > 0 {
					data = ms[0].Data
				}
			}
			var resp struct {
				Result *struct {
					Events []struct {
						Event string `json:"event"`
						Data  struct {
							Idx   int `json:"idx"`
							Value struct {
								RID string `json:"rid"`
							} `json:"value"`
						} `json:"data"`
					} `json:"events"`
					Collection []struct {
						RID string `json:"rid"`
					} `json:"collection"`
				} `json:"result"`
				Error *struct {
					Code string `json:"code"`
				} `json:"error"`
			}
			if data == nil || json.Unmarshal(data, &resp) != nil || resp.Result == nil {
				problems = append(problems, fmt.Sprintf("query request %q on the query event's subject was answered with %s", f, data))
				continue
			}
			cur := held[f]
			if resp.Result.Collection != nil {
				cur = []string{}
				for _, e := range resp.Result.Collection {
					cur = append(cur, e.RID)
				}
			}
			for _, e := range resp.Result.Events {
				switch e.Event {
				case "add":
					if e.Data.Idx < 0 || e.Data.Idx > len(cur) {
						problems = append(problems, fmt.Sprintf("query %q: add index %d out of range", f, e.Data.Idx))
						continue
					}
					cur = append(cur[:e.Data.Idx], append([]string{e.Data.Value.RID}, cur[e.Data.Idx:]...)...)
				case "remove":
					if e.Data.Idx < 0 || e.Data.Idx >= len(cur) {
						problems = append(problems, fmt.Sprintf("query %q: remove index %d out of range", f, e.Data.Idx))
						continue
					}
					cur = append(cur[:e.Data.Idx], cur[e.Data.Idx+1:]...)
				}
			}
			held[f] = cur
		}
		for _, f := range forms {
			r, err := hs.get("test.items?" + f)
			if err != nil {
				continue
			}
			if fresh := refs(r); fmt.Sprint(fresh) != fmt.Sprint(held[f]) {
				problems = append(problems, fmt.Sprintf("client of query %q holds %v after applying what it was given, a fresh get returns %v", f, held[f], fresh))
				held[f] = fresh
			}
		}
		out = append(out, rec{"kind": "callbacks", "problems": problems, "dbg": fmt.Sprintf("event-list history %d step %d", h, step)})
		time.Sleep(35 * time.Millisecond) // let the query event expire
	}
	return out
}

// queryHandlerHistory serves the index through store.QueryHandler and checks notification end to end.
func queryHandlerHistory(c *core.Ctx, rng *rand.Rand, h int) []interface{} {
	w, err := newC13World("")
	if err != nil {
		return nil
	}
	defer w.close()
	s := res.NewService("test")
	s.SetLogger(nil)
	s.SetWorkerCount(1)
	s.SetQueryEventDuration(20 * time.Millisecond)
	isQuery := h%3 == 0
	param := h%3 == 2 // an ordinary resource per first letter of the key: test.by.a, test.by.b, test.by.c
	qh := store.QueryHandler{QueryStore: w.qs, Transformer: store.IDToRIDCollectionTransformer(func(id string) string { return "test.item." + id })}
	fixed := iquery{prefix: []string{"", "a"}[h%2], filter: "none", limit: -1}
	pattern := "list"
	switch {
	case isQuery:
		qh.QueryRequestHandler = func(rname string, pp map[string]string, q url.Values) (url.Values, string, error) {
			iq := iquery{prefix: q.Get("p"), filter: "none", limit: -1}
			return iq.values(), "p=" + q.Get("p"), nil
		}
	case param:
		pattern = "by.$first"
		qh.RequestHandler = func(rname string, pp map[string]string) (url.Values, error) {
			return iquery{prefix: pp["first"], filter: "none", limit: -1}.values(), nil
		}
		qh.AffectedResources = func(p res.Pattern, qc store.QueryChange) []string {
			var rids []string
			for _, v := range []interface{}{qc.Before(), qc.After()} {
				if iv, ok := v.(ival); ok && iv.Indexed && len(iv.Key) > 0 && iv.Key[0] >= 'a' && iv.Key[0] <= 'c' {
					rid := string(p.ReplaceTag("first", string(iv.Key[:1])))
					if len(rids) == 0 || rids[0] != rid {
						rids = append(rids, rid)
					}
				}
			}
			return rids
		}
	default:
		qh.RequestHandler = func(rname string, pp map[string]string) (url.Values, error) { return fixed.values(), nil }
	}
	s.Handle(pattern, res.Collection, qh)
	hs, err := serve(s)
	if err != nil {
		return nil
	}
	defer hs.close()
	var out []interface{}
	rids := []string{"test.list"}
	getRids := []string{"test.list"}
	if isQuery {
		getRids = []string{"test.list?p=" + fixed.prefix}
	}
	if param {
		rids = []string{"test.by.a", "test.by.b", "test.by.c"}
		getRids = rids
	}
	for step := 0; step < 6; step++ {
		before := make([]rec, len(rids))
		for i := range rids {
			if before[i], err = hs.get(getRids[i]); err != nil {
				return out
			}
		}
		from := len(hs.conn.Pubs())
		id, key, del := randMutation(w, rng)
		if w.mutate(id, key, del, step) != nil {
			continue
		}
		w.qs.Flush()
		time.Sleep(2 * time.Millisecond)
		problems := []string{}
		for i, rid := range rids {
			after, err := hs.get(getRids[i])
			if err != nil {
				return out
			}
			changed := fmt.Sprint(before[i]["c"]) != fmt.Sprint(after["c"])
			notified := false
			for _, m := range hs.conn.Pubs()[from:] {
				if m.Subject == "system.reset" && strings.Contains(string(m.Data), `"`+rid+`"`) {
					notified = true
				}
				if m.Subject == "event."+rid+".query" {
					notified = true
				}
			}
			if changed && !notified {
				problems = append(problems, fmt.Sprintf("result of %s changed from %v to %v but neither system.reset nor a query event was published", getRids[i], before[i]["c"], after["c"]))
			}
		}
		out = append(out, rec{"kind": "callbacks", "problems": problems, "dbg": fmt.Sprintf("query handler history %d step %d (query resource=%v)", h, step, isQuery)})
	}
	return out
}

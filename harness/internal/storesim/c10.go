// Package storesim holds the engines of the store family (C10, C11, C13, C14).
package storesim

import (
	"bytes"
	"sync"
	"encoding/json"
	"fmt"
	"math/rand"
	"os"
	"sort"
	"strings"
	"sync/atomic"
	"time"

	"github.com/dgraph-io/badger"
	res "github.com/jirenius/go-res"
	"github.com/jirenius/go-res/logger"
	"github.com/jirenius/go-res/store"
	"github.com/jirenius/go-res/store/badgerstore"
	"github.com/jirenius/go-res/store/mockstore"

	"verif/internal/core"
	"verif/internal/rconn"
)

type rec = map[string]interface{}

// canon gives the canonical text of a JSON value (the atom TLC compares).
func canon(raw json.RawMessage) string {
	var v interface{}
	dec := json.NewDecoder(bytes.NewReader(raw))
	dec.UseNumber() // (numbers are compared as written, not as float64)
	if err := dec.Decode(&v); err != nil {
		return "!" + string(raw)
	}
	// a data value that wraps a primitive stands for that primitive ({"data":null} is null, {"data":12} is 12):
	// the wrapper only matters for objects and arrays, and the library sends such values unwrapped
	if m, ok := v.(map[string]interface{}); ok && len(m) == 1 {
		if d, has := m["data"]; has {
			switch d.(type) {
			case map[string]interface{}, []interface{}:
			default:
				v = d
			}
		}
	}
	b, _ := json.Marshal(v)
	s := string(b)
	if s == `{"action":"delete"}` {
		return "DELETE"
	}
	return s
}

// OpenBadger opens a throw-away BadgerDB outside /repo and /verif.
func OpenBadger() (*badger.DB, func(), error) {
	dir, err := os.MkdirTemp("", "vbadger-")
	if err != nil {
		return nil, nil, err
	}
	opts := badger.DefaultOptions(dir)
	opts.Logger = nil
	opts.SyncWrites = false
	db, err := badger.Open(opts)
	if err != nil {
		os.RemoveAll(dir)
		return nil, nil, err
	}
	return db, func() { db.Close(); os.RemoveAll(dir) }, nil
}

// svcHarness is a served service on a recording connection.
type svcHarness struct {
	s    *res.Service
	conn *rconn.Conn
	done chan error
	rq   chan string
}

func serve(s *res.Service) (*svcHarness, error) {
	h := &svcHarness{s: s, conn: rconn.New(nil), done: make(chan error, 1), rq: make(chan string, 64)}
	res.VerifHook = func(p string, a ...interface{}) {
		if p == "rq.done" && len(a) > 1 {
			select {
			case h.rq <- fmt.Sprint(a[1]):
			default:
			}
		}
	}
	served := make(chan struct{})
	s.SetOnServe(func(*res.Service) { close(served) })
	go func() { h.done <- s.Serve(h.conn) }()
	select {
	case <-served:
		return h, nil
	case <-time.After(3 * time.Second):
		return nil, fmt.Errorf("service did not start")
	}
}

func (h *svcHarness) close() {
	h.s.Shutdown()
	select {
	case <-h.done:
	case <-time.After(3 * time.Second):
	}
	res.VerifHook = nil
}

var inboxN int

// get performs a get request and returns the served representation as a ResClient value.
func (h *svcHarness) get(rid string) (rec, error) {
	inboxN++
	inbox := fmt.Sprintf("inbox.g%d", inboxN)
	name, query := rid, ""
	if i := strings.IndexByte(rid, '?'); i >= 0 {
		name, query = rid[:i], rid[i+1:]
	}
	payload := []byte(nil)
	if query != "" {
		payload, _ = json.Marshal(map[string]string{"query": query})
	}
	if n, err := h.conn.Deliver("get."+name, inbox, payload); n != 1 || err != nil {
		return nil, fmt.Errorf("get %s delivered %d times: %v", rid, n, err)
	}
	deadline := time.After(3 * time.Second)
	for {
		select {
		case r := <-h.rq:
			if r != inbox {
				continue
			}
		case <-deadline:
			return nil, fmt.Errorf("get %s not processed", rid)
		}
		break
	}
	ms := h.conn.PubsOn(inbox)
	if len(ms) != 1 {
		return nil, fmt.Errorf("get %s answered %d times", rid, len(ms))
	}
	return parseGet(ms[0].Data)
}

func parseGet(data []byte) (rec, error) {
	var resp struct {
		Result *struct {
			Model      map[string]json.RawMessage `json:"model"`
			Collection []json.RawMessage          `json:"collection"`
			Query      string                     `json:"query"`
		} `json:"result"`
		Error *struct {
			Code string `json:"code"`
		} `json:"error"`
	}
	if err := json.Unmarshal(data, &resp); err != nil {
		return nil, fmt.Errorf("bad get response %s", data)
	}
	if resp.Error != nil {
		if resp.Error.Code == "system.notFound" {
			return rec{"t": "missing"}, nil
		}
		return nil, fmt.Errorf("get error %s", data)
	}
	if resp.Result == nil {
		return nil, fmt.Errorf("bad get response %s", data)
	}
	if resp.Result.Model != nil {
		keys := make([]string, 0, len(resp.Result.Model))
		for k := range resp.Result.Model {
			keys = append(keys, k)
		}
		sort.Strings(keys)
		m := [][]string{}
		for _, k := range keys {
			m = append(m, []string{k, canon(resp.Result.Model[k])})
		}
		return rec{"t": "model", "m": m, "q": resp.Result.Query}, nil
	}
	c := []string{}
	for _, v := range resp.Result.Collection {
		c = append(c, canon(v))
	}
	return rec{"t": "collection", "c": c, "q": resp.Result.Query}, nil
}

// eventsSince abstracts the events published after position from for rid; stray collects
// resource events on other ids.
func (h *svcHarness) eventsSince(from int, rid string) (evs []rec, stray []string, end int) {
	pubs := h.conn.Pubs()
	evs, stray = []rec{}, []string{}
	for _, m := range pubs[from:] {
		if !strings.HasPrefix(m.Subject, "event.") {
			continue
		}
		if !strings.HasPrefix(m.Subject, "event."+rid+".") {
			stray = append(stray, m.Subject)
			continue
		}
		ev := strings.TrimPrefix(m.Subject, "event."+rid+".")
		switch ev {
		case "change":
			var p struct {
				Values map[string]json.RawMessage `json:"values"`
			}
			json.Unmarshal(m.Data, &p)
			keys := make([]string, 0, len(p.Values))
			for k := range p.Values {
				keys = append(keys, k)
			}
			sort.Strings(keys)
			vals := [][]string{}
			for _, k := range keys {
				vals = append(vals, []string{k, canon(p.Values[k])})
			}
			evs = append(evs, rec{"ev": "change", "vals": vals})
		case "add":
			var p struct {
				Value json.RawMessage `json:"value"`
				Idx   int             `json:"idx"`
			}
			json.Unmarshal(m.Data, &p)
			evs = append(evs, rec{"ev": "add", "v": canon(p.Value), "idx": p.Idx})
		case "remove":
			var p struct {
				Idx int `json:"idx"`
			}
			json.Unmarshal(m.Data, &p)
			evs = append(evs, rec{"ev": "remove", "idx": p.Idx})
		default:
			evs = append(evs, rec{"ev": ev})
		}
	}
	return evs, stray, len(pubs)
}

// ---- C10 ---------------------------------------------------------------------

type c10cfg struct {
	typ     string // model | collection
	trans   string // none | id | custom
	def     bool
	backend string // mock | badger
	place   string // "": registered on the service; nested: on a mux mounted into another mux before that one was mounted on the service, handler added last
}

func (c c10cfg) String() string {
	return fmt.Sprintf("%s/trans=%s/default=%v/%s%s", c.typ, c.trans, c.def, c.backend, map[bool]string{true: "/" + c.place}[c.place != ""])
}

type c10world struct {
	thook atomic.Value // func(): called at the start of the custom transformer's Transform (get-race scenario)
	cfg   c10cfg
	base  string // resource name without the id
	h     *svcHarness
	st    store.Store
	clean func()
}

// value pools: concrete JSON values for the abstract alphabet
var c10vals = []interface{}{1, `a"b`, res.Ref("test.other.x"), res.SoftRef("test.soft.y"), res.DataValue[map[string]interface{}]{Data: map[string]interface{}{"x": []int{1}}}, nil, true, 2.5,
	// a data value whose payload is null (what an unset DataValue marshals to)
	res.DataValue[interface{}]{Data: nil},
	// integers that differ but are the same float64
	int64(9007199254740993), int64(9007199254740992), res.DataValue[[]int64]{Data: []int64{9007199254740993}}, res.DataValue[[]int64]{Data: []int64{9007199254740992}}}

// nC10vals is the number of pool values a configuration draws from: the integers beyond float64 precision come
// last and are left to the mock store (the untyped badger store decodes what it stored into float64, so such a
// number is not a value that store can hold)
func nC10vals(cfg c10cfg) int {
	if cfg.backend == "badger" {
		return len(c10vals) - 4
	}
	return len(c10vals)
}

// wrapStore wraps the errors of a store's Value calls (errors.Is still finds store.ErrNotFound in them).
type wrapStore struct{ store.Store }
type wrapRead struct{ store.ReadTxn }
type wrapWrite struct{ store.WriteTxn }

func wrapErr(v interface{}, err error) (interface{}, error) {
	if err != nil {
		return v, fmt.Errorf("value lookup: %w", err)
	}
	return v, nil
}
func (w wrapStore) Read(id string) store.ReadTxn   { return wrapRead{w.Store.Read(id)} }
func (w wrapStore) Write(id string) store.WriteTxn { return wrapWrite{w.Store.Write(id)} }
func (r wrapRead) Value() (interface{}, error)     { return wrapErr(r.ReadTxn.Value()) }
func (r wrapWrite) Value() (interface{}, error)    { return wrapErr(r.WriteTxn.Value()) }

func newC10World(cfg c10cfg) (*c10world, error) {
	w := &c10world{cfg: cfg, base: "test.r."}
	if cfg.place == "nested" {
		w.base = "test.v1.lib.r."
	}
	switch cfg.backend {
	case "badger":
		db, clean, err := OpenBadger()
		if err != nil {
			return nil, err
		}
		w.clean = clean
		bs := badgerstore.NewStore(db)
		if cfg.typ == "collection" {
			bs.SetType([]interface{}(nil))
		}
		w.st = bs
	case "wrapmock":
		// a store that adds context to its errors: "not found" arrives wrapped (as the Store contract allows)
		w.st = wrapStore{mockstore.NewStore()}
		w.clean = func() {}
	default:
		w.st = mockstore.NewStore()
		w.clean = func() {}
	}
	s := res.NewService("test")
	// (a nil logger would make the store handler's own error paths panic in Logger().Errorf)
	s.SetLogger(logger.NewMemLogger())
	s.SetWorkerCount(1)
	sh := store.Handler{Store: w.st}
	pattern := "r.$id"
	switch cfg.trans {
	case "id":
		// one transformer value serves two handlers (as when a handler option is reused for several
		// patterns); the other handler, on a store of its own, publishes first
		tr := store.IDTransformer("id", nil)
		sh.Transformer = tr
		other := mockstore.NewStore()
		if pv := core.Catch(func() { s.Handle("zz.$id.sub", res.Model, store.Handler{Store: other, Transformer: tr}) }); pv != nil {
			w.clean()
			return nil, fmt.Errorf("Handle panicked: %v", pv)
		}
		defer func() {
			if w.h != nil {
				t := other.Write("9")
				t.Create(map[string]interface{}{"first": true})
				t.Close()
			}
		}()
	case "failing":
		// values marked as retired are hidden: Transform fails with the not-found error
		sh.Transformer = store.TransformFuncs(
			func(rid string, pp map[string]string) string { return pp["id"] },
			func(id string, v interface{}, p res.Pattern) string { return string(p.ReplaceTag("id", id)) },
			func(id string, v interface{}) (interface{}, error) {
				switch x := v.(type) {
				case map[string]interface{}:
					if _, ok := x["hidden"]; ok {
						return nil, store.ErrNotFound
					}
				case []interface{}:
					for _, e := range x {
						if e == "hidden" {
							return nil, store.ErrNotFound
						}
					}
				}
				return v, nil
			})
	case "custom":
		// external id differs from the store id and the value is wrapped/renamed
		sh.Transformer = store.TransformFuncs(
			func(rid string, pp map[string]string) string { return "k-" + pp["id"] },
			func(id string, v interface{}, p res.Pattern) string {
				return string(p.ReplaceTag("id", strings.TrimPrefix(id, "k-")))
			},
			func(id string, v interface{}) (interface{}, error) {
				if f, ok := w.thook.Load().(func()); ok && f != nil {
					f()
				}
				switch x := v.(type) {
				case map[string]interface{}:
					out := map[string]interface{}{}
					for k, e := range x {
						if k != "hidden" {
							out["x_"+k] = e
						}
					}
					return out, nil
				case []interface{}:
					var out []interface{}
					for _, e := range x {
						if e != "hidden" {
							out = append(out, e)
						}
					}
					if out == nil {
						out = []interface{}{}
					}
					return out, nil
				}
				return v, nil
			})
	}
	if cfg.def {
		if cfg.typ == "model" {
			sh.Default = map[string]interface{}{"a": 1}
			if cfg.trans == "custom" {
				sh.Default = map[string]interface{}{"x_a": 1}
			}
		} else {
			sh.Default = []interface{}{1}
		}
	}
	var typ res.Option = res.Model
	if cfg.typ == "collection" {
		typ = res.Collection
	}
	reg := func() { s.Handle(pattern, typ, sh) }
	if cfg.place == "nested" {
		reg = func() {
			api, books := res.NewMux(""), res.NewMux("")
			api.Mount("lib", books)
			s.Mount("v1", api)
			books.Handle(pattern, typ, sh)
		}
	}
	if pv := core.Catch(reg); pv != nil {
		w.clean()
		return nil, fmt.Errorf("Handle panicked: %v", pv)
	}
	h, err := serve(s)
	if err != nil {
		w.clean()
		return nil, err
	}
	w.h = h
	return w, nil
}

func (w *c10world) close() { w.h.close(); w.clean() }

func (w *c10world) storeID(id string) string {
	switch w.cfg.trans {
	case "id", "failing":
		return id
	case "custom":
		return "k-" + id
	}
	return w.base + id
}

// mutate applies one store mutation; v == nil deletes.
func (w *c10world) mutate(id string, v interface{}) (err error) {
	// the store handler's change callback runs inside Update/Create/Delete: a panic there is an
	// announcement that did not happen, not a reason to stop the check
	defer func() {
		if pv := recover(); pv != nil {
			err = fmt.Errorf("the store's change callback panicked: %v", pv)
		}
	}()
	txn := w.st.Write(w.storeID(id))
	defer txn.Close()
	if v == nil {
		return txn.Delete()
	}
	if txn.Exists() {
		return txn.Update(v)
	}
	return txn.Create(v)
}

// mutateSeq applies several mutations of one id inside ONE write transaction. A resource that does not
// exist yet is only created (what a client holds after a create followed by further events in the same
// transaction is not defined by the property); an existing one is updated repeatedly, possibly deleted,
// and updated again after the delete - which must fail and publish nothing.
func (w *c10world) mutateSeq(id string, vs []interface{}) (err error) {
	defer func() {
		if pv := recover(); pv != nil {
			err = fmt.Errorf("the store's change callback panicked: %v", pv)
		}
	}()
	txn := w.st.Write(w.storeID(id))
	defer txn.Close()
	if !txn.Exists() {
		for _, v := range vs {
			if v != nil {
				return txn.Create(v)
			}
		}
		return nil
	}
	var first error
	for _, v := range vs {
		var err error
		if v == nil {
			err = txn.Delete()
		} else {
			err = txn.Update(v)
		}
		if err != nil && first == nil {
			first = err
		}
	}
	return first
}

// observeSeq is observe for a transaction with several operations; only coherence is judged for it
// (each operation may publish, so "nothing published when nothing changed" is not promised for the whole).
func (w *c10world) observeSeq(id string, vs []interface{}, dbg string) (rec, error) {
	rid := w.base + id
	before, err := w.h.get(rid)
	if err != nil {
		return nil, err
	}
	if before["t"] == "missing" || w.cfg.trans == "failing" {
		// creation (and visibility flips of the failing transformer) inside a longer transaction: not judged
		for _, v := range vs {
			if v != nil {
				return w.observe(id, v, dbg)
			}
		}
		return w.observe(id, nil, dbg)
	}
	from := len(w.h.conn.Pubs())
	var merr error
	if pv := core.Catch(func() { merr = w.mutateSeq(id, vs) }); pv != nil {
		merr = fmt.Errorf("the store's change callback panicked: %v", pv)
	}
	evs, stray, _ := w.h.eventsSince(from, rid)
	after, err := w.h.get(rid)
	if err != nil {
		return nil, err
	}
	return rec{"judge": "coherent", "before": before, "evs": evs, "after": after, "stray": stray,
		"dbg": fmt.Sprintf("%s %s %d operations in one transaction, first error=%v", w.cfg, dbg, len(vs), merr)}, nil
}

// getRace: while a get request is inside the transformer - after the handler has read the store -
// another goroutine mutates the resource. The client takes the get response as its base and applies the
// events published after it; that must give what a fresh get returns.
func (w *c10world) getRace(id string, v interface{}, dbg string) (rec, error) {
	rid := w.base + id
	var fired int32
	mdone := make(chan error, 1)
	w.thook.Store(func() {
		// only the first Transform call (the get request's) starts the race; the calls made by the
		// mutation's own change callback pass through
		if !atomic.CompareAndSwapInt32(&fired, 0, 1) {
			return
		}
		go func() { mdone <- w.mutate(id, v) }()
		select {
		case err := <-mdone: // the write got through while the get was still being answered
			mdone <- err
		case <-time.After(25 * time.Millisecond): // the write waits for the get to finish
		}
	})
	before, err := w.h.get(rid)
	w.thook.Store(func() {})
	if err != nil {
		return nil, err
	}
	var merr error
	if atomic.LoadInt32(&fired) == 0 {
		// the get was answered without the transformer (value not in the store): an ordinary mutation
		go func() { mdone <- w.mutate(id, v) }()
	}
	select {
	case merr = <-mdone:
	case <-time.After(3 * time.Second):
		return nil, fmt.Errorf("mutation racing with a get did not finish")
	}
	// position of the get response among the published messages
	pubs := w.h.conn.Pubs()
	pos := -1
	for i := len(pubs) - 1; i >= 0; i-- {
		if strings.HasPrefix(pubs[i].Subject, "inbox.g") {
			pos = i
			break
		}
	}
	evs, stray, _ := w.h.eventsSince(pos+1, rid)
	after, err := w.h.get(rid)
	if err != nil {
		return nil, err
	}
	if os.Getenv("VERIF_C10_DEBUG") != "" {
		fmt.Printf("GETRACE fired=%d before=%v evs=%v after=%v merr=%v\n", atomic.LoadInt32(&fired), before, evs, after, merr)
	}
	return rec{"judge": "coherent", "before": before, "evs": evs, "after": after, "stray": stray,
		"dbg": fmt.Sprintf("%s %s: mutation while a get request was being answered (base = that get response, events after it), mutation-error=%v", w.cfg, dbg, merr)}, nil
}

// concurrentResources: n resources of the handler are created, a client gets each of them, then n
// goroutines - one per resource - apply k mutations each at the same time. Per resource: the events
// published for it, applied in order to what the client got, give what a fresh get returns.
func (w *c10world) concurrentResources(seed int64, n, k int) ([]rec, error) {
	ids := make([]string, n)
	before := make([]rec, n)
	mk := func(rng *rand.Rand) interface{} {
		vals := make([]int, rng.Intn(6))
		for i := range vals {
			vals[i] = rng.Intn(nC10vals(w.cfg))
		}
		if w.cfg.typ == "model" {
			m := map[string]interface{}{}
			for i, x := range vals {
				m[[]string{"a", "b", "c", "d", "e", "f"}[i]] = c10vals[x]
			}
			return m
		}
		return mkCollection(vals)
	}
	setup := rand.New(rand.NewSource(seed))
	for i := range ids {
		ids[i] = fmt.Sprintf("c%d", i+1)
		if err := w.mutate(ids[i], mk(setup)); err != nil {
			return nil, err
		}
	}
	w.settle()
	for i := range ids {
		b, err := w.h.get(w.base + ids[i])
		if err != nil {
			return nil, err
		}
		before[i] = b
	}
	from := len(w.h.conn.Pubs())
	var wg sync.WaitGroup
	errs := make([]string, n)
	for i := range ids {
		wg.Add(1)
		go func(i int) {
			defer wg.Done()
			rng := rand.New(rand.NewSource(seed*31 + int64(i)))
			for j := 0; j < k; j++ {
				if err := w.mutate(ids[i], mk(rng)); err != nil && errs[i] == "" {
					errs[i] = err.Error()
				}
			}
		}(i)
	}
	wg.Wait()
	w.settle()
	var out []rec
	for i := range ids {
		rid := w.base + ids[i]
		evs, _, _ := w.h.eventsSince(from, rid)
		after, err := w.h.get(rid)
		if err != nil {
			return out, err
		}
		out = append(out, rec{"judge": "coherent", "before": before[i], "evs": evs, "after": after, "stray": []string{},
			"dbg": fmt.Sprintf("%s resource %s: %d mutations while %d other resources of the handler were mutated by other goroutines, first mutation error=%q", w.cfg, rid, k, n-1, errs[i])})
	}
	return out, nil
}

// settle waits until the service has published everything the mutations so far gave rise to.
func (w *c10world) settle() {
	last, stable := -1, 0
	for i := 0; i < 400 && stable < 5; i++ {
		n := len(w.h.conn.Pubs())
		if n == last {
			stable++
		} else {
			stable, last = 0, n
		}
		time.Sleep(time.Millisecond)
	}
}

// observe performs a mutation and records before / events / after.
func (w *c10world) observe(id string, v interface{}, dbg string) (rec, error) {
	rid := w.base + id
	before, err := w.h.get(rid)
	if err != nil {
		return nil, err
	}
	from := len(w.h.conn.Pubs())
	var merr error
	if pv := core.Catch(func() { merr = w.mutate(id, v) }); pv != nil {
		merr = fmt.Errorf("the store's change callback panicked: %v", pv)
	}
	evs, stray, _ := w.h.eventsSince(from, rid)
	after, err := w.h.get(rid)
	if err != nil {
		return nil, err
	}
	return rec{"judge": "all", "before": before, "evs": evs, "after": after, "stray": stray,
		"dbg": fmt.Sprintf("%s %s mutation-error=%v", w.cfg, dbg, merr)}, nil
}

func mkModel(vals []int) map[string]interface{} {
	m := map[string]interface{}{}
	for i, v := range vals {
		if v >= 0 {
			m[fmt.Sprintf("k%d", i+1)] = c10vals[v]
		}
	}
	return m
}

func mkCollection(vals []int) []interface{} {
	c := []interface{}{}
	for _, v := range vals {
		c = append(c, c10vals[v])
	}
	return c
}

// allSeqs enumerates sequences of length 0..max over 0..n-1.
func allSeqs(n, max int) [][]int {
	out := [][]int{{}}
	prev := [][]int{{}}
	for l := 1; l <= max; l++ {
		var cur [][]int
		for _, p := range prev {
			for v := 0; v < n; v++ {
				cur = append(cur, append(append([]int{}, p...), v))
			}
		}
		out = append(out, cur...)
		prev = cur
	}
	return out
}

func classifyC10(cfg c10cfg, clause string, r rec) string {
	if cfg.def && cfg.trans == "none" {
		return clause + ":default-without-transformer"
	}
	return clause + ":other"
}

// RunC10 executes the C10 check.
func RunC10(c *core.Ctx) {
	c.SetLevel("model_checking")
	c.Assume("values are compared as canonical JSON texts; a create event makes the client fetch the resource")
	core.ModelMustHold(c, core.ModelCheck(c, "MCClient", "MCClient.cfg", core.TLCOpts{}), "MCClient")
	rng := rand.New(rand.NewSource(c.Seed))
	var recs []interface{}
	var cfgOf []c10cfg
	add := func(cfg c10cfg, r rec, err error) {
		if err != nil {
			c.Violate(core.Violation{Signature: map[string]string{"engine": "c10", "kind": "harness:" + cfg.String()}, Text: err.Error(), Replay: cfg.String()})
			return
		}
		recs = append(recs, r)
		cfgOf = append(cfgOf, cfg)
	}
	// (1) exhaustive pairs on the plain configuration
	colLen := c.Pick(3, 4)
	for _, typ := range []string{"collection", "model"} {
		cfg := c10cfg{typ: typ, trans: "id", backend: "mock"}
		w, err := newC10World(cfg)
		if err != nil {
			c.Inconclusive("cannot build %s: %v", cfg, err)
			continue
		}
		var space [][]int
		if typ == "collection" {
			space = allSeqs(3, colLen)
		} else {
			// models: 3 keys, each absent (-1) or one of 3 values
			for _, s := range allSeqs(4, 3) {
				if len(s) == 3 {
					space = append(space, []int{s[0] - 1, s[1] - 1, s[2] - 1})
				}
			}
		}
		n := 0
		for _, a := range space {
			for _, b := range space {
				var va, vb interface{}
				if typ == "collection" {
					va, vb = mkCollection(a), mkCollection(b)
				} else {
					va, vb = mkModel(a), mkModel(b)
				}
				w.mutate("1", va)
				r, err := w.observe("1", vb, fmt.Sprintf("%v -> %v", a, b))
				add(cfg, r, err)
				n++
			}
		}
		w.close()
	}
	// (2) histories over every configuration
	var cfgs []c10cfg
	for _, typ := range []string{"model", "collection"} {
		for _, tr := range []string{"none", "id", "custom", "failing"} {
			for _, def := range []bool{false, true} {
				for _, be := range []string{"mock", "badger"} {
					cfgs = append(cfgs, c10cfg{typ: typ, trans: tr, def: def, backend: be})
					if be == "mock" && !def {
						cfgs = append(cfgs, c10cfg{typ: typ, trans: tr, backend: be, place: "nested"})
					}
					if be == "mock" && def && (tr == "none" || tr == "id") {
						// (with a default: without one the handler answers a wrapped not-found error with
						// system.internalError - get does not report the resource as missing then, and the property
						// speaks of resources that get reports as missing)
						cfgs = append(cfgs, c10cfg{typ: typ, trans: tr, def: def, backend: "wrapmock"})
					}
				}
			}
		}
	}
	for _, cfg := range cfgs {
		w, err := newC10World(cfg)
		if err != nil {
			c.Inconclusive("cannot build %s: %v", cfg, err)
			continue
		}
		for hI := 0; hI < c.Pick(6, 60); hI++ {
			id := fmt.Sprint(1 + hI%3)
			var pending []interface{}
			for step := 0; step < 6; step++ {
				var v interface{}
				if rng.Intn(4) != 0 {
					n := rng.Intn(5)
					vals := make([]int, n)
					for i := range vals {
						vals[i] = rng.Intn(nC10vals(cfg))
					}
					if cfg.typ == "model" {
						m := map[string]interface{}{}
						for i, x := range vals {
							m[[]string{"a", "b", "c", "hidden", "e"}[i]] = c10vals[x]
						}
						v = m
					} else {
						cc := mkCollection(vals)
						if rng.Intn(5) == 0 {
							cc = append(cc, "hidden")
						}
						v = cc
					}
				}
				if step >= 3 {
					// the last steps of a history go into one transaction
					pending = append(pending, v)
					if step == 5 {
						r, err := w.observeSeq(id, pending, fmt.Sprintf("history %d steps 4-6", hI))
						add(cfg, r, err)
					}
					continue
				}
				if cfg.trans == "custom" && step == 2 && v != nil {
					if before, _ := w.h.get(w.base + id); before != nil && before["t"] != "missing" {
						r, err := w.getRace(id, v, fmt.Sprintf("history %d step %d", hI, step))
						add(cfg, r, err)
						continue
					}
				}
				r, err := w.observe(id, v, fmt.Sprintf("history %d step %d", hI, step))
				add(cfg, r, err)
			}
		}
		w.close()
	}
	// (3) several resources of one handler changed at the same time from different goroutines: every client
	// still ends up with what a fresh get returns
	for rI := 0; rI < c.Pick(6, 40); rI++ {
		cfg := c10cfg{typ: []string{"collection", "collection", "model"}[rI%3], trans: []string{"id", "none"}[rI%2], backend: "badger"}
		w, err := newC10World(cfg)
		if err != nil {
			c.Inconclusive("cannot build %s: %v", cfg, err)
			continue
		}
		rs, err := w.concurrentResources(c.Seed*977+int64(rI), 4, 60)
		if err != nil {
			add(cfg, nil, err)
		}
		for _, r := range rs {
			add(cfg, r, nil)
		}
		w.close()
	}
	var bad []int
	core.CheckRecords(c, "TraceClient", "TraceClient.cfg", recs, nil, func(i int, r interface{}, inv string) { bad = append(bad, i) })
	if len(bad) > 0 {
		clauses := []string{"coherent", "silent", "minimal", "rid"}
		var recs2 []interface{}
		var which []string
		var idx []int
		for _, i := range bad {
			for _, cl := range clauses {
				if j := fmt.Sprint(recs[i].(rec)["judge"]); j != "all" && j != cl {
					continue
				}
				r2 := rec{}
				for k, v := range recs[i].(rec) {
					r2[k] = v
				}
				r2["judge"] = cl
				recs2 = append(recs2, r2)
				which = append(which, cl)
				idx = append(idx, i)
			}
		}
		core.CheckRecords(c, "TraceClient", "TraceClient.cfg", recs2, nil, func(j int, r interface{}, inv string) {
			m := r.(rec)
			c.Violate(core.Violation{Signature: map[string]string{"engine": "c10", "kind": classifyC10(cfgOf[idx[j]], which[j], m)},
				Text: fmt.Sprintf("clause %s fails: before %v, events %v, after %v, stray %v [%v]", which[j], m["before"], m["evs"], m["after"], m["stray"], m["dbg"]), Replay: m})
		})
	}
	c.Cover("traces_validated_against_impl", len(recs))
	c.Cover("evaluations", len(recs))
	c.Cover("exhaustive", true)
	c.Cover("rule", fmt.Sprintf("every ordered pair of collections of length<=%d over 3 values and every ordered pair of models over 3 keys x (absent|3 values) through the real store handler; histories of create/update/delete over 24 handler configurations (model|collection x no/ID/custom transformer x default x mockstore|badgerstore) with primitives, references, soft references, data values; one record per mutation judged by TLC (TraceClient.RecordOK)", colLen))
	if len(recs) > 0 {
		c.Sample(recs[len(recs)/2])
		c.Sample(recs[len(recs)-1])
	}
}

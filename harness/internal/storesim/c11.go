package storesim

import (
	"runtime"
	"errors"
	"fmt"
	"math/rand"
	"sort"
	"sync"
	"sync/atomic"

	res "github.com/jirenius/go-res"
	"github.com/jirenius/go-res/store"
	"github.com/jirenius/go-res/store/badgerstore"
	"github.com/jirenius/go-res/store/mockstore"

	"verif/internal/core"
)

// typed value for the typed badger store
type tval struct {
	V string   `json:"v"`
	O string   `json:"o,omitempty"` // set for every second value only: stored documents differ in shape
	S []string `json:"s,omitempty"`
}

// rich tells whether the typed form of abstract value v carries the optional members.
func rich(v string) bool { return len(v) > 0 && (v[len(v)-1]-'0')%2 == 0 }

type c11cfg struct {
	backend string // mock | badger
	typed   bool
	prefix  bool
	genids  bool // mock only: NewID set
	ncb     int  // number of OnChange callbacks
	veto    bool // badger only: BeforeChange vetoes values marked VETO
}

func (c c11cfg) String() string {
	return fmt.Sprintf("%s/typed=%v/prefix=%v/genids=%v/ncb=%d/veto=%v", c.backend, c.typed, c.prefix, c.genids, c.ncb, c.veto)
}

type c11world struct {
	cfg    c11cfg
	st     store.Store
	clean  func()
	cbMu   sync.Mutex
	cbs    [][]string // callbacks since last drain: id, before, after
	nextID  int32
	lastGen string
}

func (w *c11world) abs(v interface{}) string {
	switch x := v.(type) {
	case nil:
		return "NONE"
	case tval:
		// the optional members are exactly those the value was written with
		if rich(x.V) && x.O == "o:"+x.V && len(x.S) == 1 && x.S[0] == "s:"+x.V {
			return x.V
		}
		if !rich(x.V) && x.O == "" && len(x.S) == 0 {
			return x.V
		}
		return fmt.Sprintf("CORRUPT%+v", x)
	case map[string]interface{}:
		return fmt.Sprint(x["v"])
	}
	return fmt.Sprintf("?%v", v)
}

// docMap is a defined type with the underlying type of the untyped store's values: still not that type.
type docMap map[string]interface{}

func (w *c11world) conc(v string) interface{} {
	switch v {
	case "WRONG":
		return "a string is the wrong type"
	case "WRONG2":
		if w.cfg.typed {
			return &tval{V: "w2"} // a pointer to the store's type
		}
		return docMap{"v": "w2"}
	case "NIL":
		return nil
	}
	if w.cfg.typed {
		if rich(v) {
			return tval{V: v, O: "o:" + v, S: []string{"s:" + v}}
		}
		return tval{V: v}
	}
	return map[string]interface{}{"v": v}
}

func newC11World(cfg c11cfg) (*c11world, error) {
	w := &c11world{cfg: cfg}
	onChange := func(id string, before, after interface{}) {
		w.cbMu.Lock()
		w.cbs = append(w.cbs, []string{id, w.abs(before), w.abs(after)})
		w.cbMu.Unlock()
	}
	if cfg.backend == "badger" {
		db, clean, err := OpenBadger()
		if err != nil {
			return nil, err
		}
		w.clean = clean
		bs := badgerstore.NewStore(db)
		if cfg.typed {
			bs.SetType(tval{})
		}
		if cfg.prefix {
			bs.SetPrefix("pfx")
		}
		if cfg.veto {
			bs.BeforeChange(func(id string, before, after interface{}) error {
				if w.abs(after) == "VETO" || (after == nil && w.abs(before) == "vetodel") {
					return errors.New("vetoed")
				}
				return nil
			})
		}
		w.st = bs
	} else {
		ms := mockstore.NewStore()
		if cfg.genids {
			// generated ids come from a small space and may collide with existing resources
			ms.NewID = func() string {
				n := atomic.AddInt32(&w.nextID, 1)
				w.lastGen = []string{"a", "g1", "b", "g2", "c"}[int(n)%5]
				return w.lastGen
			}
		}
		w.st = ms
		w.clean = func() {}
	}
	for i := 0; i < cfg.ncb; i++ {
		w.st.OnChange(onChange)
	}
	return w, nil
}

func (w *c11world) drainCbs() [][]string {
	w.cbMu.Lock()
	defer w.cbMu.Unlock()
	out := w.cbs
	w.cbs = nil
	if out == nil {
		out = [][]string{}
	}
	return out
}

func errClass(err error) string {
	switch {
	case err == nil:
		return "ok"
	case errors.Is(err, store.ErrDuplicate):
		return "duplicate"
	case errors.Is(err, store.ErrNotFound), errors.Is(err, res.ErrNotFound):
		return "notfound"
	}
	return "error"
}

// call performs one store call inside txn and returns its record.
func (w *c11world) call(txn store.ReadTxn, op, id, v string) rec {
	r := rec{"op": op, "id": id, "v": v, "res": "ok", "val": "NONE", "gen": ""}
	w.lastGen = ""
	if v == "NIL" || v == "WRONG" || v == "WRONG2" {
		r["v"] = "WRONG" // all are values of the wrong type
	}
	pv := core.Catch(func() {
		switch op {
		case "create":
			r["res"] = errClass(txn.(store.WriteTxn).Create(w.conc(v)))
		case "update":
			r["res"] = errClass(txn.(store.WriteTxn).Update(w.conc(v)))
		case "delete":
			r["res"] = errClass(txn.(store.WriteTxn).Delete())
		case "value":
			x, err := txn.Value()
			r["res"] = errClass(err)
			if err == nil {
				r["val"] = w.abs(x)
			}
		case "exists":
			if !txn.Exists() {
				r["res"] = "notfound"
			}
		}
	})
	if pv != nil {
		r["res"] = "panic"
		r["dbg"] = fmt.Sprint(pv)
	}
	r["cbs"] = w.drainCbs()
	r["gen"] = w.lastGen // the id the store generated for this call, if any
	if v == "NIL" {
		r["dbg"] = fmt.Sprint(r["dbg"], " (nil value)")
	}
	return r
}

var c11ids = []string{"a", "b", "c"}

// seqHistory runs a random sequential history.
func seqHistory(cfg c11cfg, rng *rand.Rand, n int) (rec, error) {
	w, err := newC11World(cfg)
	if err != nil {
		return nil, err
	}
	defer w.clean()
	calls := []rec{}
	for len(calls) < n {
		id := c11ids[rng.Intn(len(c11ids))]
		if rng.Intn(12) == 0 || (cfg.genids && rng.Intn(3) == 0) {
			id = ""
		}
		if rng.Intn(3) == 0 {
			t := w.st.Read(id)
			for k := 0; k < 1+rng.Intn(2); k++ {
				calls = append(calls, w.call(t, []string{"value", "exists"}[rng.Intn(2)], id, ""))
			}
			t.Close()
			continue
		}
		t := w.st.Write(id)
		for k := 0; k < 1+rng.Intn(4); k++ {
			op := []string{"create", "update", "delete", "value", "exists", "create", "update"}[rng.Intn(7)]
			v := ""
			if op == "create" || op == "update" {
				v = []string{"v1", "v2", "v3", "v1", "WRONG", "NIL", "VETO", "WRONG2"}[rng.Intn(8)]
				if v == "VETO" && !cfg.veto {
					v = "v2"
				}
				if (v == "WRONG" || v == "NIL" || v == "WRONG2") && cfg.backend == "mock" {
					v = "v3" // the mock store is untyped: it has no wrong type
				}
			}
			c := w.call(t, op, id, v)
			calls = append(calls, c)
			if id == "" && op == "create" && c["res"] == "ok" {
				// the store generated an id: the rest of this transaction is about that id - not followed here
				break
			}
			// after a FAILED create on the empty id the transaction still has no id: keep going
		}
		t.Close()
	}
	// ids generated by the store are fresh names: the reference sees them as "" -> rewrite to the real id
	return rec{"upto": 0, "calls": calls, "genids": cfg.genids, "ncb": cfg.ncb, "overlap": []string{}, "dbg": cfg.String()}, nil
}

// concHistory runs goroutines that each perform whole transactions; the per-id lock serialises
// them, so the per-id order of transactions (by the moment Write/Read returned) is a sequential history.
func concHistory(cfg c11cfg, seed int64, procs, txns int) (rec, error) {
	wide := procs >= 10
	w, err := newC11World(cfg)
	if err != nil {
		return nil, err
	}
	defer w.clean()
	type txnRec struct {
		id          string
		write       bool
		open, close int64
		calls       []rec
	}
	var seq int64
	var mu sync.Mutex
	var all []txnRec
	var closeErrs []string
	var wg sync.WaitGroup
	// callbacks are attributed per goroutine: use one world-wide log but only one writer per id at a time
	for p := 0; p < procs; p++ {
		wg.Add(1)
		go func(p int) {
			defer wg.Done()
			rng := rand.New(rand.NewSource(seed + int64(p)*7919))
			var stale store.ReadTxn // a transaction of this goroutine that is closed already
			for k := 0; k < txns; k++ {
				id := c11ids[rng.Intn(2)]
				if wide {
					// many goroutines, (almost) each on an id of its own: writes to different ids overlap all the time
					id = fmt.Sprintf("w%d", (p+rng.Intn(2))%procs)
				}
				tr := txnRec{id: id, write: rng.Intn(3) != 0}
				var t store.ReadTxn
				if tr.write {
					t = w.st.Write(id)
				} else {
					t = w.st.Read(id)
				}
				tr.open = atomic.AddInt64(&seq, 1)
				if stale != nil && k%2 == 1 {
					// closing a finished transaction once more (an explicit Close followed by a deferred one)
					// is an error at most: it is no operation on the store and frees nobody's lock
					stale.Close()
				}
				n := 1 + rng.Intn(3)
				for j := 0; j < n; j++ {
					op := []string{"value", "exists"}[rng.Intn(2)]
					v := ""
					if tr.write {
						op = []string{"create", "update", "delete", "value", "create", "update"}[rng.Intn(6)]
						if op == "create" || op == "update" {
							v = fmt.Sprintf("p%dk%dj%d", p, k, j)
						}
					}
					c := rec{"op": op, "id": id, "v": v, "res": "ok", "val": "NONE", "gen": "", "cbs": [][]string{}}
					switch op {
					case "create":
						c["res"] = errClass(t.(store.WriteTxn).Create(w.conc(v)))
					case "update":
						c["res"] = errClass(t.(store.WriteTxn).Update(w.conc(v)))
					case "delete":
						c["res"] = errClass(t.(store.WriteTxn).Delete())
					case "value":
						x, err := t.Value()
						c["res"] = errClass(err)
						if err == nil {
							c["val"] = w.abs(x)
						}
					case "exists":
						if !t.Exists() {
							c["res"] = "notfound"
						}
					}
					tr.calls = append(tr.calls, c)
				}
				tr.close = atomic.AddInt64(&seq, 1)
				cerr := t.Close()
				stale = t
				mu.Lock()
				all = append(all, tr)
				if cerr != nil {
					closeErrs = append(closeErrs, fmt.Sprintf("%s: Close of the open transaction %d..%d failed (%v): somebody else had closed it", id, tr.open, tr.close, cerr))
				}
				mu.Unlock()
			}
		}(p)
	}
	wg.Wait()
	sort.Slice(all, func(i, j int) bool { return all[i].open < all[j].open })
	overlap := append([]string{}, closeErrs...)
	for i := range all {
		for j := i + 1; j < len(all); j++ {
			a, b := all[i], all[j]
			if a.id == b.id && (a.write || b.write) && b.open < a.close {
				overlap = append(overlap, fmt.Sprintf("%s: txn opened at %d (write=%v) overlaps txn %d..%d (write=%v)", a.id, b.open, b.write, a.open, a.close, a.write))
			}
		}
	}
	// callbacks: attribute the world-wide callback log to the calls in order per id
	cbs := w.drainCbs()
	calls := []rec{}
	byID := map[string][][]string{}
	for _, cb := range cbs {
		byID[cb[0]] = append(byID[cb[0]], cb)
	}
	for _, tr := range all {
		for _, c := range tr.calls {
			if c["res"] == "ok" && (c["op"] == "create" || c["op"] == "update" || c["op"] == "delete") {
				q := byID[tr.id]
				n := cfg.ncb
				if len(q) < n {
					n = len(q)
				}
				cb := [][]string{}
				cb = append(cb, q[:n]...)
				c["cbs"] = cb
				byID[tr.id] = q[n:]
			}
			calls = append(calls, c)
		}
	}
	for id, q := range byID {
		if len(q) > 0 {
			overlap = append(overlap, fmt.Sprintf("%d callbacks on %s beyond the successful mutations", len(q), id))
		}
	}
	return rec{"upto": 0, "calls": calls, "genids": false, "ncb": cfg.ncb, "overlap": overlap, "dbg": cfg.String() + fmt.Sprintf(" concurrent procs=%d", procs)}, nil
}

// lockHammer: a few goroutines open write transactions on ONE id as fast as they can - read the counter stored
// there, write counter+1, close - with moments in which nobody holds or waits for the id. While a write
// transaction is open no other goroutine's write transaction on the id makes progress: no two are ever inside,
// no increment is lost, no call fails.
func lockHammer(cfg c11cfg, procs, rounds int) (rec, error) {
	w, err := newC11World(cfg)
	if err != nil {
		return nil, err
	}
	defer w.clean()
	t := w.st.Write("a")
	if err := t.Create(w.conc("n0")); err != nil {
		t.Close()
		return nil, err
	}
	t.Close()
	var inside, overlaps, failed int32
	var wg sync.WaitGroup
	for p := 0; p < procs; p++ {
		wg.Add(1)
		go func(p int) {
			defer wg.Done()
			for k := 0; k < rounds; k++ {
				t := w.st.Write("a")
				if atomic.AddInt32(&inside, 1) > 1 {
					atomic.AddInt32(&overlaps, 1)
				}
				v, err := t.Value()
				n := 0
				if err == nil {
					fmt.Sscanf(w.abs(v), "n%d", &n)
					err = t.Update(w.conc(fmt.Sprintf("n%d", n+1)))
				}
				if err != nil {
					atomic.AddInt32(&failed, 1)
				}
				atomic.AddInt32(&inside, -1)
				t.Close()
				if k%7 == p%7 {
					runtime.Gosched() // (let the id go idle now and then)
				}
			}
		}(p)
	}
	wg.Wait()
	overlap := []string{}
	if n := atomic.LoadInt32(&overlaps); n > 0 {
		overlap = append(overlap, fmt.Sprintf("%d times a write transaction on id a was opened while another goroutine's was open", n))
	}
	if n := atomic.LoadInt32(&failed); n > 0 {
		overlap = append(overlap, fmt.Sprintf("%d Value/Update calls inside the write transactions failed", n))
	}
	rt := w.st.Read("a")
	v, err := rt.Value()
	rt.Close()
	final := -1
	if err == nil {
		fmt.Sscanf(w.abs(v), "n%d", &final)
	}
	if final != procs*rounds {
		overlap = append(overlap, fmt.Sprintf("%d increments made, the stored counter is %d", procs*rounds, final))
	}
	w.drainCbs()
	return rec{"upto": 0, "calls": []rec{}, "genids": false, "ncb": cfg.ncb, "overlap": overlap, "dbg": cfg.String() + fmt.Sprintf(" lock hammer procs=%d rounds=%d", procs, rounds)}, nil
}

func classifyC11(r rec, upto int) string {
	calls := r["calls"].([]rec)
	if upto >= 1 && upto <= len(calls) {
		c := calls[upto-1]
		dbg := fmt.Sprint(r["dbg"])
		be := "mock"
		if len(dbg) > 6 && dbg[:6] == "badger" {
			be = "badger"
		}
		switch {
		case c["res"] == "panic":
			return be + ":panic-on-" + fmt.Sprint(c["op"]) + "-" + fmt.Sprint(c["v"])
		case c["op"] == "create" && c["id"] == "":
			return be + ":create-with-empty-id"
		case c["op"] == "create" && c["res"] == "error":
			return be + ":create-existing-not-duplicate-error"
		}
		return be + ":" + fmt.Sprint(c["op"]) + ":other"
	}
	return "overlap"
}

// RunC11 executes the C11 check.
func RunC11(c *core.Ctx) {
	c.SetLevel("model_checking")
	c.Assume("values are atoms; concurrent histories are reduced to per-id sequential histories through the order in which Write/Read returned, which is sound as long as the transaction intervals do not overlap (checked)")
	core.ModelMustHold(c, core.ModelCheck(c, "ResStoreConc", "MCStore.cfg", core.TLCOpts{}), "MCStore")
	rng := rand.New(rand.NewSource(c.Seed))
	var cfgs []c11cfg
	for _, typed := range []bool{false, true} {
		for _, prefix := range []bool{false, true} {
			for _, veto := range []bool{false, true} {
				cfgs = append(cfgs, c11cfg{backend: "badger", typed: typed, prefix: prefix, ncb: 1 + rng.Intn(2), veto: veto})
			}
		}
	}
	// stores nobody listens to: no change callback, no veto
	cfgs = append(cfgs, c11cfg{backend: "badger", ncb: 0}, c11cfg{backend: "badger", typed: true, prefix: true, ncb: 0})
	cfgs = append(cfgs, c11cfg{backend: "mock", ncb: 1}, c11cfg{backend: "mock", ncb: 2, genids: true}, c11cfg{backend: "mock", ncb: 0})
	var recs []interface{}
	for _, cfg := range cfgs {
		for i := 0; i < c.Pick(25, 400); i++ {
			r, err := seqHistory(cfg, rng, 10+rng.Intn(20))
			if err != nil {
				c.Inconclusive("%s: %v", cfg, err)
				break
			}
			recs = append(recs, r)
		}
		if cfg.genids {
			continue
		}
		if !cfg.veto {
			if r, err := lockHammer(cfg, 2+len(recs)%3, c.Pick(4000, 20000)); err == nil {
				recs = append(recs, r)
			}
		}
		for i := 0; i < c.Pick(6, 60); i++ {
			procs := 2 + rng.Intn(6)
			if i%3 == 2 {
				procs = 12
			}
			r, err := concHistory(cfg, c.Seed*131+int64(i), procs, 6)
			if err != nil {
				c.Inconclusive("%s: %v", cfg, err)
				break
			}
			recs = append(recs, r)
		}
	}
	var bad []int
	core.CheckRecords(c, "TraceStore", "TraceStore.cfg", recs, nil, func(i int, r interface{}, inv string) { bad = append(bad, i) })
	if len(bad) > 0 {
		// localise: the shortest failing prefix of each bad history
		var recs2 []interface{}
		var src []int
		var upto []int
		for _, i := range bad {
			h := recs[i].(rec)
			n := len(h["calls"].([]rec))
			for k := 1; k <= n; k++ {
				r2 := rec{}
				for kk, v := range h {
					r2[kk] = v
				}
				r2["upto"] = k
				if k < n {
					r2["overlap"] = []string{}
				}
				recs2 = append(recs2, r2)
				src = append(src, i)
				upto = append(upto, k)
			}
		}
		first := map[int]int{}
		core.CheckRecords(c, "TraceStore", "TraceStore.cfg", recs2, nil, func(j int, r interface{}, inv string) {
			if cur, ok := first[src[j]]; !ok || upto[j] < cur {
				first[src[j]] = upto[j]
			}
		})
		for _, i := range bad {
			h := recs[i].(rec)
			k := first[i]
			calls := h["calls"].([]rec)
			what := fmt.Sprintf("overlapping transactions: %v", h["overlap"])
			if k >= 1 && k <= len(calls) && !(k == len(calls) && len(h["overlap"].([]string)) > 0 && func() bool {
				// did the last call itself conform? (then only the overlap failed)
				return false
			}()) {
				what = fmt.Sprintf("call %d %v deviates from the per-id map reference (history so far: %v)", k, calls[k-1], tailCalls(calls, k))
			}
			c.Violate(core.Violation{Signature: map[string]string{"engine": "c11", "kind": classifyC11(h, k)}, Text: what + " [" + fmt.Sprint(h["dbg"]) + "]", Replay: h})
		}
	}
	c.Cover("traces_validated_against_impl", len(recs))
	c.Cover("evaluations", len(recs))
	c.Cover("rule", "random sequential histories (10-30 calls in read/write transactions over ids a,b,c and the empty id; values v1..v3, wrong-typed, nil, vetoed) on 8 badgerstore configurations (typed x prefix x BeforeChange veto) and 3 mockstore configurations, plus concurrent histories of 2-7 goroutines contending on 2 ids reduced to per-id sequential histories; one record per history judged by TLC (TraceStore.HistoryOK = ResStore.FirstBad)")
	if len(recs) > 0 {
		c.Sample(recs[0])
	}
}

func tailCalls(calls []rec, k int) []string {
	var out []string
	from := k - 6
	if from < 0 {
		from = 0
	}
	for _, c := range calls[from:k] {
		out = append(out, fmt.Sprintf("%v(%v,%v)=%v/%v", c["op"], c["id"], c["v"], c["res"], c["val"]))
	}
	return out
}

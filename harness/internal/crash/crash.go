// Package crash is the C12 engine: a child process runs a workload on a real
// BadgerDB and is killed (SIGKILL) at an instrumented point or at a random
// time; the parent reopens the database, reads everything back, runs Init
// again, rebuilds the indexes and lets TLC judge the observation against
// ResDurable.tla.
package crash

import (
	"bufio"
	"bytes"
	"fmt"
	"math/rand"
	"net/url"
	"os"
	"os/exec"
	"path/filepath"
	"sort"
	"strconv"
	"strings"
	"sync"
	"syscall"
	"time"

	"github.com/dgraph-io/badger"
	"github.com/jirenius/go-res/store/badgerstore"

	"verif/internal/core"
)

type rec = map[string]interface{}

type val struct {
	V string   `json:"v"`
	K string   `json:"k,omitempty"` // index key (absent = not indexed)
	T []string `json:"t,omitempty"` // when present, T[0] is the current value (set by "touch" operations)
	P string   `json:"p,omitempty"` // ballast: some values are several kilobytes long
}

// ballast makes every fourth workload value about 6 kB long (repetitive text).
func ballast(v string) string {
	var n int
	if _, err := fmt.Sscanf(v, "v%d", &n); err == nil && n%4 == 1 {
		return strings.Repeat("ballast "+v+" ", 600)
	}
	return ""
}

// value is what a stored val stands for.
func (v val) value() string {
	if len(v.T) > 0 {
		return v.T[0]
	}
	return v.V
}

// keyOf is the index key a value is stored with: every third workload value has none, so that stored
// values differ in shape (a member present in some, absent in others).
func keyOf(v string) string {
	var n int
	if _, err := fmt.Sscanf(v, "v%d", &n); err == nil && n%3 == 0 {
		return ""
	}
	if n%5 == 2 {
		return "-" // stands for the empty index key: indexed, under a key of length 0
	}
	return "k" + v
}

type op struct {
	Op    string     `json:"op"`
	ID    string     `json:"id"`
	V     string     `json:"v"`
	Seeds [][]string `json:"seeds"`
}

var seeds = [][]string{{"s1", "x"}, {"s2", "y"}}
var ids = []string{"a", "b", "s1", "s2"}

func workload(seed int64) []op {
	rng := rand.New(rand.NewSource(seed))
	ops := []op{}
	n := 8 + rng.Intn(5)
	initAt := rng.Intn(3)
	if seed%4 == 3 {
		// every seed id is in the store already when Init runs for the first time: Init adds nothing, and
		// is still the one initialisation of this store - seeds deleted afterwards stay deleted
		ops = append(ops, op{Op: "create", ID: "s1", V: "v100"}, op{Op: "create", ID: "s2", V: "v101"}, op{Op: "init", Seeds: seeds})
		for i := 3; i < n; i++ {
			if rng.Intn(3) == 0 {
				ops = append(ops, op{Op: "delete", ID: []string{"s1", "s2"}[rng.Intn(2)]})
				continue
			}
			ops = append(ops, op{Op: []string{"create", "update", "delete"}[rng.Intn(3)], ID: ids[rng.Intn(len(ids))], V: fmt.Sprintf("v%d", i)})
		}
		return ops
	}
	for i := 0; i < n; i++ {
		if i == initAt || (i > 4 && rng.Intn(7) == 0) {
			ops = append(ops, op{Op: "init", Seeds: seeds})
			continue
		}
		if rng.Intn(6) == 0 {
			ops = append(ops, op{Op: "flush"})
			continue
		}
		// touch: an update made by reading the value inside the write transaction, changing it in place and
		// passing it back to Update
		ops = append(ops, op{Op: []string{"create", "create", "update", "delete", "touch", "touch"}[rng.Intn(6)], ID: ids[rng.Intn(len(ids))], V: fmt.Sprintf("v%d", i)})
	}
	return ops
}

func openStore(dir, prefix string) (*badger.DB, *badgerstore.Store, *badgerstore.QueryStore, error) {
	opts := badger.DefaultOptions(dir)
	opts.Logger = nil
	opts.Truncate = true
	db, err := badger.Open(opts)
	if err != nil {
		return nil, nil, nil, err
	}
	st := badgerstore.NewStore(db).SetType(val{})
	if prefix != "" {
		st.SetPrefix(prefix)
	}
	qs := badgerstore.NewQueryStore(st, func(qs *badgerstore.QueryStore, q url.Values) (*badgerstore.IndexQuery, error) {
		return &badgerstore.IndexQuery{Index: qs.Index("k"), Limit: -1}, nil
	}).AddIndex(badgerstore.Index{Name: "k", Key: func(v interface{}) []byte {
		switch k := v.(val).K; k {
		case "":
			return nil
		case "-":
			return []byte{} // an empty key is a key
		default:
			return []byte(k)
		}
	}})
	return db, st, qs, nil
}

func doInit(st *badgerstore.Store) error {
	return st.Init(func(add func(id string, v interface{})) error {
		for _, s := range seeds {
			add(s[0], val{V: s[1], K: keyOf(s[1])})
		}
		return nil
	})
}

// ChildMain runs the workload; killSpec is "<point>:<k>" or "".
func ChildMain(dir string, seed int64, killSpec, prefix string) {
	point, k := "", 0
	if i := strings.LastIndexByte(killSpec, ':'); i > 0 {
		point = killSpec[:i]
		k, _ = strconv.Atoi(killSpec[i+1:])
	}
	var mu sync.Mutex
	count := 0
	badgerstore.VerifHook = func(p string, a ...interface{}) {
		if p != point {
			return
		}
		mu.Lock()
		count++
		hit := count == k
		mu.Unlock()
		if hit {
			syscall.Kill(os.Getpid(), syscall.SIGKILL)
			select {}
		}
	}
	db, st, qs, err := openStore(dir, prefix)
	if err != nil {
		fmt.Println("child: cannot open:", err)
		os.Exit(3)
	}
	ack, err := os.OpenFile(filepath.Join(dir, "..", filepath.Base(dir)+".acks"), os.O_CREATE|os.O_WRONLY|os.O_APPEND, 0o644)
	if err != nil {
		os.Exit(3)
	}
	line := func(s string) {
		ack.WriteString(s + "\n")
		ack.Sync()
	}
	for i, o := range workload(seed) {
		line(fmt.Sprintf("start %d", i))
		var err error
		switch o.Op {
		case "init":
			err = doInit(st)
		case "flush":
			qs.Flush()
		case "create", "update", "delete", "touch":
			t := st.Write(o.ID)
			switch o.Op {
			case "touch":
				var x interface{}
				if x, err = t.Value(); err == nil {
					v := x.(val)
					if len(v.T) == 0 {
						v.T = []string{o.V}
					} else {
						v.T[0] = o.V
					}
					err = t.Update(v)
				}
			case "create":
				err = t.Create(val{V: o.V, K: keyOf(o.V), P: ballast(o.V)})
			case "update":
				err = t.Update(val{V: o.V, K: keyOf(o.V), P: ballast(o.V)})
			default:
				err = t.Delete()
			}
			t.Close()
		}
		if err == nil {
			line(fmt.Sprintf("done %d ok", i))
		} else {
			line(fmt.Sprintf("done %d err", i))
		}
	}
	qs.Flush()
	db.Close()
	line("end")
}

// ---- Init with a seed set larger than one BadgerDB transaction ----------------------

const bigSeeds = 4000

func openBig(dir, prefix string) (*badger.DB, *badgerstore.Store, error) {
	opts := badger.DefaultOptions(dir)
	opts.Logger = nil
	opts.Truncate = true
	opts.MaxTableSize = 1 << 20 // transactions hold about 1600 small entries
	db, err := badger.Open(opts)
	if err != nil {
		return nil, nil, err
	}
	st := badgerstore.NewStore(db).SetType(val{})
	if prefix != "" {
		st.SetPrefix(prefix)
	}
	return db, st, nil
}

// BigChildMain runs Init with bigSeeds seeds; killSpec as in ChildMain.
func BigChildMain(dir, killSpec, prefix string) {
	point, k := "", 0
	if i := strings.LastIndexByte(killSpec, ':'); i > 0 {
		point = killSpec[:i]
		k, _ = strconv.Atoi(killSpec[i+1:])
	}
	count := 0
	badgerstore.VerifHook = func(p string, a ...interface{}) {
		if p != point {
			return
		}
		count++
		if count == k {
			syscall.Kill(os.Getpid(), syscall.SIGKILL)
			select {}
		}
	}
	db, st, err := openBig(dir, prefix)
	if err != nil {
		fmt.Println("child: cannot open:", err)
		os.Exit(3)
	}
	ack, err := os.OpenFile(filepath.Join(dir, "..", filepath.Base(dir)+".acks"), os.O_CREATE|os.O_WRONLY|os.O_APPEND, 0o644)
	if err != nil {
		os.Exit(3)
	}
	err = st.Init(func(add func(id string, v interface{})) error {
		for i := 0; i < bigSeeds; i++ {
			add(fmt.Sprintf("s%04d", i), val{V: "seed", K: "kseed"})
		}
		return nil
	})
	if err == nil {
		ack.WriteString("init ok\n")
	} else {
		ack.WriteString("init err\n")
	}
	ack.Sync()
	db.Close()
	ack.WriteString("end\n")
	ack.Sync()
}

// bigRun executes the child, reopens the database and counts what Init left behind.
func bigRun(kill, prefix string) (rec, error) {
	base, err := os.MkdirTemp("", "vcrashbig-")
	if err != nil {
		return nil, err
	}
	defer os.RemoveAll(base)
	dir := filepath.Join(base, "db")
	os.MkdirAll(dir, 0o755)
	cmd := exec.Command(filepath.Join(core.VerifDir, "bin", "engine"), "__crashbig", dir, kill, prefix)
	var out bytes.Buffer
	cmd.Stdout = &out
	cmd.Stderr = &out
	if err := cmd.Start(); err != nil {
		return nil, err
	}
	done := make(chan error, 1)
	go func() { done <- cmd.Wait() }()
	select {
	case <-done:
	case <-time.After(60 * time.Second):
		cmd.Process.Kill()
		<-done
		return nil, fmt.Errorf("child hung: %s", out.String())
	}
	acks, _ := os.ReadFile(filepath.Join(base, "db.acks"))
	db, st, err := openBig(dir, prefix)
	if err != nil {
		return nil, fmt.Errorf("cannot reopen the database after the crash: %v", err)
	}
	defer db.Close()
	present := 0
	for i := 0; i < bigSeeds; i++ {
		if _, err := st.Get(fmt.Sprintf("s%04d", i)); err == nil {
			present++
		}
	}
	ran := false
	st.Init(func(add func(id string, v interface{})) error { ran = true; return nil })
	return rec{"judge": "biginit", "present": present, "total": bigSeeds, "initialised": !ran, "initacked": strings.Contains(string(acks), "init ok"),
		"dbg": fmt.Sprintf("Init with %d seeds (more than one transaction holds) kill=%q prefix=%q acks=%q", bigSeeds, kill, prefix, strings.ReplaceAll(string(acks), "\n", ";"))}, nil
}

type runSpec struct {
	big    bool // Init with more seeds than one transaction holds
	seed   int64
	kill   string
	prefix string
	random time.Duration // >0: kill from the parent after this delay
}

// oneRun executes a child, kills it as specified, reopens and observes.
func oneRun(rs runSpec) (rec, error) {
	base, err := os.MkdirTemp("", "vcrash-")
	if err != nil {
		return nil, err
	}
	defer os.RemoveAll(base)
	dir := filepath.Join(base, "db")
	os.MkdirAll(dir, 0o755)
	exe := filepath.Join(core.VerifDir, "bin", "engine")
	cmd := exec.Command(exe, "__crash", dir, fmt.Sprint(rs.seed), rs.kill, rs.prefix)
	var out bytes.Buffer
	cmd.Stdout = &out
	cmd.Stderr = &out
	if err := cmd.Start(); err != nil {
		return nil, err
	}
	done := make(chan error, 1)
	go func() { done <- cmd.Wait() }()
	if rs.random > 0 {
		select {
		case <-done:
		case <-time.After(rs.random):
			cmd.Process.Signal(syscall.SIGKILL)
			<-done
		}
	} else {
		select {
		case <-done:
		case <-time.After(30 * time.Second):
			cmd.Process.Kill()
			<-done
			return nil, fmt.Errorf("child hung: %s", out.String())
		}
	}
	// acknowledgements
	ops := workload(rs.seed)
	started, finished := map[int]bool{}, map[int]string{}
	ended := false
	if f, err := os.Open(filepath.Join(base, "db.acks")); err == nil {
		sc := bufio.NewScanner(f)
		for sc.Scan() {
			parts := strings.Fields(sc.Text())
			switch {
			case len(parts) == 2 && parts[0] == "start":
				i, _ := strconv.Atoi(parts[1])
				started[i] = true
			case len(parts) == 3 && parts[0] == "done":
				i, _ := strconv.Atoi(parts[1])
				finished[i] = parts[2]
			case len(parts) == 1 && parts[0] == "end":
				ended = true
			}
		}
		f.Close()
	}
	toRec := func(o op) rec {
		sd := [][]string{}
		if o.Op == "init" {
			sd = o.Seeds
		}
		name := o.Op
		if name == "touch" {
			name = "update" // to the reference a touch is an update to the new value
		}
		return rec{"op": name, "id": o.ID, "v": o.V, "seeds": sd}
	}
	acked := []rec{}
	inflight := []rec{}
	for i, o := range ops {
		if o.Op == "flush" {
			continue
		}
		if finished[i] == "ok" {
			acked = append(acked, toRec(o))
		} else if started[i] && finished[i] == "" {
			inflight = append(inflight, toRec(o))
		}
	}
	// reopen and read back
	db, st, qs, err := openStore(dir, rs.prefix)
	if err != nil {
		return nil, fmt.Errorf("cannot reopen the database after the crash: %v", err)
	}
	defer db.Close()
	storedKey := map[string]string{}
	read := func() [][]string {
		obs := [][]string{}
		for _, id := range ids {
			v, err := st.Get(id)
			if err == nil {
				obs = append(obs, []string{id, v.(val).value()})
				storedKey[id] = v.(val).K
			}
		}
		return obs
	}
	obs := read()
	initErr := doInit(st)
	obs2 := read()
	rebuildErr := ""
	if err := qs.RebuildIndexes(); err != nil {
		rebuildErr = err.Error()
	}
	qs.Flush()
	indexIds := []string{}
	if r, err := qs.Query(url.Values{}); err == nil {
		indexIds = append(indexIds, r.([]string)...)
	} else if rebuildErr == "" {
		rebuildErr = "query: " + err.Error()
	}
	// expected index content from the values that are there: ordered by (key, id), key = "k"+value
	type ent struct{ k, id string }
	var ents []ent
	for _, o := range obs2 {
		if k := storedKey[o[0]]; k != "" {
			if k == "-" {
				k = ""
			}
			ents = append(ents, ent{k, o[0]})
		}
	}
	sort.Slice(ents, func(i, j int) bool {
		if ents[i].k != ents[j].k {
			return ents[i].k < ents[j].k
		}
		return ents[i].id < ents[j].id
	})
	expect := []string{}
	for _, e := range ents {
		expect = append(expect, e.id)
	}
	if initErr != nil {
		rebuildErr = "re-init failed: " + initErr.Error() + " " + rebuildErr
	}
	return rec{"judge": "all", "acked": acked, "inflight": inflight, "obs": obs, "obs2": obs2, "seeds": seeds, "rebuildError": rebuildErr,
		"indexIds": indexIds, "expectIndexIds": expect,
		"dbg": fmt.Sprintf("seed=%d kill=%q random=%v prefix=%q completed=%v", rs.seed, rs.kill, rs.random, rs.prefix, ended)}, nil
}

var killPoints = []string{"bs.committed", "bs.init.fn", "bs.init.written", "bs.init.marker", "bs.idx.start", "bs.idx.committed", "bs.idx.notified"}

// Run executes the C12 check.
func Run(c *core.Ctx) {
	c.SetLevel("fault_enumeration")
	c.Assume("crash = SIGKILL of the process (the page cache survives); power-loss behaviour of BadgerDB itself is not observable here")
	c.Assume("crash points inside BadgerDB's own commit path are sampled by random-time kills only")
	core.ModelMustHold(c, core.ModelCheck(c, "MCDurable", "MCDurable.cfg", core.TLCOpts{}), "MCDurable")
	rng := rand.New(rand.NewSource(c.Seed))
	var specs []runSpec
	nw := c.Pick(4, 12)
	for wI := 0; wI < nw; wI++ {
		seed := c.Seed*100 + int64(wI)
		prefix := []string{"", "pfx"}[wI%2]
		specs = append(specs, runSpec{seed: seed, prefix: prefix}) // complete run
		for _, p := range killPoints {
			occ := []int{1, 2, 4}
			if c.Thorough() {
				occ = []int{1, 2, 3, 4, 5, 6, 8, 10}
			} else if p == "bs.committed" {
				// between the value commit and the index update: every mutation of the workload
				occ = []int{1, 2, 3, 4, 5, 6, 7, 8}
			}
			for _, k := range occ {
				specs = append(specs, runSpec{seed: seed, kill: fmt.Sprintf("%s:%d", p, k), prefix: prefix})
			}
		}
		for r := 0; r < c.Pick(4, 20); r++ {
			specs = append(specs, runSpec{seed: seed, prefix: prefix, random: time.Duration(15+rng.Intn(120)) * time.Millisecond})
		}
	}
	for _, prefix := range []string{"", "pfx"} {
		for _, kill := range []string{"", "bs.init.fn:1", "bs.init.written:1", "bs.init.marker:1"} {
			specs = append(specs, runSpec{big: true, kill: kill, prefix: prefix})
		}
	}
	recs := make([]interface{}, len(specs))
	errs := make([]error, len(specs))
	var wg sync.WaitGroup
	sem := make(chan struct{}, 12)
	for i, rs := range specs {
		wg.Add(1)
		go func(i int, rs runSpec) {
			defer wg.Done()
			sem <- struct{}{}
			defer func() { <-sem }()
			var r rec
			var err error
			if rs.big {
				r, err = bigRun(rs.kill, rs.prefix)
			} else {
				r, err = oneRun(rs)
			}
			if r == nil {
				recs[i], errs[i] = nil, err
			} else {
				recs[i], errs[i] = r, err
			}
		}(i, rs)
	}
	wg.Wait()
	var good []interface{}
	killed := 0
	for i, r := range recs {
		if errs[i] != nil {
			if strings.Contains(errs[i].Error(), "cannot reopen") {
				c.Violate(core.Violation{Signature: map[string]string{"engine": "crash", "kind": "reopen-failed"}, Text: errs[i].Error(), Replay: fmt.Sprintf("%+v", specs[i])})
			} else {
				c.Inconclusive("run %+v: %v", specs[i], errs[i])
			}
			continue
		}
		m := r.(rec)
		if !strings.Contains(fmt.Sprint(m["dbg"]), "completed=true") {
			killed++
		}
		good = append(good, r)
	}
	var bad []int
	core.CheckRecords(c, "TraceDurable", "TraceDurable.cfg", good, nil, func(i int, r interface{}, inv string) { bad = append(bad, i) })
	if len(bad) > 0 {
		var recs2 []interface{}
		var which []string
		for _, i := range bad {
			for _, cl := range []string{"durable", "reinit", "rebuild", "biginit"} {
				if (good[i].(rec)["judge"] == "biginit") != (cl == "biginit") {
					continue
				}
				r2 := rec{}
				for k, v := range good[i].(rec) {
					r2[k] = v
				}
				r2["judge"] = cl
				recs2 = append(recs2, r2)
				which = append(which, cl)
			}
		}
		core.CheckRecords(c, "TraceDurable", "TraceDurable.cfg", recs2, nil, func(j int, r interface{}, inv string) {
			m := r.(rec)
			kind := which[j]
			if kind == "rebuild" && strings.Contains(fmt.Sprint(m["dbg"]), `prefix=""`) {
				kind = "rebuild:empty-prefix"
			}
			if kind == "biginit" {
				c.Violate(core.Violation{Signature: map[string]string{"engine": "crash", "kind": kind},
					Text: fmt.Sprintf("Init left the store half-seeded: %v of %v seeds present, initialised=%v, Init acknowledged=%v [%v]", m["present"], m["total"], m["initialised"], m["initacked"], m["dbg"]), Replay: m})
				return
			}
			c.Violate(core.Violation{Signature: map[string]string{"engine": "crash", "kind": kind},
				Text: fmt.Sprintf("clause %s fails: acked %v, in flight %v, read back %v, after re-init %v, rebuild error %q, index %v (expected %v) [%v]", which[j], m["acked"], m["inflight"], m["obs"], m["obs2"], m["rebuildError"], m["indexIds"], m["expectIndexIds"], m["dbg"]), Replay: m})
		})
	}
	c.Cover("evaluations", len(good))
	c.Cover("distinct_nontrivial", killed)
	c.Cover("traces_validated_against_impl", len(good))
	c.Cover("runs_killed_before_completion", killed)
	c.Cover("rule", fmt.Sprintf("%d workloads (8-12 creates/updates/deletes/Init/Flush over 4 ids incl. the seed ids; prefix set or empty) x {complete run, each of %d kill points at its 1st/2nd/4th (thorough: up to 10th) occurrence, random-time kills}; after each run the database is reopened, all ids read, Init run again, indexes rebuilt and queried; non-trivial = the child was killed before it completed; judged by TLC (TraceDurable: Durable, ReInitOK, rebuild)", nw, len(killPoints)))
	if len(good) > 0 {
		c.Sample(good[len(good)/2])
	}
}

package sched

import (
	"fmt"
	"sort"
	"strings"
	"sync"
	"time"

	"verif/internal/core"
)

// SchedTrace turns the hook events of one run into the trace that TraceSched.tla validates
// against ResSched: a header (workers, producers with their scripts, groups) and one line per
// event that is a linearization point, pins a program counter or carries an assertion.
// ok is false when the run contains something the trace specification does not cover.
func SchedTrace(events []Event, workers int) (lines []map[string]interface{}, ok bool) {
	type pend struct{ cb string }
	prodOf := map[int64]string{} // goroutine -> producer id
	scripts := map[string][]string{}
	nEnter := map[int64]int{}
	lastPoint := map[int64]string{} // goroutine -> last rw.* point
	pendCb := map[int64]string{}
	cbOwner := map[string][2]interface{}{} // harness callback -> (producer id, k)
	workerOf := map[int64]string{}
	nWorkers := 0
	serveNo := map[int64]int{}
	serves := 0
	groups := map[string]bool{}
	line := func(e, p string) map[string]interface{} {
		return map[string]interface{}{"e": e, "p": p, "wid": "", "new": false, "a": 0, "b": 0, "pp": "", "k": 0}
	}
	argI := func(e Event, i int) int {
		if i < len(e.Args) {
			if v, ok := e.Args[i].(int); ok {
				return v
			}
		}
		return -1
	}
	argB := func(e Event, i int) bool {
		if i < len(e.Args) {
			if v, ok := e.Args[i].(bool); ok {
				return v
			}
		}
		return false
	}
	ok = true
	for _, e := range events {
		switch e.Point {
		case "serve.go":
			serves++
			serveNo[e.G] = serves
			nWorkers = 0
			workerOf = map[int64]string{} // the workers of the next life are new goroutines
			lines = append(lines, line("serve.go", "sv"))
		case "serve.ret":
			lines = append(lines, line("serve.ret", "sv"))
		case "sv.init", "sv.started":
			lines = append(lines, line(e.Point, "sv"))
		case "sv.listenend", "sv.waited":
			l := line(e.Point, "sv")
			l["k"] = serveNo[e.G]
			lines = append(lines, l)
		case "sv.subscribed":
			l := line("sv.subscribed", "sv")
			l["new"] = len(e.Args) > 0 && e.Args[0] != nil && fmt.Sprint(e.Args[0]) != "<nil>"
			lines = append(lines, l)
		case "sd.enter", "sd.cas", "cl.bcast", "cl.connclosed", "cl.inchclosed", "sd.waited", "sd.cleared", "sd.stopped", "cl.nil":
			lines = append(lines, line(e.Point, "sd"))
		case "sd.ret":
			lines = append(lines, line("sd.ret", "sd"))
		case "sub.call":
			pendCb[e.G] = argS(e, 0)
		case "sub.ret":
			delete(pendCb, e.G)
		case "hr.recv":
			pendCb[e.G] = strings.TrimPrefix(argS(e, 1), "inbox.")
		case "rw.enter":
			p, have := prodOf[e.G]
			if !have {
				p = fmt.Sprintf("t%d", len(prodOf)+1)
				prodOf[e.G] = p
			}
			wid := argS(e, 0)
			scripts[p] = append(scripts[p], wid)
			nEnter[e.G]++
			if wid != "" {
				groups[wid] = true
			}
			if cb := pendCb[e.G]; cb != "" {
				cbOwner[cb] = [2]interface{}{p, nEnter[e.G]}
				delete(pendCb, e.G)
			}
			l := line("rw.enter", p)
			l["wid"] = wid
			lines = append(lines, l)
			lastPoint[e.G] = "rw.enter"
		case "rw.checked", "rw.signaled", "rw.closing":
			lines = append(lines, line(e.Point, prodOf[e.G]))
			lastPoint[e.G] = e.Point
		case "rw.refused":
			if lastPoint[e.G] == "rw.enter" {
				lines = append(lines, line("rw.refused1", prodOf[e.G]))
			}
			lastPoint[e.G] = "rw.refused"
		case "rw.enq":
			l := line("rw.enq", prodOf[e.G])
			l["wid"], l["new"], l["a"], l["b"] = argS(e, 0), argB(e, 1), argI(e, 2), argI(e, 3)
			lines = append(lines, l)
			lastPoint[e.G] = "rw.enq"
		case "wk.start":
			nWorkers++
			workerOf[e.G] = fmt.Sprintf("w%d", nWorkers)
			if nWorkers > workers {
				ok = false
			}
		case "wk.park", "wk.exit":
			lines = append(lines, line(e.Point, workerOf[e.G]))
		case "wk.wake":
			l := line("wk.wake", workerOf[e.G])
			l["new"] = argB(e, 0)
			lines = append(lines, l)
		case "wk.pop":
			l := line("wk.pop", workerOf[e.G])
			l["wid"], l["a"] = argS(e, 0), argI(e, 1)
			lines = append(lines, l)
		case "pq.take":
			l := line("pq.take", workerOf[e.G])
			l["wid"], l["a"], l["b"] = argS(e, 0), argI(e, 1), argI(e, 2)
			lines = append(lines, l)
		case "pq.retire":
			l := line("pq.retire", workerOf[e.G])
			l["wid"] = argS(e, 0)
			lines = append(lines, l)
		case "cb.start":
			own, have := cbOwner[argS(e, 0)]
			w := workerOf[e.G]
			if !have || w == "" {
				continue
			}
			l := line("cb.start", w)
			l["pp"], l["k"] = own[0], own[1]
			lines = append(lines, l)
		case "qe.added", "ql.recv", "qx.enter":
			ok = false // query events are the business of ResQueryEvent
		}
	}
	for _, l := range lines {
		if l["p"] == "" {
			ok = false // an event of a goroutine that never identified itself
		}
	}
	var ws, ps, gs []string
	for i := 1; i <= workers; i++ {
		ws = append(ws, fmt.Sprintf("w%d", i))
	}
	scr := map[string][]string{"t0": {}}
	ps = append(ps, "t0")
	for p, sq := range scripts {
		ps = append(ps, p)
		scr[p] = sq
	}
	sort.Strings(ps)
	for g := range groups {
		gs = append(gs, g)
	}
	sort.Strings(gs)
	if gs == nil {
		gs = []string{"-"}
	}
	hdr := map[string]interface{}{"e": "hdr", "workers": ws, "producers": ps, "wgroups": gs, "scripts": scr}
	return append([]map[string]interface{}{hdr}, lines...), ok
}

// ConformResult is the verdict of TraceSched on one run.
type ConformResult struct {
	Accepted  bool
	Lines     int
	HighWater int
	Violated  []string // invariants of ResSched violated on the reconstructed state
	Err       string
	States    int
}

// Conform validates one trace with TLC.
func Conform(lines []map[string]interface{}) ConformResult {
	var recs []interface{}
	for _, l := range lines {
		recs = append(recs, l)
	}
	tr, err := core.RunTLC(core.TLCOpts{Module: "TraceSched", Cfg: "TraceSched.cfg", Workers: 1, Timeout: 5 * time.Minute, Stack: true,
		Files:     map[string][]byte{"trace.ndjson": core.NDJSON(recs)},
		KeepLines: func(l string) bool { return strings.Contains(l, "HIGHWATER") }})
	res := ConformResult{Lines: len(lines)}
	if err != nil || tr == nil {
		res.Err = fmt.Sprint(err)
		return res
	}
	res.States = int(tr.Distinct)
	for _, e := range tr.Errors {
		if e.Kind == "invariant" && e.Name == "NotAccepted" {
			res.Accepted = true
		} else if e.Kind == "invariant" {
			res.Violated = append(res.Violated, e.Name)
		} else {
			res.Err = e.Kind + " " + e.Name
		}
	}
	for _, p := range tr.Lines {
		var hw, n int
		if i := strings.Index(p, "\"HIGHWATER\","); i >= 0 {
			if _, err := fmt.Sscanf(p[i:], "\"HIGHWATER\", %d, %d", &hw, &n); err == nil {
				res.HighWater = hw
			}
		}
	}
	if !res.Accepted && res.Err == "" && tr.Broken() != "" {
		res.Err = tr.Broken()
	}
	return res
}

// ConformAll validates traces in parallel.
func ConformAll(traces [][]map[string]interface{}, par int) []ConformResult {
	out := make([]ConformResult, len(traces))
	var wg sync.WaitGroup
	sem := make(chan struct{}, par)
	for i := range traces {
		wg.Add(1)
		go func(i int) {
			defer wg.Done()
			sem <- struct{}{}
			defer func() { <-sem }()
			out[i] = Conform(traces[i])
		}(i)
	}
	wg.Wait()
	return out
}

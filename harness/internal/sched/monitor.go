package sched

import (
	"fmt"
	"strings"
)

// ObsEvent is one line of the observation trace judged by TLC (TraceSchedObs.tla).
type ObsEvent struct {
	E  string `json:"e"`
	K  int    `json:"k"`
	Cb string `json:"cb"`
	G  string `json:"g"`
	W  int    `json:"w"`
}

func argS(e Event, i int) string {
	if i < len(e.Args) {
		return fmt.Sprint(e.Args[i])
	}
	return ""
}

// evaluate derives the monitors' verdicts and the observation trace from the event log.
func evaluate(sc *Scenario, out *RunResult, prog Program) {
	evs := out.Events
	lastSub := map[int64]string{}  // goroutine -> callback being submitted
	lastKind := map[int64]string{} // goroutine -> kind
	enqOrder := map[string][]string{}
	startOrder := map[string][]string{}
	started := map[string]int{}
	ended := map[string]bool{}
	enqSeq := map[string]int64{}
	refused := map[string]bool{}
	active := map[string]int{}
	var sdBegin, sdRet int64
	scheduleShutdown := false
	wexits := 0
	var obs []ObsEvent
	serves, rets, shutdowns := 0, 0, 0
	type pendEntry struct {
		cb   string
		life int
	}
	pendq := map[string][]pendEntry{}
	cbGroup := map[string]string{}
	deliveredBy := map[string][]string{} // deliverer/group -> request callbacks in delivery order
	defer func() {
		for k, cbs := range deliveredBy {
			g := k[strings.IndexByte(k, '/')+1:]
			pos := map[string]int{}
			for i, cb := range startOrder[g] {
				if _, ok := pos[cb]; !ok {
					pos[cb] = i
				}
			}
			last, lastCb := -1, ""
			for _, cb := range cbs {
				p, ok := pos[cb]
				if !ok {
					continue
				}
				if p < last {
					sc.violate("C02", "order", fmt.Sprintf("group %q: request %s was delivered after request %s (same connection, one after the other) but its callback started before", g, cb, lastCb), map[string]string{"group": g, "source": "delivery"})
					break
				}
				last, lastCb = p, cb
			}
		}
	}()
	for _, e := range evs {
		switch e.Point {
		case "sub.call":
			lastSub[e.G] = argS(e, 0)
			lastKind[e.G] = argS(e, 2)
			cbGroup[argS(e, 0)] = argS(e, 1)
		case "delivered":
			// requests one goroutine delivered one after the other are in that order on the connection
			if g := cbGroup[argS(e, 0)]; g != "" {
				k := fmt.Sprint(e.G) + "@" + argS(e, 1) + "/" + g // (the order is promised per connection)
				deliveredBy[k] = append(deliveredBy[k], argS(e, 0))
			}
		case "hr.recv":
			reply := argS(e, 1)
			lastSub[e.G] = strings.TrimPrefix(reply, "inbox.")
		case "rw.enq":
			cb := lastSub[e.G]
			wid := argS(e, 0)
			if cb == "" {
				continue
			}
			delete(lastSub, e.G)
			enqSeq[cb] = e.Seq
			enqOrder[wid] = append(enqOrder[wid], cb)
			pendq[wid] = append(pendq[wid], pendEntry{cb, serves})
			obs = append(obs, ObsEvent{E: "enq", Cb: cb, G: wid})
		case "rw.refused":
			cb := lastSub[e.G]
			if cb != "" {
				refused[cb] = true
				delete(lastSub, e.G)
				obs = append(obs, ObsEvent{E: "refuse", Cb: cb})
			}
		case "pq.take":
			wid := argS(e, 0)
			if wid != "" {
				active[wid]++
				if active[wid] > 1 {
					sc.violate("C01", "group-overlap", fmt.Sprintf("work queue of group %q taken by a second worker while a callback of the group was still running (in-lock events)", wid), map[string]string{"group": wid, "source": "hooks"})
				}
			}
		case "pq.relock":
			wid := argS(e, 0)
			if wid != "" {
				active[wid]--
			}
		case "cb.start":
			cb, g := argS(e, 0), argS(e, 1)
			started[cb]++
			startOrder[g] = append(startOrder[g], cb)
			if g == "" {
				q := pendq[g]
				for i := range q {
					if q[i].cb == cb {
						pendq[g] = append(append([]pendEntry{}, q[:i]...), q[i+1:]...)
						break
					}
				}
			}
			if g != "" {
				q := pendq[g]
				if len(q) == 0 || q[0].cb != cb {
					want := "<nothing>"
					if len(q) > 0 {
						want = q[0].cb
					}
					sc.violate("C02", "order", fmt.Sprintf("group %q: callback %s started but the oldest accepted callback of the group is %s (enqueue order %v, start order %v)", g, cb, want, enqOrder[g], startOrder[g]), map[string]string{"group": g})
				}
				for i := range q {
					if q[i].cb == cb {
						pendq[g] = append(append([]pendEntry{}, q[:i]...), q[i+1:]...)
						break
					}
				}
			}
			obs = append(obs, ObsEvent{E: "start", Cb: cb, G: g})
			if serves == rets {
				sc.violate("C03", "start-after-shutdown", fmt.Sprintf("callback %s started after Shutdown had returned", cb), nil)
			}
		case "cb.end":
			cb, g := argS(e, 0), argS(e, 1)
			ended[cb] = true
			obs = append(obs, ObsEvent{E: "end", Cb: cb, G: g})
			if serves == rets {
				sc.violate("C03", "running-after-shutdown", fmt.Sprintf("callback %s was still running when Shutdown returned", cb), nil)
			}
		case "qe.nil", "qe.nilend":
			if serves == rets {
				what := map[string]string{"qe.nil": "started after Shutdown had returned", "qe.nilend": "was still running when Shutdown returned"}[e.Point]
				sc.violate("C03", map[string]string{"qe.nil": "start-after-shutdown", "qe.nilend": "running-after-shutdown"}[e.Point],
					fmt.Sprintf("the final callback of query event %s %s", argS(e, 0), what), nil)
			}
		case "sd.begin":
			sdBegin = e.Seq
			if e.Role == "sd" {
				scheduleShutdown = true
			} else if !prog.Shutdown && shutdowns == serves-1 {
				// clean-up Shutdown of the last life, after the producers finished and the queues had
				// time to drain: whatever was accepted in this life must have run
				obs = append(obs, ObsEvent{E: "quiesced"})
				for g, q := range pendq {
					for _, en := range q {
						if en.life == serves {
							sc.violate("C02", "lost", fmt.Sprintf("callback %s of group %q was accepted in the current life of the service (no Shutdown in progress) but never ran", en.cb, g), nil)
							if serves > 1 {
								sc.violate("C03", "restart-lost", fmt.Sprintf("after a restart, callback %s of group %q was accepted but never ran", en.cb, g), nil)
							}
						}
					}
				}
			}
			shutdowns++
			obs = append(obs, ObsEvent{E: "sdcall"})
		case "sd.ret":
			if argS(e, 0) == "<nil>" {
				sdRet = e.Seq
				rets++
				for g, q := range pendq {
					var keep []pendEntry
					for _, en := range q {
						if en.life > rets {
							keep = append(keep, en)
						}
					}
					pendq[g] = keep
				}
				obs = append(obs, ObsEvent{E: "sdret", W: wexits, K: rets})
				// by the time the k-th Shutdown returns, the workers of the first k lives are gone
				if wexits < prog.Workers*rets {
					sc.violate("C03", "workers-alive", fmt.Sprintf("only %d worker exits had happened when Shutdown number %d returned (%d workers per life)", wexits, rets, prog.Workers), nil)
				}
			}
		case "serve.go":
			// a new Serve call opens the next life of the service
			serves++
			obs = append(obs, ObsEvent{E: "started"})
		case "wk.exit":
			wexits++
			obs = append(obs, ObsEvent{E: "wexit"})
		}
	}
	_ = sdBegin
	// C02: multiplicity (order is checked as callbacks start)
	for cb, n := range started {
		if n > 1 {
			sc.violate("C02", "twice", fmt.Sprintf("callback %s ran %d times", cb, n), nil)
		}
		if refused[cb] {
			sc.violate("C02", "refused-ran", fmt.Sprintf("callback %s was refused as not-started but ran", cb), nil)
		}
		if _, ok := enqSeq[cb]; !ok && !strings.HasPrefix(cb, "q") {
			sc.violate("C02", "ran-unqueued", fmt.Sprintf("callback %s ran without having been enqueued", cb), nil)
		}
	}
	if !scheduleShutdown {
		// no Shutdown during the schedule: everything accepted must have run exactly once
		for cb := range enqSeq {
			if started[cb] != 1 {
				sc.violate("C02", "lost", fmt.Sprintf("callback %s was accepted while the service was started and no Shutdown was in progress, but ran %d times", cb, started[cb]), nil)
			}
		}
	}
	for cb := range started {
		if !ended[cb] {
			sc.violate("C03", "unfinished", fmt.Sprintf("callback %s started but never finished", cb), nil)
		}
	}
	if sc.conn != nil && sdRet != 0 && sc.conn.CloseCount() != 1 {
		sc.violate("C03", "close-count", fmt.Sprintf("connection closed %d times in one Serve/Shutdown cycle", sc.conn.CloseCount()), nil)
	}
	out.Obs = obs
}

package sched

import (
	"bytes"
	"encoding/json"
	"fmt"
	"math/rand"
	"os"
	"os/exec"
	"path/filepath"
	"sort"
	"strings"
	"sync"
	"time"

	"verif/internal/core"
)

// Job is one run executed in a child process.
type Job struct {
	ID    int      `json:"id"`
	Mode  string   `json:"mode"` // replay | window | stress
	Seed  int64    `json:"seed"`
	Prog  Program  `json:"prog"`
	Steps []Step   `json:"steps,omitempty"`
	Win   []string `json:"win,omitempty"` // roleA, pointA, roleB, pointB
	Src   string   `json:"src,omitempty"` // where the schedule came from
}

// JobResult is what the child reports for one job.
type JobResult struct {
	ID  int        `json:"id"`
	Res *RunResult `json:"res"`
}

// ChildMain runs the jobs of a job file and writes one JSON line per finished job.
func ChildMain(jobFile, outFile string) {
	b, err := os.ReadFile(jobFile)
	if err != nil {
		fmt.Println("child: cannot read jobs:", err)
		os.Exit(3)
	}
	var jobs []Job
	if err := json.Unmarshal(b, &jobs); err != nil {
		fmt.Println("child: bad jobs:", err)
		os.Exit(3)
	}
	out, err := os.OpenFile(outFile, os.O_CREATE|os.O_WRONLY|os.O_APPEND, 0o644)
	if err != nil {
		os.Exit(3)
	}
	defer out.Close()
	enc := json.NewEncoder(out)
	for _, j := range jobs {
		// progress marker first: if the process dies inside the job the parent knows which one
		fmt.Fprintf(out, "{\"begin\":%d}\n", j.ID)
		var r *RunResult
		switch j.Mode {
		case "replay":
			r = Replay(j.Seed, j.Prog, j.Steps)
		case "restartloop":
			r = RestartLoop(j.Seed, j.Prog, j.Prog.Cycles)
		case "failsub":
			r = FailSubLoop(j.Seed, j.Prog, j.Prog.Cycles)
		case "twolisteners":
			r = TwoListenerLoop(j.Seed, j.Prog, j.Prog.Cycles)
		case "failstart":
			r = FailedStartLoop(j.Seed, j.Prog, j.Prog.Cycles)
		case "contend":
			r = ContendLoop(j.Seed, j.Prog, j.Prog.Cycles)
		case "window":
			r = Window(j.Seed, j.Prog, j.Win[0], j.Win[1], j.Win[2], j.Win[3])
		default:
			r = Stress(j.Seed, j.Prog)
		}
		if d := os.Getenv("VERIF_DUMP_EVENTS"); d != "" && (len(r.Violations) > 0 || os.Getenv("VERIF_DUMP_ALL") != "") {
			f, _ := os.Create(fmt.Sprintf("%s/events-%d-%d.txt", d, os.Getpid(), j.ID))
			for _, e := range r.Events {
				fmt.Fprintf(f, "%d g%d %s %s %v\n", e.Seq, e.G, e.Role, e.Point, e.Args)
			}
			f.Close()
		}
		if j.Mode != "restartloop" && j.Mode != "failsub" && j.Mode != "failstart" && j.Mode != "twolisteners" && j.Mode != "contend" && len(r.Events) > 0 && len(r.Events) < 4000 {
			w := j.Prog.Workers
			if w <= 0 {
				w = 2
			}
			if lines, ok := SchedTrace(r.Events, w); ok {
				r.Conf = lines
			}
		}
		enc.Encode(JobResult{ID: j.ID, Res: r})
	}
}

// runJobs distributes jobs over child processes and collects the results.
// crashed maps job id -> stderr tail for jobs during which the child died.
func runJobs(c *core.Ctx, jobs []Job, par int, race bool) (map[int]*RunResult, map[int]string) {
	results := map[int]*RunResult{}
	crashed := map[int]string{}
	var mu sync.Mutex
	exe := filepath.Join(core.VerifDir, "bin", "engine")
	if race {
		exe = filepath.Join(core.VerifDir, "bin", "engine-race")
	}
	tmp, _ := os.MkdirTemp("", "vsched-")
	defer os.RemoveAll(tmp)
	chunks := make([][]Job, par)
	for i, j := range jobs {
		chunks[i%par] = append(chunks[i%par], j)
	}
	var wg sync.WaitGroup
	for ci, chunk := range chunks {
		if len(chunk) == 0 {
			continue
		}
		wg.Add(1)
		go func(ci int, chunk []Job) {
			defer wg.Done()
			rest := chunk
			for attempt := 0; len(rest) > 0 && attempt < 50; attempt++ {
				jf := filepath.Join(tmp, fmt.Sprintf("jobs-%d-%d.json", ci, attempt))
				of := filepath.Join(tmp, fmt.Sprintf("out-%d-%d.ndjson", ci, attempt))
				b, _ := json.Marshal(rest)
				os.WriteFile(jf, b, 0o644)
				cmd := exec.Command(exe, "__sched", jf, of)
				var stderr bytes.Buffer
				cmd.Stderr = &stderr
				cmd.Stdout = &stderr
				done := make(chan error, 1)
				cmd.Start()
				go func() { done <- cmd.Wait() }()
				timedOut := false
				select {
				case <-done:
				case <-time.After(time.Duration(30+len(rest)*8) * time.Second):
					cmd.Process.Kill()
					<-done
					timedOut = true
				}
				ob, _ := os.ReadFile(of)
				finished := map[int]bool{}
				lastBegin := -1
				for _, line := range bytes.Split(ob, []byte("\n")) {
					if len(line) == 0 {
						continue
					}
					var probe struct {
						Begin *int       `json:"begin"`
						ID    int        `json:"id"`
						Res   *RunResult `json:"res"`
					}
					if json.Unmarshal(line, &probe) != nil {
						continue
					}
					if probe.Begin != nil {
						lastBegin = *probe.Begin
						continue
					}
					if probe.Res != nil {
						mu.Lock()
						results[probe.ID] = probe.Res
						mu.Unlock()
						finished[probe.ID] = true
					}
				}
				var next []Job
				for _, j := range rest {
					if finished[j.ID] {
						continue
					}
					if j.ID == lastBegin {
						tail := stderr.String()
						if len(tail) > 4000 {
							tail = tail[:4000]
						}
						if timedOut {
							tail = "TIMEOUT (child killed)\n" + tail
						}
						mu.Lock()
						crashed[j.ID] = tail
						mu.Unlock()
						continue
					}
					next = append(next, j)
				}
				if len(next) == len(rest) {
					// no progress at all: give up on this chunk
					mu.Lock()
					for _, j := range next {
						crashed[j.ID] = "child made no progress: " + stderr.String()
					}
					mu.Unlock()
					break
				}
				rest = next
			}
		}(ci, chunk)
	}
	wg.Wait()
	return results, crashed
}

// scripts of the MCSched configurations (must agree with MCSched.tla)
var mcPrograms = map[string]struct {
	workers int
	scripts map[string][]string
	api     int
	cycles  int
}{
	"A": {2, map[string][]string{"p1": {"g1", "g2", "g1"}, "p2": {"g1", "par"}}, 1, 1},
	"B": {1, map[string][]string{"p1": {"g1", "g1", "g1"}, "p2": {"g1"}}, 1, 1},
	"C": {3, map[string][]string{"p1": {"g1", "g2"}, "p2": {"g2", "g1"}}, 0, 2},
	"D": {1, map[string][]string{"p1": {"g1", "g2", "g2"}, "p2": {"g2", "g1"}}, 0, 2},
	"E": {1, map[string][]string{"p1": {"g1", "g2"}, "p2": {"g2", "g1"}}, 0, 2},
	"F": {2, map[string][]string{"p1": {"g1", "g2", "g1"}, "p2": {"g1", "par"}}, 1, 1},
	"G": {1, map[string][]string{"p1": {"g1", "g2", "g2"}, "p2": {"g2", "g1"}}, 0, 2},
}

var subKinds = []string{"with", "withres", "withgroup", "get", "call"}

// free-running programs also deliver access requests
var subKindsFree = []string{"with", "withres", "withgroup", "get", "call", "access", "get", "access"}
var apiKinds = []string{"reset", "resetall", "token", "tokenid", "tokenreset", "event"}

// free-running programs also start query events (gate replays keep to the model's API callers)
var apiKindsFree = append(append([]string{}, apiKinds...), "queryevent", "queryevent")

// replayKinds are the submission kinds whose runWith executes on the producer's own goroutine
var replayKinds = []string{"with", "withres", "withgroup"}

func programFor(cfg string, rng *rand.Rand, workers int) Program {
	return programForKinds(cfg, rng, workers, subKinds)
}

func programForKinds(cfg string, rng *rand.Rand, workers int, kinds []string) Program {
	m := mcPrograms[cfg]
	p := Program{Workers: m.workers, InCh: []int{0, 1, 2}[rng.Intn(3)], Producers: map[string][]Sub{}, Shutdown: true, Cycles: m.cycles}
	if workers > 0 {
		p.Workers = workers
	}
	for name, gs := range m.scripts {
		kindSet := kinds
		// a producer that delivers requests must deliver all of them (one listener = one channel order)
		for _, g := range gs {
			k := kindSet[rng.Intn(len(kindSet))]
			if g == "par" && k == "withgroup" {
				k = "with" // WithGroup("") is not a Parallel resource; keep the model's meaning
			}
			p.Producers[name] = append(p.Producers[name], Sub{Kind: k, Group: g})
		}
	}
	for i := 0; i < m.api; i++ {
		p.Api = append(p.Api, apiKinds[rng.Intn(len(apiKinds))])
	}
	return p
}

// simulate asks TLC for random behaviours of an MCSched configuration.
func simulate(c *core.Ctx, cfgFile string, num, depth int, seed int64) [][]Step {
	return SimulateModule(c, "MCSched", cfgFile, num, depth, seed)
}

// SimulateModule asks TLC for random behaviours of a specification.
func SimulateModule(c *core.Ctx, module, cfgFile string, num, depth int, seed int64) [][]Step {
	tmp, _ := os.MkdirTemp("", "vsim-")
	defer os.RemoveAll(tmp)
	r, err := core.RunTLC(core.TLCOpts{Module: module, Cfg: cfgFile, Workers: 1, Timeout: 3 * time.Minute,
		Args: []string{"-simulate", fmt.Sprintf("file=%s/b,num=%d", tmp, num), "-depth", fmt.Sprint(depth), "-seed", fmt.Sprint(seed)}})
	if err != nil || r == nil {
		c.Inconclusive("TLC simulation of %s failed: %v", cfgFile, err)
		return nil
	}
	ents, _ := os.ReadDir(tmp)
	var out [][]Step
	var names []string
	for _, e := range ents {
		names = append(names, e.Name())
	}
	sort.Strings(names)
	for _, n := range names {
		st, err := ParseBehaviour(filepath.Join(tmp, n))
		if err == nil && len(st) > 0 {
			out = append(out, st)
		}
	}
	c.AddCount("transitions", int(r.Generated))
	return out
}

func stepsOf(actions []string) []Step {
	var out []Step
	for _, a := range actions {
		name, proc := a, ""
		if i := strings.IndexByte(a, '('); i > 0 {
			name = a[:i]
			proc = strings.TrimSuffix(a[i+1:], ")")
		}
		out = append(out, Step{Action: name, Proc: proc})
	}
	return out
}

// points that the window explorer combines
var windowA = []struct{ role, point string }{
	{"p1", "rw.enter"}, {"p1", "rw.checked"}, {"p1", "rw.unlocked"}, {"p2", "rw.checked"}, {"p2", "rw.unlocked"},
	{"worker", "wk.start"}, {"worker", "pq.run"}, {"worker", "pq.ran"},
	{"sd", "sd.enter"}, {"sd", "sd.cas"}, {"sd", "cl.enter"}, {"sd", "cl.unlocked"}, {"sd", "cl.bcast"}, {"sd", "cl.connclosed"}, {"sd", "sd.waited"}, {"sd", "sd.cleared"},
	{"a1", "api.checked"}, {"a1", "ev.pub"}, {"serve", "hr.recv"}, {"serve", "sv.started"}, {"serve", "rw.checked"}, {"serve", "rw.unlocked"},
}
var windowB = []struct{ role, point string }{
	{"p1", "rw.checked"}, {"p1", "rw.unlocked"}, {"p1", "rw.signaled"}, {"p1", "rw.appended"}, {"p2", "rw.unlocked"}, {"p2", "rw.appended"},
	{"worker", "pq.run"}, {"worker", "pq.ran"}, {"worker", "wk.start"},
	{"sd", "sd.cas"}, {"sd", "cl.unlocked"}, {"sd", "cl.bcast"}, {"sd", "cl.connclosed"}, {"sd", "cl.inchclosed"}, {"sd", "sd.waited"}, {"sd", "sd.cleared"}, {"sd", "sd.stopped"},
	{"a1", "api.checked"}, {"serve", "sv.subscribed"}, {"serve", "rw.unlocked"},
}

// Run is the entry point for C01, C02 and C03.
func Run(c *core.Ctx) {
	c.SetLevel("model_checking")
	c.Assume("harness callbacks stand for user handlers and terminate; groups are observed through the real routing (With/WithResource/requests) and through WithGroup")
	c.Assume("a schedule that cannot be steered exactly (steps inside sync primitives) is replayed as closely as the gates allow; verdicts come only from monitors on the real run and from TLC evaluating the observer spec on the recorded events")
	rng := rand.New(rand.NewSource(c.Seed))

	// (M) exhaustive model checking of the repaired design, and of the liveness properties
	mcs := []string{"A", "B"}
	if c.Thorough() || c.Property == "C03" {
		mcs = append(mcs, "C", "F", "G", "H")
	}
	for _, k := range mcs {
		r := core.ModelCheck(c, "MCSched", "MCSched"+k+".cfg", core.TLCOpts{Timeout: 8 * time.Minute})
		core.ModelMustHold(c, r, "MCSched"+k)
	}
	if c.Property == "C03" || c.Thorough() {
		r := core.ModelCheck(c, "MCSched", "MCSchedLive.cfg", core.TLCOpts{Timeout: 8 * time.Minute, Args: []string{"-lncheck", "final"}})
		core.ModelMustHold(c, r, "MCSchedLive")
	}

	var jobs []Job
	add := func(j Job) { j.ID = len(jobs); jobs = append(jobs, j) }

	// (leads) counterexamples of the model WITHOUT the repairs are schedules worth trying on the real code
	for _, k := range []string{"ALead", "BLead", "CLead", "ELead"} {
		r, err := core.RunTLC(core.TLCOpts{Module: "MCSched", Cfg: "MCSched" + k + ".cfg", Timeout: 3 * time.Minute})
		if err != nil || r == nil {
			continue
		}
		for _, e := range r.Errors {
			if len(e.Actions) == 0 {
				continue
			}
			base := strings.TrimSuffix(k, "Lead")
			for rep := 0; rep < c.Pick(6, 30); rep++ {
				add(Job{Mode: "replay", Seed: c.Seed + int64(rep), Prog: programForKinds(base, rng, 0, replayKinds), Steps: stepsOf(e.Actions), Src: "counterexample of MCSched" + k + " (" + e.Kind + " " + e.Name + ")"})
			}
		}
	}
	// (B2) random behaviours of the repaired model
	nsim := c.Pick(60, 600)
	for _, k := range []string{"A", "B", "C", "D", "F", "G"} {
		behs := simulate(c, "MCSched"+k+".cfg", nsim, 90, c.Seed)
		for i, b := range behs {
			add(Job{Mode: "replay", Seed: c.Seed + int64(i), Prog: programForKinds(k, rng, 0, replayKinds), Steps: b, Src: fmt.Sprintf("tlc -simulate MCSched%s seed %d #%d", k, c.Seed, i)})
		}
	}
	// (windows) every pair of hook points of different roles
	nw := 0
	for _, a := range windowA {
		for _, b := range windowB {
			if a.role == b.role {
				continue
			}
			if !c.Thorough() && rng.Intn(3) != 0 && !(a.role == "sd" || b.role == "sd") {
				continue
			}
			cfg := []string{"A", "B"}[nw%2]
			prog := programFor(cfg, rng, 1+rng.Intn(3))
			if a.role == "serve" || b.role == "serve" {
				// make sure requests are part of the program
				ps := prog.Producers["p2"]
				for i := range ps {
					if ps[i].Group != "par" {
						ps[i].Kind = "get"
					}
				}
			}
			add(Job{Mode: "window", Seed: c.Seed + int64(nw), Prog: prog, Win: []string{a.role, a.point, b.role, b.point}, Src: "window"})
			nw++
		}
	}
	// (stress) free running with perturbation, many callbacks, restarts
	for i := 0; i < c.Pick(40, 400); i++ {
		prog := Program{Workers: 1 + rng.Intn(4), InCh: []int{0, 1, 2}[rng.Intn(3)], Producers: map[string][]Sub{}, Shutdown: rng.Intn(3) != 0, Cycles: 1 + rng.Intn(3)}
		for p := 0; p < 2+rng.Intn(3); p++ {
			n := 5 + rng.Intn(25)
			var subs []Sub
			for k := 0; k < n; k++ {
				g := []string{"g1", "g1", "g2", "g3", "par", "g4", "g4", "g5", "g5", "g6", "g6", "g7", "g7", "g8", "g8"}[rng.Intn(15)]
				kind := subKindsFree[rng.Intn(len(subKindsFree))]
				if g == "par" && kind == "withgroup" {
					kind = "withres"
				}
				if rng.Intn(15) == 0 {
					kind = "nomatch"
				}
				subs = append(subs, Sub{Kind: kind, Group: g})
			}
			prog.Producers[fmt.Sprintf("p%d", p+1)] = subs
		}
		for a := 0; a < rng.Intn(3); a++ {
			prog.Api = append(prog.Api, apiKindsFree[rng.Intn(len(apiKindsFree))])
		}
		add(Job{Mode: "stress", Seed: c.Seed*1000 + int64(i), Prog: prog, Src: "stress"})
	}

	// (query events pending at Shutdown) query events are started and the service is stopped before they
	// expire: the expiry then meets a stopping or stopped service
	for i := 0; i < c.Pick(12, 80); i++ {
		prog := Program{Workers: 1 + rng.Intn(3), InCh: 2, Producers: map[string][]Sub{}, Shutdown: true, Cycles: 1 + i%2, SdDelayUs: 200 + rng.Intn(1500)}
		var subs []Sub
		for k := 0; k < 6+rng.Intn(10); k++ {
			subs = append(subs, Sub{Kind: []string{"with", "get", "pause"}[rng.Intn(3)], Group: []string{"g1", "g1", "g2"}[rng.Intn(3)], Slow: k%3 == 0})
		}
		prog.Producers["p1"] = subs
		prog.Api = []string{"queryevent", "queryevent", "queryevent"}[:1+rng.Intn(3)]
		add(Job{Mode: "stress", Seed: c.Seed*1000 + 600 + int64(i), Prog: prog, Src: "query-expiry"})
	}
	// (queue growth) one worker held by slow callbacks while work for many other groups piles up: the
	// work queue grows far beyond the in-channel size (the size of its initial buffer)
	for i := 0; i < c.Pick(8, 40); i++ {
		prog := Program{Workers: 1 + i%2, InCh: []int{1, 2, 1, 3}[i%4], Producers: map[string][]Sub{}, Shutdown: false, Cycles: 1}
		var p1, p2 []Sub
		for k := 0; k < 4+rng.Intn(4); k++ {
			p1 = append(p1, Sub{Kind: "with", Group: "g1", Slow: true})
		}
		for k := 0; k < 10+rng.Intn(10); k++ {
			p2 = append(p2, Sub{Kind: []string{"with", "withres", "withgroup"}[rng.Intn(3)], Group: []string{"g2", "g3", "g4", "par", "par"}[rng.Intn(5)]})
		}
		prog.Producers["p1"], prog.Producers["p2"] = p1, p2
		add(Job{Mode: "stress", Seed: c.Seed*1000 + 700 + int64(i), Prog: prog, Src: "queue-growth"})
	}
	// (immediate restarts) the service is served again as soon as Shutdown has returned, while the
	// previous Serve call may still be on its way out
	for i := 0; i < c.Pick(30, 300); i++ {
		prog := Program{Workers: []int{1, 2, 4, 32}[rng.Intn(4)], InCh: []int{0, 2}[rng.Intn(2)], Producers: map[string][]Sub{}, Shutdown: rng.Intn(2) == 0, Cycles: 4 + rng.Intn(8), Overtake: true}
		for p := 0; p < 1+rng.Intn(2); p++ {
			var subs []Sub
			for k := 0; k < 10+rng.Intn(30); k++ {
				subs = append(subs, Sub{Kind: []string{"with", "withgroup", "get", "pause"}[rng.Intn(4)], Group: []string{"g1", "g2", "g3", "par"}[rng.Intn(4)]})
			}
			prog.Producers[fmt.Sprintf("p%d", p+1)] = subs
		}
		if rng.Intn(2) == 0 {
			prog.Api = []string{apiKindsFree[rng.Intn(len(apiKindsFree))]}
		}
		add(Job{Mode: "stress", Seed: c.Seed*1000 + 800 + int64(i), Prog: prog, Src: "immediate-restart"})
	}
	// (two listeners at once) the first life's OnServe callback is slow: requests pile up in its in-channel, the
	// service is shut down and served again meanwhile, and the first Serve call then passes its backlog on while
	// the listener of the second life is receiving too. The groups are built from tags of the resource name.
	for i := 0; i < c.Pick(10, 60); i++ {
		prog := Program{Workers: 2 + rng.Intn(3), InCh: 0, Producers: map[string][]Sub{}, Shutdown: true, Cycles: 2, Overtake: true, OnServeUs: 3000 + rng.Intn(5000)}
		for p := 0; p < 2; p++ {
			var subs []Sub
			for k := 0; k < 500; k++ {
				if k%5 == 4 {
					subs = append(subs, Sub{Kind: "pause"})
					continue
				}
				subs = append(subs, Sub{Kind: []string{"get", "call", "access"}[rng.Intn(3)], Group: []string{"g2", "g8", "g7", "g4"}[rng.Intn(4)]})
			}
			prog.Producers[fmt.Sprintf("p%d", p+1)] = subs
		}
		add(Job{Mode: "stress", Seed: c.Seed*1000 + 860 + int64(i), Prog: prog, Src: "two-listeners"})
	}
	for i := 0; i < c.Pick(4, 16); i++ {
		add(Job{Mode: "twolisteners", Seed: c.Seed*1000 + 880 + int64(i), Prog: Program{Workers: []int{4, 8, 2, 16}[i%4], Cycles: c.Pick(12, 40)}, Src: "two-listeners-loop"})
	}
	for i := 0; i < c.Pick(8, 24); i++ {
		add(Job{Mode: "restartloop", Seed: c.Seed*1000 + 900 + int64(i), Prog: Program{Workers: []int{32, 32, 4, 32, 1, 32, 8, 32}[i%8], Cycles: c.Pick(5000, 20000)}, Src: "restart-loop"})
	}
	for i := 0; i < c.Pick(4, 16); i++ {
		add(Job{Mode: "failsub", Seed: c.Seed*1000 + 950 + int64(i), Prog: Program{Workers: []int{2, 4, 1, 3}[i%4], Cycles: c.Pick(12, 40)}, Src: "failing-subscribe"})
	}
	for i := 0; i < c.Pick(2, 8); i++ {
		add(Job{Mode: "failstart", Seed: c.Seed*1000 + 970 + int64(i), Prog: Program{Workers: []int{2, 4}[i%2], Cycles: c.Pick(6, 20)}, Src: "failed-start"})
	}
	for i := 0; i < c.Pick(6, 24); i++ {
		add(Job{Mode: "contend", Seed: c.Seed*1000 + 970 + int64(i), Prog: Program{Workers: []int{2, 4, 3, 8}[i%4], Cycles: c.Pick(4000, 20000)}, Src: "contended-groups"})
	}
	// (hot group) one group is fed faster than a worker drains it while other groups keep the remaining
	// workers busy: long uninterrupted runs of one work item (hundreds of callbacks) next to waiting work
	for i := 0; i < c.Pick(9, 60); i++ {
		prog := Program{Workers: 2 + rng.Intn(2), InCh: []int{0, 2}[rng.Intn(2)], Producers: map[string][]Sub{}, Shutdown: false, Cycles: 1}
		if i%2 == 1 {
			prog.Workers = 2
		}
		hot := []string{"g1", "g2", "g4", "g6", "g7", "g8"}[rng.Intn(6)]
		mk := func(n int, groups []string, kinds []string) []Sub {
			var subs []Sub
			for k := 0; k < n; k++ {
				subs = append(subs, Sub{Kind: kinds[rng.Intn(len(kinds))], Group: groups[rng.Intn(len(groups))]})
			}
			return subs
		}
		if i%2 == 0 {
			prog.Producers["p1"] = mk(150+rng.Intn(250), []string{hot}, []string{"with", "withgroup", "call"})
			prog.Producers["p2"] = mk(60+rng.Intn(60), []string{hot, hot, "g3"}, []string{"with", "withres", "get", "access", "get", "access"})
		} else {
			// bursts that a worker runs through in one go, each followed by spaced single submissions
			var p1, p2 []Sub
			for b := 0; b < 3+rng.Intn(3); b++ {
				p1 = append(p1, mk(34+rng.Intn(40), []string{hot}, []string{"with", "withgroup"})...)
				// the burst ends with callbacks that hand work to another group while the other worker is busy
				p1 = append(p1, Sub{Kind: "nested", Group: hot}, Sub{Kind: "nested", Group: hot})
				for k := 0; k < 4+rng.Intn(6); k++ {
					p1 = append(p1, Sub{Kind: "pause"}, Sub{Kind: "with", Group: hot, Slow: true})
					p2 = append(p2, Sub{Kind: "pause"}, Sub{Kind: "withgroup", Group: hot, Slow: true}, Sub{Kind: "with", Group: "g3", Slow: k%2 == 0})
				}
			}
			prog.Producers["p1"], prog.Producers["p2"] = p1, p2
		}
		prog.Producers["p3"] = mk(60+rng.Intn(60), []string{"g3", "par", "g1", "g2", "g4"}, []string{"with", "withres"})
		if i%2 == 1 {
			// slow callbacks elsewhere: the second worker is busy most of the time
			p3 := mk(40+rng.Intn(40), []string{"g3", "par"}, []string{"with", "withres"})
			for k := range p3 {
				p3[k].Slow = true
			}
			prog.Producers["p3"] = p3
		}
		if i%3 != 0 {
			// Shutdown arrives while the hot group still has a long backlog
			prog.Shutdown = true
			prog.SdDelayUs = 6000 + rng.Intn(20000)
			// slow callbacks: the producers get far ahead of the worker, the backlog is long when Shutdown comes
			for _, name := range []string{"p1", "p2"} {
				ps := prog.Producers[name]
				for k := range ps {
					if ps[k].Group == hot && k%2 == 0 {
						ps[k].Slow = true
					}
				}
			}
		}
		add(Job{Mode: "stress", Seed: c.Seed*1000 + 500 + int64(i), Prog: prog, Src: "hot"})
	}

	if d := os.Getenv("VERIF_DUMP_JOBS"); d != "" {
		b, _ := json.Marshal(jobs)
		os.WriteFile(d, b, 0o644)
	}
	results, crashed := runJobs(c, jobs, 8, false)

	// verdicts
	byMode := map[string]int{}
	steps, skipped, cbs := 0, 0, 0
	skippedBy := map[string]int{}
	var obsTrace []interface{}
	runOfJob := map[int]int{}
	nrun := 0
	for _, j := range jobs {
		if tail, ok := crashed[j.ID]; ok {
			kind := "process-crash"
			if strings.Contains(tail, "TIMEOUT") {
				c.Inconclusive("job %d (%s) timed out: %s", j.ID, j.Mode, firstLine(tail))
				continue
			}
			if c.Property == "C03" {
				c.Violate(core.Violation{Signature: map[string]string{"engine": "sched", "kind": kind, "panic": panicLine(tail)},
					Text: "the process running the service died (a panic outside a recovered handler): " + panicLine(tail), Replay: map[string]interface{}{"job": j, "stderr": tail}})
			}
			continue
		}
		r := results[j.ID]
		if r == nil {
			continue
		}
		byMode[j.Mode]++
		steps += r.Steps
		skipped += r.Skipped
		for k, v := range r.SkippedBy {
			skippedBy[k] += v
		}
		cbs += r.Callbacks
		for _, v := range r.Violations {
			if v.Property != c.Property {
				continue
			}
			sig := v.Sig
			c.Violate(core.Violation{Signature: sig, Text: v.Text + " [" + j.Mode + ": " + j.Src + "]", Replay: map[string]interface{}{"job": j, "note": r.Note}})
		}
		nrun++
		runOfJob[nrun] = j.ID
		obsTrace = append(obsTrace, map[string]interface{}{"e": "begin", "run": nrun, "workers": j.Prog.Workers})
		for _, o := range r.Obs {
			obsTrace = append(obsTrace, o)
		}
		obsTrace = append(obsTrace, map[string]interface{}{"e": "endrun"})
	}
	// (B1) TLC judges the observation traces of all runs with the observer spec
	if len(obsTrace) > 0 {
		tr, err := core.RunTLC(core.TLCOpts{Module: "TraceSchedObs", Cfg: "TraceSchedObs.cfg", Workers: 1, Timeout: 10 * time.Minute, Stack: true,
			Files: map[string][]byte{"trace.ndjson": core.NDJSON(obsTrace)}})
		switch {
		case err != nil || tr == nil:
			c.Inconclusive("TraceSchedObs: cannot run TLC: %v", err)
		case tr.Broken() != "" || tr.PostFailed:
			c.Inconclusive("TraceSchedObs: %s (postcondition failed=%v)", tr.Broken(), tr.PostFailed)
			fmt.Println(tr.RawTail)
		default:
			found := false
			for _, p := range tr.Printed {
				if !strings.HasPrefix(p, "VIOLS ") {
					continue
				}
				found = true
				var vs [][]interface{}
				if json.Unmarshal([]byte(p[6:]), &vs) != nil {
					c.Inconclusive("TraceSchedObs: cannot parse %s", p)
					continue
				}
				for _, v := range vs {
					clause := fmt.Sprint(v[2])
					if !strings.HasPrefix(clause, c.Property+":") {
						continue
					}
					run := int(v[1].(float64))
					j := jobs[runOfJob[run]]
					c.Violate(core.Violation{Signature: map[string]string{"engine": "sched", "kind": "obs:" + strings.TrimPrefix(clause, c.Property+":")},
						Text: fmt.Sprintf("TLC (TraceSchedObs) found clause %s violated at trace line %v of run %d [%s: %s]", clause, v[0], run, j.Mode, j.Src), Replay: map[string]interface{}{"job": j}})
				}
			}
			if !found {
				c.Inconclusive("TraceSchedObs printed no verdict")
			}
			c.Cover("obs_trace_events", len(obsTrace))
			fmt.Printf("tlc TraceSchedObs: %d events of %d runs judged in %.1fs\n", len(obsTrace), nrun, tr.Wall.Seconds())
		}
	}
	conformance(c, jobs, results)
	c.Cover("traces_validated_against_impl", nrun)
	c.Cover("evaluations", nrun)
	c.Cover("runs_by_mode", byMode)
	c.Cover("replay_steps_applied", steps)
	c.Cover("replay_steps_not_steerable", skipped)
	c.Cover("replay_steps_not_steerable_by_action", skippedBy)
	c.Cover("callbacks_executed", cbs)
	c.Cover("rule", "runs of the real service: TLC counterexamples of the unrepaired model and tlc -simulate behaviours of MCSched{A,B,C} replayed through gate hooks; one run per pair of hook points of different roles (A waits at X until B passed Y); perturbed free-running stress with restarts; every run judged by monitors and by TLC on the observation trace")
	if len(jobs) > 0 {
		c.Sample(map[string]interface{}{"mode": jobs[0].Mode, "src": jobs[0].Src, "steps": jobs[0].Steps, "prog": jobs[0].Prog})
		c.Sample(map[string]interface{}{"mode": jobs[len(jobs)-1].Mode, "prog": jobs[len(jobs)-1].Prog})
	}
}

func firstLine(s string) string {
	if i := strings.IndexByte(s, '\n'); i >= 0 {
		return s[:i]
	}
	return s
}

func panicLine(s string) string {
	for _, l := range strings.Split(s, "\n") {
		if strings.HasPrefix(l, "panic:") || strings.HasPrefix(l, "fatal error:") {
			return l
		}
	}
	return firstLine(s)
}

// conformance validates the hook-event traces of real runs against ResSched with TLC (TraceSched.tla):
// every run must be a behaviour of the specification, action by action.
func conformance(c *core.Ctx, jobs []Job, results map[int]*RunResult) {
	var traces [][]map[string]interface{}
	var owner []Job
	perMode := map[string]int{}
	limit := c.Pick(8, 120)
	for _, j := range jobs {
		r := results[j.ID]
		if r == nil || r.Conf == nil || len(r.Violations) > 0 {
			continue
		}
		if perMode[j.Mode+j.Src[:min(4, len(j.Src))]] >= limit {
			continue
		}
		perMode[j.Mode+j.Src[:min(4, len(j.Src))]]++
		traces = append(traces, r.Conf)
		owner = append(owner, j)
	}
	if d := os.Getenv("VERIF_CONF_DUMP"); d != "" {
		for i := range traces {
			if i%10 == 0 {
				recs := []interface{}{}
				for _, l := range traces[i] {
					recs = append(recs, l)
				}
				os.WriteFile(fmt.Sprintf("%s/trace-%d.ndjson", d, owner[i].ID), core.NDJSON(recs), 0o644)
			}
		}
	}
	t0 := time.Now()
	res := ConformAll(traces, 8)
	acc, rej, errs, lines, states := 0, 0, 0, 0, 0
	for i, r := range res {
		lines += r.Lines
		states += r.States
		switch {
		case r.Err != "":
			errs++
			if os.Getenv("VERIF_CONF_DEBUG") != "" {
				fmt.Printf("conformance: job %d (%s %s): TLC problem: %s\n", owner[i].ID, owner[i].Mode, owner[i].Src, r.Err)
			}
		case r.Accepted:
			acc++
		default:
			rej++
			if os.Getenv("VERIF_CONF_DEBUG") != "" {
				fmt.Printf("conformance: job %d (%s %s): trace rejected at line %d of %d: %v\n", owner[i].ID, owner[i].Mode, owner[i].Src, r.HighWater, r.Lines, traces[i][min(r.HighWater-1, len(traces[i])-1)])
				if d := os.Getenv("VERIF_CONF_DUMP"); d != "" {
					recs := []interface{}{}
					for _, l := range traces[i] {
						recs = append(recs, l)
					}
					os.WriteFile(fmt.Sprintf("%s/rejected-%d.ndjson", d, owner[i].ID), core.NDJSON(recs), 0o644)
				}
			}
		}
	}
	fmt.Printf("tlc TraceSched: %d traces (%d lines, %d states) validated against ResSched in %.1fs: %d accepted, %d rejected, %d tlc problems\n", len(traces), lines, states, time.Since(t0).Seconds(), acc, rej, errs)
	c.Cover("impl_traces_accepted_by_ResSched", acc)
	c.Cover("impl_traces_rejected_by_ResSched", rej)
}

package sched

import (
	nats "github.com/nats-io/nats.go"
	"fmt"
	"math/rand"
	"runtime"
	"strings"
	"sync"
	"sync/atomic"
	"time"
	"verif/internal/rconn"

	res "github.com/jirenius/go-res"
)

// Window runs prog once with one ordering constraint: the goroutine of roleA
// waits at pointA until roleB has passed pointB (or a timeout).
func Window(seed int64, prog Program, roleA, pointA, roleB, pointB string) *RunResult {
	tr := NewTracer(seed)
	tr.SetWindow(roleA, pointA, roleB, pointB, 30*time.Millisecond)
	tr.SetPerturb(true)
	res.VerifHook = tr.Hook
	defer func() { res.VerifHook = nil }()
	sc := NewScenario(tr, prog)
	out := &RunResult{}
	sc.Start(0)
	sdDur := make(chan time.Duration, 4)
	// the service must be started before the window makes sense
	waitStarted(tr, 2*time.Second)
	if prog.Shutdown {
		sc.StartShutdown(sdDur)
	}
	finish(sc, tr, out, sdDur, prog)
	return out
}

func waitStarted(tr *Tracer, d time.Duration) bool {
	deadline := time.Now().Add(d)
	for time.Now().Before(deadline) {
		for _, e := range tr.Events() {
			if e.Point == "sv.subscribed" {
				return true
			}
		}
		time.Sleep(100 * time.Microsecond)
	}
	return false
}

// Stress runs prog free-running with random perturbation at every hook point.
// With cycles > 1 the service is restarted after each Shutdown.
func Stress(seed int64, prog Program) *RunResult {
	tr := NewTracer(seed)
	tr.SetPerturb(true)
	res.VerifHook = tr.Hook
	defer func() { res.VerifHook = nil }()
	rng := rand.New(rand.NewSource(seed))
	sc := NewScenario(tr, prog)
	out := &RunResult{}
	sdDur := make(chan time.Duration, 8)
	for cyc := 0; cyc < sc.prog.Cycles; cyc++ {
		sc.Start(cyc)
		if !waitStartedCycle(tr, cyc+1, 2*time.Second) {
			sc.violate("C03", "serve-not-started", fmt.Sprintf("Serve did not start in cycle %d", cyc+1), nil)
			break
		}
		if cyc == sc.prog.Cycles-1 {
			break
		}
		// shut down at a random moment and restart
		time.Sleep(time.Duration(rng.Intn(300)) * time.Microsecond)
		if prog.OnServeUs > 0 && cyc == 0 {
			time.Sleep(time.Duration(prog.OnServeUs/2) * time.Microsecond) // (requests pile up in the first life's in-channel)
		}
		sc.StartShutdown(sdDur)
		select {
		case <-sdDur:
		case <-time.After(3 * time.Second):
			sc.violate("C03", hangKind(goroutineDump()), "Shutdown did not return within 3s (restart cycle)", nil)
			out.Note = trimDump(goroutineDump())
			out.Events = tr.Events()
			out.Violations = append(out.Violations, sc.viol...)
			return out
		}
		if prog.Overtake {
			continue // "a stopped service can be served again": the state is stopped once Shutdown has returned
		}
		select {
		case <-sc.serveDone:
		case <-time.After(3 * time.Second):
			sc.violate("C03", "serve-hang", "Serve did not return within 3s after Shutdown returned", nil)
		}
	}
	if prog.Shutdown {
		if prog.SdDelayUs > 0 {
			time.Sleep(time.Duration(prog.SdDelayUs) * time.Microsecond)
		} else {
			time.Sleep(time.Duration(rng.Intn(400)) * time.Microsecond)
		}
		sc.StartShutdown(sdDur)
	}
	finish(sc, tr, out, sdDur, prog)
	return out
}

func waitStartedCycle(tr *Tracer, n int, d time.Duration) bool {
	deadline := time.Now().Add(d)
	for time.Now().Before(deadline) {
		c := 0
		for _, e := range tr.Events() {
			if e.Point == "sv.subscribed" {
				c++
			}
		}
		if c >= n {
			return true
		}
		time.Sleep(100 * time.Microsecond)
	}
	return false
}

// RestartLoop serves and shuts down one Service value n times in a row, each restart following the
// return of Shutdown at once (the previous Serve call may not have returned yet). In every life a
// callback is submitted and must run. A panic of the library kills the process (seen by the parent).
func RestartLoop(seed int64, prog Program, n int) *RunResult {
	out := &RunResult{}
	rng := rand.New(rand.NewSource(seed))
	res.VerifHook = nil
	s := res.NewService("test")
	s.SetLogger(nil)
	s.SetWorkerCount(prog.Workers)
	s.Handle("r.$id", res.GetResource(func(r res.GetRequest) { r.NotFound() }))
	viol := func(kind, text string) {
		out.Violations = append(out.Violations, Violation{Property: "C03", Kind: kind, Text: text, Sig: map[string]string{"kind": kind, "engine": "sched"}})
	}
	var serves []chan error
	for i := 0; i < n && len(out.Violations) == 0; i++ {
		conn := rconn.New(nil)
		served := make(chan struct{})
		s.SetOnServe(func(*res.Service) { close(served) })
		done := make(chan error, 1)
		serves = append(serves, done)
		go func() { done <- s.Serve(conn) }()
		select {
		case <-served:
		case err := <-done:
			viol("restart-refused", fmt.Sprintf("Serve number %d, called after Shutdown had returned, ended at once: %v", i+1, err))
			continue
		case <-time.After(3 * time.Second):
			viol("serve-not-started", fmt.Sprintf("Serve number %d did not start within 3s", i+1))
			continue
		}
		ran := make(chan struct{})
		if rng.Intn(2) == 0 {
			if err := s.With("test.r.a", func(res.Resource) { close(ran) }); err != nil {
				viol("with-error", fmt.Sprintf("With in life %d: %v", i+1, err))
			} else {
				select {
				case <-ran:
				case <-time.After(3 * time.Second):
					viol("restart-lost", fmt.Sprintf("a callback accepted in life %d of the service never ran", i+1))
				}
			}
			out.Callbacks++
		}
		if s.Conn() == nil {
			viol("restart-no-conn", fmt.Sprintf("the started service has no connection in life %d", i+1))
		}
		sd := make(chan error, 1)
		go func() { sd <- s.Shutdown() }()
		select {
		case err := <-sd:
			if err != nil {
				viol("shutdown-error", fmt.Sprintf("Shutdown in life %d: %v", i+1, err))
			}
		case <-time.After(3 * time.Second):
			viol(hangKind(goroutineDump()), fmt.Sprintf("Shutdown did not return within 3s in life %d of an immediate-restart loop", i+1))
			out.Note = trimDump(goroutineDump())
			return out
		}
		if conn.CloseCount() != 1 {
			viol("close-count", fmt.Sprintf("connection of life %d closed %d times", i+1, conn.CloseCount()))
		}
		out.Steps++
	}
	deadline := time.After(5 * time.Second)
	for i, d := range serves {
		select {
		case <-d:
		case <-deadline:
			viol("serve-hang", fmt.Sprintf("Serve call number %d had not returned 5s after the last Shutdown", i+1))
			return out
		}
	}
	// A Serve call that is still inside its OnServe callback when the service is shut down and served again:
	// once the callback returns, that call finds its own life over and returns - it does not wait for the
	// end of the life that was started meanwhile.
	for rep := 0; rep < 3 && len(out.Violations) == 0; rep++ {
		served1, release := make(chan struct{}), make(chan struct{})
		s.SetOnServe(func(*res.Service) { close(served1); <-release })
		d1 := make(chan error, 1)
		conn1 := rconn.New(nil)
		go func() { d1 <- s.Serve(conn1) }()
		select {
		case <-served1:
		case <-time.After(3 * time.Second):
			close(release)
			viol("serve-not-started", "Serve did not reach its OnServe callback within 3s")
			return out
		}
		sd := make(chan error, 1)
		go func() { sd <- s.Shutdown() }()
		select {
		case <-sd:
		case <-time.After(3 * time.Second):
			close(release)
			viol(hangKind(goroutineDump()), "Shutdown did not return within 3s while the Serve call was inside its OnServe callback")
			return out
		}
		served2 := make(chan struct{})
		s.SetOnServe(func(*res.Service) { close(served2) })
		d2 := make(chan error, 1)
		go func() { d2 <- s.Serve(rconn.New(nil)) }()
		select {
		case <-served2:
		case err := <-d2:
			close(release)
			viol("restart-refused", fmt.Sprintf("Serve after a Shutdown that returned (previous Serve call still in OnServe) ended at once: %v", err))
			return out
		case <-time.After(3 * time.Second):
			close(release)
			viol("serve-not-started", "the restarted service did not start within 3s")
			return out
		}
		close(release)
		select {
		case <-d1:
		case <-time.After(time.Second):
			viol("serve-hang", "a Serve call whose Shutdown had returned did not return within 1s after its OnServe callback returned (the service had been served again meanwhile)")
		}
		ran := make(chan struct{})
		if err := s.With("test.r.a", func(res.Resource) { close(ran) }); err == nil {
			select {
			case <-ran:
			case <-time.After(2 * time.Second):
				viol("restart-lost", "a callback accepted after the restart did not run")
			}
		}
		go func() { sd <- s.Shutdown() }()
		select {
		case <-sd:
		case <-time.After(3 * time.Second):
			viol(hangKind(goroutineDump()), "Shutdown of the restarted service did not return within 3s")
			return out
		}
		select {
		case <-d2:
		case <-time.After(3 * time.Second):
			viol("serve-hang", "Serve did not return within 3s after Shutdown")
		}
		select {
		case <-d1:
		default:
		}
	}
	return out
}

// FailSubLoop serves one Service value alternately on a connection whose subscriptions fail and on a
// working one, while a producer keeps submitting callbacks of one worker group (accepted from the
// moment the state is started, i.e. also while the failing subscribe is still in progress). The
// callbacks of the group must never overlap, whichever serve cycle accepted them.
// MountAfterLookup: a resource id is looked up while no handler matches it (With and Resource report the
// error), then a mux holding the matching handler is mounted: from then on With runs the callback - in the
// handler's group - and reports no error.
func MountAfterLookup(out *RunResult) {
	viol := func(kind, text string) {
		out.Violations = append(out.Violations, Violation{Property: "C02", Kind: kind, Text: text, Sig: map[string]string{"kind": kind, "engine": "sched"}})
	}
	for variant := 0; variant < 4; variant++ {
		s := res.NewService("test")
		s.SetLogger(nil)
		s.SetWorkerCount(2)
		get := res.GetResource(func(r res.GetRequest) { r.NotFound() })
		s.Handle("a.$id", get)
		name := "test.m.x.1"
		if _, err := s.Resource(name); err == nil {
			viol("with-no-error", "Resource on a resource id without handler returned nil")
		}
		if variant%2 == 1 {
			s.GetHandler(name)
		}
		switch variant / 2 {
		case 0:
			s.Route("m", func(m *res.Mux) { m.Handle("x.$id", get, res.Group("mg")) })
		default:
			m := res.NewMux("")
			m.Handle("x.$id", get, res.Group("mg"))
			s.Mount("m", m)
		}
		served := make(chan struct{})
		s.SetOnServe(func(*res.Service) { close(served) })
		done := make(chan error, 1)
		go func() { done <- s.Serve(rconn.New(nil)) }()
		select {
		case <-served:
		case <-time.After(3 * time.Second):
			return
		}
		ran := make(chan string, 1)
		if err := s.With(name, func(r res.Resource) { ran <- r.Group() }); err != nil {
			viol("with-error", fmt.Sprintf("With(%q) returned %v although a handler matches (it was mounted after the id had been looked up once)", name, err))
		} else {
			select {
			case g := <-ran:
				if g != "mg" {
					viol("wrong-group", fmt.Sprintf("With(%q) ran in group %q, the handler's group is \"mg\"", name, g))
				}
			case <-time.After(2 * time.Second):
				viol("lost", fmt.Sprintf("the callback of With(%q) did not run", name))
			}
		}
		s.Shutdown()
		select {
		case <-done:
		case <-time.After(3 * time.Second):
		}
	}
}

// QueuedWorkAcrossRestart: when the service is shut down a callback of group B is still waiting in the work queue
// behind a running callback of group A (one worker). It is dropped with the queue. After the restart a callback
// submitted to group B is accepted and runs - nothing of the previous life stands in its way.
func QueuedWorkAcrossRestart(out *RunResult) {
	viol := func(kind, text string) {
		out.Violations = append(out.Violations, Violation{Property: "C03", Kind: kind, Text: text, Sig: map[string]string{"kind": kind, "engine": "sched"}})
	}
	for variant := 0; variant < 3; variant++ {
		s := res.NewService("test")
		s.SetLogger(nil)
		s.SetWorkerCount(1)
		if variant == 2 {
			s.SetInChannelSize(4)
		}
		s.Handle("r.$id", res.GetResource(func(r res.GetRequest) { r.NotFound() }))
		start := func() (chan error, bool) {
			served := make(chan struct{})
			s.SetOnServe(func(*res.Service) { close(served) })
			done := make(chan error, 1)
			go func() { done <- s.Serve(rconn.New(nil)) }()
			select {
			case <-served:
				return done, true
			case <-time.After(3 * time.Second):
				return done, false
			}
		}
		done, ok := start()
		if !ok {
			return
		}
		inside, release := make(chan struct{}), make(chan struct{})
		s.With("test.r.a", func(res.Resource) { close(inside); <-release })
		<-inside
		ranEarly := make(chan struct{}, 1)
		if variant == 1 {
			s.WithGroup("gb", func(*res.Service) { ranEarly <- struct{}{} })
		} else {
			s.With("test.r.b", func(res.Resource) { ranEarly <- struct{}{} })
		}
		sd := make(chan error, 1)
		go func() { sd <- s.Shutdown() }()
		time.Sleep(2 * time.Millisecond)
		close(release)
		select {
		case <-sd:
		case <-time.After(3 * time.Second):
			viol(hangKind(goroutineDump()), "Shutdown did not return within 3s (a callback queued behind a running one)")
			return
		}
		select {
		case <-done:
		case <-time.After(3 * time.Second):
		}
		done, ok = start()
		if !ok {
			viol("serve-not-started", "the service did not start again")
			return
		}
		ran := make(chan struct{})
		var err error
		if variant == 1 {
			s.WithGroup("gb", func(*res.Service) { close(ran) })
		} else {
			err = s.With("test.r.b", func(res.Resource) { close(ran) })
		}
		if err != nil {
			viol("with-error", fmt.Sprintf("With after the restart: %v", err))
		} else {
			select {
			case <-ran:
			case <-time.After(2 * time.Second):
				viol("restart-lost", "a callback submitted after the restart to a group that had a callback waiting in the queue when the service was shut down never ran")
			}
		}
		s.Shutdown()
		select {
		case <-done:
		case <-time.After(3 * time.Second):
		}
	}
}

// ConcurrentLookups: three goroutines call With at the same time, each for resources of its own (two groups and an
// id no handler matches). With reports an error exactly for the unmatched id, and every callback runs in the group
// its resource belongs to.
func ConcurrentLookups(out *RunResult) {
	viol := func(prop, kind, text string) {
		if len(out.Violations) < 8 {
			out.Violations = append(out.Violations, Violation{Property: prop, Kind: kind, Text: text, Sig: map[string]string{"kind": kind, "engine": "sched"}})
		}
	}
	s := res.NewService("test")
	s.SetLogger(nil)
	s.SetWorkerCount(4)
	get := res.GetResource(func(r res.GetRequest) { r.NotFound() })
	s.Handle("alpha.$id", get, res.Group("ga.${id}"))
	s.Handle("bravo.$a.$b", get, res.Group("gb.${b}"))
	served := make(chan struct{})
	s.SetOnServe(func(*res.Service) { close(served) })
	done := make(chan error, 1)
	go func() { done <- s.Serve(rconn.New(nil)) }()
	select {
	case <-served:
	case <-time.After(3 * time.Second):
		return
	}
	var vmu sync.Mutex
	var wg sync.WaitGroup
	for p := 0; p < 3; p++ {
		wg.Add(1)
		go func(p int) {
			defer wg.Done()
			for i := 0; i < 100000; i++ {
				switch p {
				case 0:
					rid, want := fmt.Sprintf("test.alpha.%d", i%3), fmt.Sprintf("ga.%d", i%3)
					if err := s.With(rid, func(r res.Resource) {
						if g := r.Group(); g != want {
							vmu.Lock()
							viol("C01", "wrong-group", fmt.Sprintf("callback for %s ran in worker group %q, its resource belongs to group %q", rid, g, want))
							vmu.Unlock()
						}
					}); err != nil {
						vmu.Lock()
						viol("C02", "with-error", fmt.Sprintf("With(%q) returned %v although a handler matches", rid, err))
						vmu.Unlock()
					}
				case 1:
					rid, want := fmt.Sprintf("test.bravo.x%d.%d", i%2, i%3), fmt.Sprintf("gb.%d", i%3)
					if err := s.With(rid, func(r res.Resource) {
						if g := r.Group(); g != want {
							vmu.Lock()
							viol("C01", "wrong-group", fmt.Sprintf("callback for %s ran in worker group %q, its resource belongs to group %q", rid, g, want))
							vmu.Unlock()
						}
					}); err != nil {
						vmu.Lock()
						viol("C02", "with-error", fmt.Sprintf("With(%q) returned %v although a handler matches", rid, err))
						vmu.Unlock()
					}
				default:
					rid := fmt.Sprintf("test.delta.%d.%d.%d", i%2, i%3, i%5)
					if err := s.With(rid, func(res.Resource) {}); err == nil {
						vmu.Lock()
						viol("C02", "with-no-error", fmt.Sprintf("With(%q) returned nil although no handler matches", rid))
						vmu.Unlock()
					}
				}
			}
		}(p)
	}
	wg.Wait()
	s.Shutdown()
	select {
	case <-done:
	case <-time.After(5 * time.Second):
	}
}

// KeptRequest: a handler keeps the Resource value of its request; later, after requests for other resources
// have been served, a callback is submitted with WithResource on the kept value: it belongs to the group of the
// resource the value was made for, and starts after the callbacks submitted to that group before it.
func KeptRequest(out *RunResult) {
	viol := func(kind, text string) {
		out.Violations = append(out.Violations, Violation{Property: "C02", Kind: kind, Text: text, Sig: map[string]string{"kind": kind, "engine": "sched", "group": "jobs"}})
	}
	s := res.NewService("test")
	s.SetLogger(nil)
	s.SetWorkerCount(4)
	kept := make(chan res.Resource, 1)
	s.Handle("job.$id", res.Group("jobs"), res.Call("start", func(r res.CallRequest) {
		select {
		case kept <- r:
		default:
		}
		r.OK(nil)
	}))
	s.Handle("ping", res.Call("m", func(r res.CallRequest) { r.OK(nil) }))
	s.Handle("par.$id", res.Parallel(true), res.Call("m", func(r res.CallRequest) { r.OK(nil) }))
	conn := rconn.New(nil)
	served := make(chan struct{})
	s.SetOnServe(func(*res.Service) { close(served) })
	done := make(chan error, 1)
	go func() { done <- s.Serve(conn) }()
	select {
	case <-served:
	case <-time.After(3 * time.Second):
		return
	}
	defer func() {
		s.Shutdown()
		select {
		case <-done:
		case <-time.After(3 * time.Second):
		}
	}()
	conn.Deliver("call.test.job.1.start", "inbox.k", nil)
	var r res.Resource
	select {
	case r = <-kept:
	case <-time.After(2 * time.Second):
		return
	}
	for i := 0; i < 300; i++ {
		conn.Deliver([]string{"call.test.ping.m", "call.test.par.7.m"}[i%2], "inbox.p", nil)
	}
	time.Sleep(10 * time.Millisecond)
	if r.Group() != "jobs" || r.ResourceName() != "test.job.1" {
		viol("wrong-group", fmt.Sprintf("the Resource value a handler kept from its request for test.job.1 (group jobs) now says resource %q, group %q", r.ResourceName(), r.Group()))
	}
	release, first := make(chan struct{}), make(chan struct{})
	var order []string
	var mu sync.Mutex
	note := func(x string) { mu.Lock(); order = append(order, x); mu.Unlock() }
	s.WithGroup("jobs", func(*res.Service) { note("first"); close(first); <-release })
	<-first
	s.WithGroup("jobs", func(*res.Service) { note("second") })
	third := make(chan struct{})
	s.WithResource(r, func() { note("kept"); close(third) })
	time.Sleep(20 * time.Millisecond)
	mu.Lock()
	early := strings.Join(order, ",")
	mu.Unlock()
	close(release)
	select {
	case <-third:
	case <-time.After(2 * time.Second):
		viol("lost", "the callback submitted with WithResource on the kept value did not run")
	}
	if early != "first" {
		viol("order", fmt.Sprintf("callbacks of group jobs started while its first callback was still inside: %s", early))
	}
}

// NestedMountGroups: the only handler with a Group option sits two mount levels down, the levels built from
// the outside in (s.Route("api", nil), then api.Route("v2", ...)). Requests and With callbacks for its
// resources belong to that one group: they run one at a time.
func NestedMountGroups(out *RunResult) {
	viol := func(kind, text string) {
		if len(out.Violations) < 5 {
			out.Violations = append(out.Violations, Violation{Property: "C01", Kind: kind, Text: text, Sig: map[string]string{"kind": kind, "engine": "sched", "group": "models"}})
		}
	}
	for variant := 0; variant < 2; variant++ {
		var vmu sync.Mutex
		var inside int32
		s := res.NewService("test")
		s.SetLogger(nil)
		s.SetWorkerCount(4)
		body := func(group, where string) {
			if group != "models" {
				vmu.Lock()
				viol("wrong-group", fmt.Sprintf("%s ran in worker group %q, the handler's group is \"models\"", where, group))
				vmu.Unlock()
			}
			if atomic.AddInt32(&inside, 1) > 1 {
				vmu.Lock()
				viol("group-overlap", fmt.Sprintf("two callbacks of group \"models\" executing at once (%s entered while another was inside)", where))
				vmu.Unlock()
			}
			for i := 0; i < 200; i++ {
				runtime.Gosched()
			}
			atomic.AddInt32(&inside, -1)
		}
		h := []res.Option{res.Group("models"), res.GetResource(func(r res.GetRequest) { body(r.Group(), "get "+r.ResourceName()); r.NotFound() }),
			res.Call("m", func(r res.CallRequest) { body(r.Group(), "call "+r.ResourceName()); r.OK(nil) })}
		api := s.Route("api", nil)
		if variant == 0 {
			api.Route("v2", func(m *res.Mux) { m.Handle("model.$id", h...) })
		} else {
			v2 := res.NewMux("")
			v2.Handle("model.$id", h...)
			api.Mount("v2", v2)
		}
		conn := rconn.New(nil)
		served := make(chan struct{})
		s.SetOnServe(func(*res.Service) { close(served) })
		done := make(chan error, 1)
		go func() { done <- s.Serve(conn) }()
		select {
		case <-served:
		case <-time.After(3 * time.Second):
			return
		}
		var wg sync.WaitGroup
		for p := 0; p < 2; p++ {
			wg.Add(1)
			go func(p int) {
				defer wg.Done()
				for i := 0; i < 300; i++ {
					rid := fmt.Sprintf("test.api.v2.model.%d", (i+p)%4)
					switch (i + p) % 3 {
					case 0:
						conn.Deliver("get."+rid, "inbox.x", nil)
					case 1:
						conn.Deliver("call."+rid+".m", "inbox.x", nil)
					default:
						s.With(rid, func(r res.Resource) { body(r.Group(), "With "+rid) })
					}
				}
			}(p)
		}
		wg.Wait()
		time.Sleep(20 * time.Millisecond)
		s.Shutdown()
		select {
		case <-done:
		case <-time.After(3 * time.Second):
		}
	}
}

// TwoListenerLoop: the first life's Serve call is held in its OnServe callback while requests pile up in its
// in-channel; the service is shut down and served again; then the first call is released and passes its backlog on
// while the second life's listener receives requests too. Every callback must run in the worker group that its
// resource name gives (groups built from tags), one at a time per group.
func TwoListenerLoop(seed int64, prog Program, n int) *RunResult {
	out := &RunResult{}
	res.VerifHook = nil
	viol := func(kind, text string) {
		if len(out.Violations) < 5 {
			out.Violations = append(out.Violations, Violation{Property: "C01", Kind: kind, Text: text, Sig: map[string]string{"kind": kind, "engine": "sched"}})
		}
	}
	var vmu sync.Mutex
	var occ sync.Map
	s := res.NewService("test")
	s.SetLogger(nil)
	s.SetWorkerCount(prog.Workers)
	get := func(expect func(r res.GetRequest) string) res.Option {
		return res.GetResource(func(r res.GetRequest) {
			want := expect(r)
			v, _ := occ.LoadOrStore(want, new(int32))
			ctr := v.(*int32)
			if got := r.Group(); got != want {
				vmu.Lock()
				viol("wrong-group", fmt.Sprintf("callback for %s ran in worker group %q, its resource belongs to group %q", r.ResourceName(), got, want))
				vmu.Unlock()
			}
			if atomic.AddInt32(ctr, 1) > 1 {
				vmu.Lock()
				viol("group-overlap", fmt.Sprintf("two callbacks of group %q executing at once", want))
				vmu.Unlock()
			}
			for i := 0; i < 50; i++ {
				runtime.Gosched()
			}
			atomic.AddInt32(ctr, -1)
			r.NotFound()
		})
	}
	s.Handle("q.$id", get(func(r res.GetRequest) string { return "grp." + r.PathParam("id") }), res.Group("grp.${id}"))
	s.Handle("lib.$shelf.$book", get(func(r res.GetRequest) string { return "bk." + r.PathParam("book") }), res.Group("bk.${book}"))
	s.Handle("$tenant.doc.$id", get(func(r res.GetRequest) string { return "ten." + r.PathParam("tenant") }), res.Group("ten.${tenant}"))
	names := []string{"test.q.a", "test.q.b", "test.q.c", "test.lib.s1.a", "test.lib.s2.b", "test.lib.a.c", "test.a.doc.b", "test.b.doc.a", "test.c.doc.c"}
	deliver := func(conn *rconn.Conn, k int) {
		for i := 0; i < k; i++ {
			conn.Deliver("get."+names[i%len(names)], "inbox.x", nil)
		}
	}
	for rep := 0; rep < n && len(out.Violations) == 0; rep++ {
		served1, release := make(chan struct{}), make(chan struct{})
		s.SetOnServe(func(*res.Service) { close(served1); <-release })
		conn1 := rconn.New(nil)
		d1 := make(chan error, 1)
		go func() { d1 <- s.Serve(conn1) }()
		select {
		case <-served1:
		case <-time.After(3 * time.Second):
			close(release)
			return out
		}
		deliver(conn1, 900) // waits in the in-channel: the listener of this life has not started yet
		sd := make(chan error, 1)
		go func() { sd <- s.Shutdown() }()
		select {
		case <-sd:
		case <-time.After(3 * time.Second):
			close(release)
			return out
		}
		served2 := make(chan struct{})
		s.SetOnServe(func(*res.Service) { close(served2) })
		conn2 := rconn.New(nil)
		d2 := make(chan error, 1)
		go func() { d2 <- s.Serve(conn2) }()
		select {
		case <-served2:
		case <-d2:
			close(release)
			return out
		case <-time.After(3 * time.Second):
			close(release)
			return out
		}
		close(release)
		deliver(conn2, 900)
		time.Sleep(5 * time.Millisecond)
		go func() { sd <- s.Shutdown() }()
		select {
		case <-sd:
		case <-time.After(3 * time.Second):
			return out
		}
		for _, d := range []chan error{d1, d2} {
			select {
			case <-d:
			case <-time.After(3 * time.Second):
			}
		}
		out.Steps++
	}
	MountAfterLookup(out)
	NestedMountGroups(out)
	KeptRequest(out)
	ConcurrentLookups(out)
	QueuedWorkAcrossRestart(out)
	return out
}

// FailedStartLoop: a Serve or ListenAndServe call that fails before anything was started (no server at
// the address; a listener registered for a pattern that has no handler) returns an error and leaves a
// service that is not running: Shutdown comes back at once, and the service - repaired where needed -
// can be served and then gives the usual guarantees.
func FailedStartLoop(seed int64, prog Program, n int) *RunResult {
	out := &RunResult{}
	res.VerifHook = nil
	viol := func(kind, text string) {
		out.Violations = append(out.Violations, Violation{Property: "C03", Kind: kind, Text: text, Sig: map[string]string{"kind": kind, "engine": "sched"}})
	}
	for i := 0; i < n && len(out.Violations) == 0; i++ {
		s := res.NewService("test")
		s.SetLogger(nil)
		s.SetWorkerCount(prog.Workers)
		s.Handle("g.$id", res.GetResource(func(r res.GetRequest) { r.NotFound() }))
		what := "ListenAndServe with no server at the address"
		first := make(chan error, 1)
		if i%2 == 0 {
			go func() { first <- s.ListenAndServe("nats://127.0.0.1:1", nats.Timeout(300*time.Millisecond)) }()
		} else {
			what = "Serve with a listener on a pattern without handler"
			s.AddListener("late.$id", func(*res.Event) {})
			go func() { first <- s.Serve(rconn.New(nil)) }()
		}
		select {
		case err := <-first:
			if err == nil {
				viol("failed-start-no-error", what+" returned nil")
				continue
			}
		case <-time.After(5 * time.Second):
			viol("serve-hang", what+" did not return within 5s")
			continue
		}
		sd := make(chan error, 1)
		go func() { sd <- s.Shutdown() }()
		select {
		case <-sd: // refused as not started, or nil: both are an answer
		case <-time.After(3 * time.Second):
			viol("shutdown-hang:failed-start", "Shutdown after a failed "+what+" did not return within 3s")
			continue
		}
		if i%2 == 1 {
			s.Handle("late.$id", res.GetResource(func(r res.GetRequest) { r.NotFound() }))
		}
		conn := rconn.New(nil)
		served := make(chan struct{}, 1)
		s.SetOnServe(func(*res.Service) { served <- struct{}{} })
		done := make(chan error, 1)
		go func() { done <- s.Serve(conn) }()
		select {
		case <-served:
		case err := <-done:
			viol("restart-refused:failed-start", fmt.Sprintf("Serve after a failed %s ended at once: %v", what, err))
			continue
		case <-time.After(3 * time.Second):
			viol("serve-not-started", "Serve after a failed "+what+" did not start within 3s")
			continue
		}
		ran := make(chan struct{})
		if err := s.With("test.g.1", func(res.Resource) { close(ran) }); err != nil {
			viol("with-error", fmt.Sprintf("With on the restarted service: %v", err))
		} else {
			select {
			case <-ran:
			case <-time.After(2 * time.Second):
				viol("restart-lost", "a callback accepted after the restart did not run")
			}
		}
		go func() { sd <- s.Shutdown() }()
		select {
		case <-sd:
		case <-time.After(3 * time.Second):
			viol("shutdown-hang:other", "Shutdown of the restarted service did not return within 3s")
			continue
		}
		select {
		case <-done:
		case <-time.After(3 * time.Second):
			viol("serve-hang", "Serve did not return within 3s after Shutdown")
		}
	}
	return out
}

func FailSubLoop(seed int64, prog Program, n int) *RunResult {
	out := &RunResult{}
	rng := rand.New(rand.NewSource(seed))
	res.VerifHook = nil
	s := res.NewService("test")
	s.SetLogger(nil)
	s.SetWorkerCount(prog.Workers)
	var inside, overlaps, ran int32
	body := func() {
		if atomic.AddInt32(&inside, 1) > 1 {
			atomic.AddInt32(&overlaps, 1)
		}
		k := atomic.AddInt32(&ran, 1)
		time.Sleep(time.Duration(100+(int(k)*37)%400) * time.Microsecond)
		atomic.AddInt32(&inside, -1)
	}
	s.Handle("g.$id", res.GetResource(func(r res.GetRequest) { body(); r.NotFound() }), res.Group("grp"))
	viol := func(prop, kind, text string) {
		out.Violations = append(out.Violations, Violation{Property: prop, Kind: kind, Text: text, Sig: map[string]string{"kind": kind, "engine": "sched", "group": "grp"}})
	}
	stop := make(chan struct{})
	var pwg sync.WaitGroup
	for p := 0; p < 2; p++ {
		pwg.Add(1)
		go func(p int) {
			defer pwg.Done()
			for i := 0; ; i++ {
				select {
				case <-stop:
					return
				default:
				}
				if (i+p)%2 == 0 {
					s.WithGroup("grp", func(*res.Service) { body() })
				} else {
					s.With("test.g.1", func(res.Resource) { body() })
				}
				time.Sleep(time.Duration(20+(i*7)%60) * time.Microsecond)
			}
		}(p)
	}
	t0 := time.Now()
	for i := 0; i < n && len(out.Violations) == 0; i++ {
		conn := rconn.New(nil)
		failing := i%2 == 0
		if failing {
			t0 = time.Now()
		}
		if failing {
			conn.FailSub = func(string) error { return fmt.Errorf("subscription refused") }
		}
		served := make(chan struct{}, 1)
		s.SetOnServe(func(*res.Service) { served <- struct{}{} })
		done := make(chan error, 1)
		go func() { done <- s.Serve(conn) }()
		if failing {
			select {
			case <-done: // Serve gives up (the error may or may not be reported)
			case <-served:
				viol("C03", "served-without-subscriptions", fmt.Sprintf("Serve number %d reported serving although every subscription failed", i+1))
			case <-time.After(3 * time.Second):
				viol("C03", "serve-hang", fmt.Sprintf("Serve number %d did not return within 3s after its subscriptions failed", i+1))
			}
		} else {
			select {
			case <-served:
			case err := <-done:
				// the Shutdown goroutine of the failed Serve may not have finished yet (Serve returns when the
				// workers are gone, the state becomes stopped a moment later): not stopped is not a failure, try again
				if err != nil && strings.Contains(err.Error(), "not stopped") && time.Since(t0) < 3*time.Second {
					time.Sleep(200 * time.Microsecond)
					i--
					continue
				}
				viol("C03", "restart-refused", fmt.Sprintf("Serve number %d on a working connection, after a Serve that failed to subscribe, ended at once: %v", i+1, err))
				continue
			case <-time.After(3 * time.Second):
				viol("C03", "serve-not-started", fmt.Sprintf("Serve number %d did not start within 3s", i+1))
				continue
			}
			time.Sleep(time.Duration(1+rng.Intn(4)) * time.Millisecond)
			sd := make(chan error, 1)
			go func() { sd <- s.Shutdown() }()
			select {
			case <-sd:
			case <-time.After(3 * time.Second):
				viol("C03", hangKind(goroutineDump()), fmt.Sprintf("Shutdown did not return within 3s in serve cycle %d", i+1))
				out.Note = trimDump(goroutineDump())
				close(stop)
				return out
			}
			select {
			case <-done:
			case <-time.After(3 * time.Second):
				viol("C03", "serve-hang", fmt.Sprintf("Serve number %d did not return within 3s after Shutdown", i+1))
			}
		}
		out.Steps++
	}
	close(stop)
	pwg.Wait()
	time.Sleep(5 * time.Millisecond)
	out.Callbacks = int(atomic.LoadInt32(&ran))
	if o := atomic.LoadInt32(&overlaps); o > 0 {
		viol("C01", "group-overlap", fmt.Sprintf("%d times a callback of group \"grp\" started while another one was executing (serve cycles alternating between failing and working subscriptions)", o))
	}
	return out
}

// ContendLoop lets several goroutines submit short callbacks of the same few worker groups as fast as
// they can, with no hook installed (nothing slows the submitters down between their steps): the groups go
// idle and busy again all the time, and submissions race for the moment a group has no work item.
func ContendLoop(seed int64, prog Program, n int) *RunResult {
	out := &RunResult{}
	res.VerifHook = nil
	s := res.NewService("test")
	s.SetLogger(nil)
	s.SetWorkerCount(prog.Workers)
	groups := []string{"grp.a", "grp.b", "test.c.1"}
	inside := make([]int32, len(groups))
	var overlaps, ran, submitted int32
	body := func(g int) {
		if atomic.AddInt32(&inside[g], 1) > 1 {
			atomic.AddInt32(&overlaps, 1)
		}
		k := atomic.AddInt32(&ran, 1)
		// stay inside for a few microseconds (longer than a submission takes), sometimes yielding
		for t0 := time.Now(); time.Since(t0) < 25*time.Microsecond; {
		}
		if k%3 == 0 {
			runtime.Gosched()
		}
		atomic.AddInt32(&inside[g], -1)
	}
	s.Handle("a.$id", res.GetResource(func(r res.GetRequest) { body(0); r.NotFound() }), res.Group("grp.a"))
	s.Handle("b.$id", res.GetResource(func(r res.GetRequest) { body(1); r.NotFound() }), res.Group("grp.b"))
	s.Handle("c.$id", res.GetResource(func(r res.GetRequest) { body(2); r.NotFound() }))
	conn := rconn.New(nil)
	served := make(chan struct{})
	s.SetOnServe(func(*res.Service) { close(served) })
	done := make(chan error, 1)
	go func() { done <- s.Serve(conn) }()
	select {
	case <-served:
	case <-time.After(3 * time.Second):
		out.Violations = append(out.Violations, Violation{Property: "C03", Kind: "serve-not-started", Text: "Serve did not start", Sig: map[string]string{"kind": "serve-not-started", "engine": "sched"}})
		return out
	}
	// rounds: the groups are idle, then all submitters are let go at the same instant
	submit := func(p, i int) {
		g := (i + p/2) % len(groups)
		atomic.AddInt32(&submitted, 1)
		switch (i + p) % 3 {
		case 0:
			s.WithGroup(groups[g], func(*res.Service) { body(g) })
		case 1:
			s.With([]string{"test.a.1", "test.b.2", "test.c.1"}[g], func(res.Resource) { body(g) })
		default:
			conn.Deliver([]string{"get.test.a.7", "get.test.b.7", "get.test.c.1"}[g], "inbox.x", nil)
		}
	}
	var wg sync.WaitGroup
	const submitters = 6
	for i := 0; i < n/8; i++ {
		for atomic.LoadInt32(&ran) < atomic.LoadInt32(&submitted) {
			runtime.Gosched()
		}
		start := make(chan struct{})
		for p := 0; p < submitters; p++ {
			wg.Add(1)
			go func(p int) {
				defer wg.Done()
				<-start
				submit(p, i)
				if (i+p)%4 == 0 {
					submit(p, i+1)
				}
			}(p)
		}
		close(start)
		wg.Wait()
	}
	wg.Wait()
	deadline := time.Now().Add(5 * time.Second)
	for atomic.LoadInt32(&ran) < atomic.LoadInt32(&submitted) && time.Now().Before(deadline) {
		time.Sleep(time.Millisecond)
	}
	if r, sub := atomic.LoadInt32(&ran), atomic.LoadInt32(&submitted); r != sub {
		out.Violations = append(out.Violations, Violation{Property: "C02", Kind: "lost", Text: fmt.Sprintf("%d callbacks were submitted to a started service that is not shutting down, %d ran", sub, r), Sig: map[string]string{"kind": "lost", "engine": "sched"}})
	}
	s.Shutdown()
	select {
	case <-done:
	case <-time.After(3 * time.Second):
	}
	out.Callbacks = int(atomic.LoadInt32(&ran))
	out.Steps = int(submitted)
	if o := atomic.LoadInt32(&overlaps); o > 0 {
		out.Violations = append(out.Violations, Violation{Property: "C01", Kind: "group-overlap", Text: fmt.Sprintf("%d times a callback started while another callback of its worker group was executing (4 goroutines submitting to 3 groups that keep going idle)", o), Sig: map[string]string{"kind": "group-overlap", "engine": "sched", "group": "contended"}})
	}
	return out
}

package sched

import (
	"fmt"
	"math/rand"
	"time"

	res "github.com/jirenius/go-res"
)

// Window runs prog once with one ordering constraint: the goroutine of roleA
// waits at pointA until roleB has passed pointB (or a timeout).
func Window(seed int64, prog Program, roleA, pointA, roleB, pointB string) *RunResult {
	tr := NewTracer(seed)
	tr.SetWindow(roleA, pointA, roleB, pointB, 30*time.Millisecond)
	tr.SetPerturb(true)
	res.VerifHook = tr.Hook
	defer func() { res.VerifHook = nil }()
	sc := NewScenario(tr, prog)
	out := &RunResult{}
	sc.Start(0)
	sdDur := make(chan time.Duration, 4)
	// the service must be started before the window makes sense
	waitStarted(tr, 2*time.Second)
	if prog.Shutdown {
		sc.StartShutdown(sdDur)
	}
	finish(sc, tr, out, sdDur, prog)
	return out
}

func waitStarted(tr *Tracer, d time.Duration) bool {
	deadline := time.Now().Add(d)
	for time.Now().Before(deadline) {
		for _, e := range tr.Events() {
			if e.Point == "sv.subscribed" {
				return true
			}
		}
		time.Sleep(100 * time.Microsecond)
	}
	return false
}

// Stress runs prog free-running with random perturbation at every hook point.
// With cycles > 1 the service is restarted after each Shutdown.
func Stress(seed int64, prog Program) *RunResult {
	tr := NewTracer(seed)
	tr.SetPerturb(true)
	res.VerifHook = tr.Hook
	defer func() { res.VerifHook = nil }()
	rng := rand.New(rand.NewSource(seed))
	sc := NewScenario(tr, prog)
	out := &RunResult{}
	sdDur := make(chan time.Duration, 8)
	for cyc := 0; cyc < sc.prog.Cycles; cyc++ {
		sc.Start(cyc)
		if !waitStartedCycle(tr, cyc+1, 2*time.Second) {
			sc.violate("C03", "serve-not-started", fmt.Sprintf("Serve did not start in cycle %d", cyc+1), nil)
			break
		}
		if cyc == sc.prog.Cycles-1 {
			break
		}
		// shut down at a random moment and restart
		time.Sleep(time.Duration(rng.Intn(300)) * time.Microsecond)
		sc.StartShutdown(sdDur)
		select {
		case <-sdDur:
		case <-time.After(3 * time.Second):
			sc.violate("C03", hangKind(goroutineDump()), "Shutdown did not return within 3s (restart cycle)", nil)
			out.Note = trimDump(goroutineDump())
			out.Events = tr.Events()
			out.Violations = append(out.Violations, sc.viol...)
			return out
		}
		select {
		case <-sc.serveDone:
		case <-time.After(3 * time.Second):
			sc.violate("C03", "serve-hang", "Serve did not return within 3s after Shutdown returned", nil)
		}
	}
	if prog.Shutdown {
		time.Sleep(time.Duration(rng.Intn(400)) * time.Microsecond)
		sc.StartShutdown(sdDur)
	}
	finish(sc, tr, out, sdDur, prog)
	return out
}

func waitStartedCycle(tr *Tracer, n int, d time.Duration) bool {
	deadline := time.Now().Add(d)
	for time.Now().Before(deadline) {
		c := 0
		for _, e := range tr.Events() {
			if e.Point == "sv.subscribed" {
				c++
			}
		}
		if c >= n {
			return true
		}
		time.Sleep(100 * time.Microsecond)
	}
	return false
}

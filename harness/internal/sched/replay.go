package sched

import (
	"bufio"
	"fmt"
	"os"
	"regexp"
	"strings"
	"time"

	res "github.com/jirenius/go-res"
)

// Step is one action of a TLC behaviour of ResSched.
type Step struct {
	Action string `json:"a"`
	Proc   string `json:"p,omitempty"`
}

var reAction = regexp.MustCompile(`^\\\* <(\w+)(?:\(([^)]*)\))? line`)

// ParseBehaviour reads a file written by `tlc -simulate file=...` (or a TLC
// counterexample in the same comment format) and returns the action sequence.
func ParseBehaviour(path string) ([]Step, error) {
	f, err := os.Open(path)
	if err != nil {
		return nil, err
	}
	defer f.Close()
	var steps []Step
	sc := bufio.NewScanner(f)
	sc.Buffer(make([]byte, 1<<20), 16<<20)
	for sc.Scan() {
		m := reAction.FindStringSubmatch(sc.Text())
		if m == nil || m[1] == "Init" {
			continue
		}
		steps = append(steps, Step{Action: m[1], Proc: m[2]})
	}
	return steps, sc.Err()
}

// gate points used in replay mode
var replayGates = []string{
	"serve.call", "sv.init", "sv.started", "sv.waited",
	"rw.enter", "rw.checked", "rw.unlocked",
	"wk.start", "cb.body",
	"sd.call", "sd.enter", "sd.cas", "cl.unlocked", "cl.bcast", "cl.connclosed", "cl.inchclosed", "sd.waited", "sd.cleared",
	"api.call", "api.checked",
}

// where a role's goroutine must be parked for an action to be taken, by action
var actionGate = map[string][]string{
	"SvCas":          {"serve.call"},
	"SvStarted":      {"sv.init"},
	"SvReturn":       {"sv.waited"},
	"OldServeReturn": {"sv.waited"},
	"RwCheck":        {"rw.enter"},
	"RwEnqueue":      {"rw.checked"},
	"RwSignal":       {"rw.unlocked"},
	"WkLock":         {"wk.start"},
	"WkRelock":       {"cb.body"},
	"SdCas":          {"sd.call", "sd.enter"},
	"ClNil":          {"sd.cas"},
	"ClBroadcast":    {"cl.unlocked"},
	"ClConnClose":    {"cl.bcast"},
	"ClCloseInCh":    {"cl.connclosed"},
	"SdWait":         {"cl.inchclosed"},
	"SdClear":        {"sd.waited"},
	"SdStopped":      {"sd.cleared"},
	"ApiCheck":       {"api.call"},
	"ApiUse":         {"api.checked"},
}

const (
	parkWait   = 150 * time.Millisecond
	settleWait = 3 * time.Millisecond
)

// Replay runs prog once, steering the real goroutines through steps.
func Replay(seed int64, prog Program, steps []Step) *RunResult {
	tr := NewTracer(seed)
	tr.SetGated(replayGates...)
	res.VerifHook = tr.Hook
	defer func() { res.VerifHook = nil }()
	// a behaviour without Shutdown is run without a Shutdown goroutine, so that exactly-once can be judged
	hasSd := false
	for _, st := range steps {
		if st.Action == "SdCas" {
			hasSd = true
		}
	}
	prog.Shutdown = hasSd
	// the serve cycles in which the behaviour lets the subscriptions fail
	cyc := -1
	for _, st := range steps {
		switch st.Action {
		case "SvCas":
			cyc++
		case "SvSubFail":
			prog.FailSubCycles = append(prog.FailSubCycles, cyc)
		}
	}
	sc := NewScenario(tr, prog)
	out := &RunResult{}
	sc.Start(0)
	sdDur := make(chan time.Duration, 4)
	if prog.Shutdown {
		sc.StartShutdown(sdDur)
	}
	bound := map[string]int64{} // model worker -> goroutine
	used := map[int64]bool{}
	cycle := 0
	release := func(role string, gates []string, only map[int64]bool, skip map[int64]bool) (int64, bool) {
		w := tr.AwaitParked(role, gates, only, skip, parkWait)
		if w == nil {
			return 0, false
		}
		// a goroutine parked at an earlier gate of the same action (sd.call before sd.enter,
		// sv.started after sv.init) is walked forward
		tr.Release(w)
		tr.Settle(w.g, settleWait)
		return w.g, true
	}
	for _, st := range steps {
		applied := false
		switch st.Action {
		case "SvReturn", "OldServeReturn":
			// the (oldest) Serve call that has finished waiting for its workers returns
			_, applied = release("serve", actionGate[st.Action], nil, nil)
		case "SvInit", "SvListenEnd", "WkReacquire", "Terminated":
			// no gate: these happen on their own (inside Serve / sync primitives)
			if st.Action == "WkReacquire" {
				delete(bound, st.Proc) // whichever worker really woke up is bound at its next step
			}
			applied = true
		case "SvStarted":
			// the state becomes started; Serve parks again before it subscribes (SvSubscribed / SvSubFail)
			_, applied = release("serve", actionGate[st.Action], nil, nil)
		case "WkLock":
			if g, ok := release("worker", actionGate[st.Action], nil, used); ok {
				bound[st.Proc] = g
				used[g] = true
				applied = true
			}
		case "WkRelock":
			var only map[int64]bool
			if g, ok := bound[st.Proc]; ok {
				only = map[int64]bool{g: true}
			}
			g, ok := release("worker", actionGate[st.Action], only, nil)
			if !ok && only != nil {
				g, ok = release("worker", actionGate[st.Action], nil, nil)
			}
			if ok {
				bound[st.Proc] = g
				applied = true
			}
		case "SdCas":
			if _, ok := release("sd", []string{"sd.call"}, nil, nil); ok {
				_, ok2 := release("sd", []string{"sd.enter"}, nil, nil)
				applied = ok2
			}
		default:
			role := st.Proc
			switch {
			case strings.HasPrefix(st.Action, "Cl"), strings.HasPrefix(st.Action, "Sd"):
				role = "sd"
			case strings.HasPrefix(st.Action, "Sv"):
				role = "serve"
			}
			if gates, ok := actionGate[st.Action]; ok {
				_, applied = release(role, gates, nil, nil)
			}
			if st.Action == "SdStopped" && applied && cycle+1 < prog.Cycles {
				// the service is stopped: it may be served again at once, whether or not the previous
				// Serve call has returned (the next SvCas step decides when)
				cycle++
				sc.Start(cycle)
				if prog.Shutdown {
					sc.StartShutdown(sdDur)
				}
			}
		}
		if os.Getenv("VERIF_DEBUG_REPLAY") != "" {
			fmt.Printf("%s step %s(%s) applied=%v cycle=%d\n", time.Now().Format("05.000"), st.Action, st.Proc, applied, cycle)
		}
		if applied {
			out.Steps++
		} else {
			out.Skipped++
			if out.SkippedBy == nil {
				out.SkippedBy = map[string]int{}
			}
			out.SkippedBy[st.Action]++
		}
	}
	finish(sc, tr, out, sdDur, prog)
	return out
}

// finish opens all gates, makes sure the service is shut down, and evaluates the monitors.
func finish(sc *Scenario, tr *Tracer, out *RunResult, sdDur chan time.Duration, prog Program) {
	tr.FreeAll()
	// wait for the producers and API callers, let submitted work drain, then stop the
	// service if the schedule did not
	pdone := make(chan struct{})
	go func() { sc.pwg.Wait(); close(pdone) }()
	select {
	case <-pdone:
	case <-time.After(2 * time.Second):
	}
	quiet(sc, 500*time.Millisecond)
	// The last life of the service may still be running: the schedule had no Shutdown for it, or its
	// Shutdown came while the service was still starting and was refused as not-started. Stop it now.
	count := func() (serves, started, sdBegun, sdEnded, sdOK int) {
		for _, e := range tr.Events() {
			switch e.Point {
			case "serve.go":
				serves++
			case "sv.started":
				started++
			case "sd.begin":
				sdBegun++
			case "sd.ret":
				sdEnded++
				if argS(e, 0) == "<nil>" {
					sdOK++
				}
			}
		}
		return
	}
	settle := time.Now().Add(2 * time.Second)
	for time.Now().Before(settle) {
		// let Shutdown calls that the opened gates released come back, and a starting Serve get started
		serves, started, sdBegun, sdEnded, sdOK := count()
		if sdBegun == sdEnded && (sdOK >= serves || started >= serves) {
			break
		}
		time.Sleep(500 * time.Microsecond)
	}
	if serves, _, _, _, sdOK := count(); sdOK < serves {
		sc.StartCleanupShutdown(sdDur)
	}
	// wait for every role goroutine (producers, api, sd, serve)
	doneCh := make(chan struct{})
	go func() { sc.wg.Wait(); close(doneCh) }()
	select {
	case <-doneCh:
	case <-time.After(3 * time.Second):
		dump := goroutineDump()
		kind := hangKind(dump)
		if strings.HasPrefix(kind, "shutdown-hang") && strings.Contains(dump, "(*Service).Shutdown") {
			sc.violate("C03", kind, "Shutdown (or Serve) did not return within 3s after all gates were opened", map[string]string{})
			out.Note = trimDump(dump)
		} else {
			out.Note = "roles did not finish: " + trimDump(dump)
			sc.violate("C03", "roles-stuck", "harness roles did not finish within 3s", map[string]string{})
		}
	}
	for _, a := range prog.Api {
		if a == "queryevent" {
			time.Sleep(8 * time.Millisecond) // query events that were pending when the service stopped expire now
			break
		}
	}
	out.Events = tr.Events()
	out.Callbacks = int(sc.ncb)
	evaluate(sc, out, prog)
	out.Violations = append(out.Violations, sc.viol...)
}

func trimDump(d string) string {
	var keep []string
	for _, blk := range strings.Split(d, "\n\n") {
		if strings.Contains(blk, "go-res.") || strings.Contains(blk, "go-res/") {
			lines := strings.Split(blk, "\n")
			if len(lines) > 9 {
				lines = lines[:9]
			}
			keep = append(keep, strings.Join(lines, "\n"))
		}
	}
	s := strings.Join(keep, "\n--\n")
	if len(s) > 6000 {
		s = s[:6000]
	}
	return s
}

// quiet waits until every request placed in the in-channel has been taken by the listener and
// every accepted callback has started and finished (or max elapsed).
func quiet(sc *Scenario, max time.Duration) {
	deadline := time.Now().Add(max)
	for time.Now().Before(deadline) {
		enq, st, en, delivered, recv := 0, 0, 0, 0, 0
		pendingListener := map[int64]bool{}
		evs := sc.tr.Events()
		from := 0
		for i, e := range evs {
			if e.Point == "serve.go" {
				from = i // only the current life of the service counts
			}
		}
		for _, e := range evs[from:] {
			switch e.Point {
			case "rw.enq":
				enq++
				delete(pendingListener, e.G)
			case "rw.refused":
				delete(pendingListener, e.G)
			case "cb.start":
				st++
			case "cb.end":
				en++
			case "delivered":
				delivered++
			case "hr.recv":
				recv++
				pendingListener[e.G] = true // the listener is between receipt and enqueue/refusal
			}
		}
		if enq == st && st == en && delivered == recv && len(pendingListener) == 0 {
			return
		}
		time.Sleep(500 * time.Microsecond)
	}
}

var _ = fmt.Sprint

// Package sched is the engine behind C01, C02, C03 and C16 (and the scheduler
// part of C15): it drives a real res.Service with harness callbacks under
// three kinds of schedules - TLC behaviours of ResSched.tla replayed through
// gate hooks, systematic pairwise windows, and perturbed free-running stress -
// and judges the runs with monitors and with TLC on the recorded event trace.
package sched

import (
	"bytes"
	"math/rand"
	"runtime"
	"strconv"
	"sync"
	"sync/atomic"
	"time"
)

// goid returns the current goroutine id.
func goid() int64 {
	var buf [64]byte
	n := runtime.Stack(buf[:], false)
	// "goroutine 123 [running]:"
	b := buf[10:n]
	i := bytes.IndexByte(b, ' ')
	if i < 0 {
		return -1
	}
	id, _ := strconv.ParseInt(string(b[:i]), 10, 64)
	return id
}

// Event is one recorded hook or harness event.
type Event struct {
	Seq   int64
	G     int64  // goroutine id
	Role  string // registered role of the goroutine ("" for library goroutines)
	Point string
	Args  []interface{}
}

// Tracer records events and controls gates.
type Tracer struct {
	mu     sync.Mutex
	seq    int64
	events []Event
	roles  map[int64]string

	// gate control
	gated   map[string]bool   // points at which registered/worker goroutines park
	waiting map[int64]*waiter // goroutines parked at a gate
	arrive  chan struct{}     // pulsed whenever a goroutine parks or a role ends
	free    int32             // 1 = all gates open
	workers map[int64]bool    // goroutines seen at wk.start

	// AutoRoles names library goroutines by the prefix of the first hook point they hit
	AutoRoles map[string]string

	// perturbation (free running mode)
	perturb int32
	rngMu   sync.Mutex
	rng     *rand.Rand

	// window constraint: goroutine of role A waits at point X until role B passed Y
	win *window

	// steering: number of live work items per worker id (created by rw.enq new=true, gone at pq.retire);
	// a group that ever had two at once is suspect, and its callbacks linger so that an overlap shows
	live    map[string]int
	suspect map[string]bool
}

// Suspect tells whether two work items of the group were alive at the same time.
func (t *Tracer) Suspect(group string) bool {
	t.mu.Lock()
	defer t.mu.Unlock()
	return t.suspect[group]
}

type waiter struct {
	g     int64
	role  string
	point string
	ch    chan struct{}
}

type window struct {
	roleA, pointA string
	roleB, pointB string
	passed        chan struct{}
	once          sync.Once
	used          int32
	timeout       time.Duration
}

// NewTracer creates a tracer.
func NewTracer(seed int64) *Tracer {
	return &Tracer{roles: map[int64]string{}, gated: map[string]bool{}, waiting: map[int64]*waiter{},
		arrive: make(chan struct{}, 1024), workers: map[int64]bool{}, rng: rand.New(rand.NewSource(seed))}
}

// Register names the calling goroutine.
func (t *Tracer) Register(role string) {
	g := goid()
	t.mu.Lock()
	t.roles[g] = role
	t.mu.Unlock()
}

// Unregister marks the calling goroutine's role as finished.
func (t *Tracer) Unregister() {
	g := goid()
	t.mu.Lock()
	delete(t.roles, g)
	t.mu.Unlock()
	t.pulse()
}

func (t *Tracer) pulse() {
	select {
	case t.arrive <- struct{}{}:
	default:
	}
}

// Events returns a snapshot of the event log.
func (t *Tracer) Events() []Event {
	t.mu.Lock()
	defer t.mu.Unlock()
	return append([]Event(nil), t.events...)
}

// Log records a harness event from the calling goroutine.
func (t *Tracer) Log(point string, args ...interface{}) int64 {
	g := goid()
	t.mu.Lock()
	t.seq++
	s := t.seq
	t.events = append(t.events, Event{Seq: s, G: g, Role: t.roles[g], Point: point, Args: args})
	t.mu.Unlock()
	return s
}

// inLock lists the hook points that fire while the service mutex is held: they
// never block and never yield.
var inLock = map[string]bool{
	"rw.enq": true, "wk.locked": true, "wk.park": true, "wk.wake": true, "wk.pop": true, "wk.exit": true,
	"pq.take": true, "pq.relock": true, "pq.retire": true, "cl.nil": true,
}

// Hook is installed as res.VerifHook.
func (t *Tracer) Hook(point string, args ...interface{}) {
	g := goid()
	t.mu.Lock()
	t.seq++
	role := t.roles[g]
	if point == "wk.start" {
		t.workers[g] = true
	}
	if role == "" && t.workers[g] {
		role = "worker"
	}
	if role == "" && t.AutoRoles != nil && len(point) > 3 {
		if r, ok := t.AutoRoles[point[:3]]; ok {
			role = r
			t.roles[g] = r
		}
	}
	t.events = append(t.events, Event{Seq: t.seq, G: g, Role: role, Point: point, Args: args})
	switch point {
	case "rw.enq":
		if wid, _ := args[0].(string); wid != "" && len(args) > 1 && args[1] == true {
			if t.live == nil {
				t.live, t.suspect = map[string]int{}, map[string]bool{}
			}
			t.live[wid]++
			if t.live[wid] > 1 {
				t.suspect[wid] = true
			}
		}
	case "pq.retire":
		if wid, _ := args[0].(string); wid != "" && t.live[wid] > 0 {
			t.live[wid]--
		}
	case "sv.init":
		t.live = map[string]int{} // work items of the previous life are gone
	}
	var w *waiter
	if atomic.LoadInt32(&t.free) == 0 && t.gated[point] && role != "" && !inLock[point] && gateApplies(point, role) {
		w = &waiter{g: g, role: role, point: point, ch: make(chan struct{})}
		t.waiting[g] = w
	}
	win := t.win
	t.mu.Unlock()
	if inLock[point] {
		return
	}
	if w != nil {
		t.pulse()
		<-w.ch
		return
	}
	if win != nil {
		if role == win.roleB && point == win.pointB {
			win.once.Do(func() { close(win.passed) })
		}
		if role == win.roleA && point == win.pointA && atomic.CompareAndSwapInt32(&win.used, 0, 1) {
			select {
			case <-win.passed:
			case <-time.After(win.timeout):
			}
		}
	}
	if atomic.LoadInt32(&t.perturb) != 0 {
		t.rngMu.Lock()
		r := t.rng.Intn(16)
		t.rngMu.Unlock()
		switch {
		case r < 6:
			runtime.Gosched()
		case r < 8:
			time.Sleep(time.Duration(1+r) * time.Microsecond)
		case r == 8:
			time.Sleep(50 * time.Microsecond)
		}
	}
}

// gateApplies tells whether a gate point steers goroutines of the given role:
// each point belongs to the role class whose model action it delimits.
func gateApplies(point, role string) bool {
	switch {
	case len(point) > 3 && point[:3] == "rw.":
		return role[0] == 'p'
	case len(point) > 4 && point[:4] == "api.":
		return role[0] == 'a'
	case point == "serve.call" || (len(point) > 3 && point[:3] == "sv."):
		return role == "serve"
	case point == "sd.call" || (len(point) > 3 && (point[:3] == "sd." || point[:3] == "cl.")):
		return role == "sd" || role == "sdc"
	case point == "wk.start" || point == "cb.body":
		return role == "worker"
	case len(point) > 3 && point[:3] == "ql.":
		return role == "ql"
	case len(point) > 3 && point[:3] == "qx.":
		return role == "timer"
	}
	return true
}

// Gate is a harness-level gate point (same semantics as a hook point).
func (t *Tracer) Gate(point string, args ...interface{}) { t.Hook(point, args...) }

// SetGated chooses the points at which goroutines park.
func (t *Tracer) SetGated(points ...string) {
	t.mu.Lock()
	for _, p := range points {
		t.gated[p] = true
	}
	t.mu.Unlock()
}

// FreeAll opens every gate for good.
func (t *Tracer) FreeAll() {
	atomic.StoreInt32(&t.free, 1)
	t.mu.Lock()
	for g, w := range t.waiting {
		close(w.ch)
		delete(t.waiting, g)
	}
	t.mu.Unlock()
}

// WaitingAt returns a goroutine of the given role parked at one of the points
// (for role "worker": excluding the goroutines in skip).
func (t *Tracer) WaitingAt(role string, points ...string) bool {
	return t.waitingAt(role, points, nil, nil) != nil
}

func (t *Tracer) waitingAt(role string, points []string, only map[int64]bool, skip map[int64]bool) *waiter {
	t.mu.Lock()
	defer t.mu.Unlock()
	var best *waiter
	for _, w := range t.waiting {
		if w.role != role {
			continue
		}
		if only != nil && !only[w.g] {
			continue
		}
		if skip != nil && skip[w.g] {
			continue
		}
		for _, p := range points {
			if w.point == p && (best == nil || w.g < best.g) {
				best = w
			}
		}
	}
	return best
}

// Step releases the goroutine of role parked at one of points (waiting up to d for
// it to arrive) and lets it run until it parks again or settle elapses.
func (t *Tracer) Step(role string, points []string, d, settle time.Duration) bool {
	w := t.AwaitParked(role, points, nil, nil, d)
	if w == nil {
		return false
	}
	t.Release(w)
	t.Settle(w.g, settle)
	return true
}

// AwaitParked waits until a goroutine of role is parked at one of points.
func (t *Tracer) AwaitParked(role string, points []string, only, skip map[int64]bool, d time.Duration) *waiter {
	deadline := time.Now().Add(d)
	for {
		if w := t.waitingAt(role, points, only, skip); w != nil {
			return w
		}
		rest := time.Until(deadline)
		if rest <= 0 {
			return nil
		}
		select {
		case <-t.arrive:
		case <-time.After(rest):
		}
	}
}

// Release lets a parked goroutine continue.
func (t *Tracer) Release(w *waiter) {
	t.mu.Lock()
	if cur, ok := t.waiting[w.g]; ok && cur == w {
		delete(t.waiting, w.g)
		close(w.ch)
	}
	t.mu.Unlock()
}

// Settle waits until goroutine g is parked at a gate again, its role ended, or d elapsed.
func (t *Tracer) Settle(g int64, d time.Duration) bool {
	deadline := time.Now().Add(d)
	for {
		t.mu.Lock()
		_, parked := t.waiting[g]
		_, alive := t.roles[g]
		isWorker := t.workers[g]
		t.mu.Unlock()
		if parked || (!alive && !isWorker) {
			return true
		}
		rest := time.Until(deadline)
		if rest <= 0 {
			return false
		}
		select {
		case <-t.arrive:
		case <-time.After(rest):
		}
	}
}

// SetPerturb switches random yields at hook points on or off.
func (t *Tracer) SetPerturb(on bool) {
	if on {
		atomic.StoreInt32(&t.perturb, 1)
	} else {
		atomic.StoreInt32(&t.perturb, 0)
	}
}

// SetWindow installs a window constraint.
func (t *Tracer) SetWindow(roleA, pointA, roleB, pointB string, timeout time.Duration) {
	t.mu.Lock()
	t.win = &window{roleA: roleA, pointA: pointA, roleB: roleB, pointB: pointB, passed: make(chan struct{}), timeout: timeout}
	t.mu.Unlock()
}

package sched

import (
	"fmt"
	"runtime"
	"strings"
	"sync"
	"sync/atomic"
	"time"

	res "github.com/jirenius/go-res"
	"github.com/jirenius/go-res/logger"

	"verif/internal/rconn"
)

// Sub is one submission of a producer.
type Sub struct {
	Kind  string `json:"kind"`           // with | withres | withgroup | get | call | nested
	Group string `json:"group"`          // model group: g1 | g2 | par
	Slow  bool   `json:"slow,omitempty"` // the callback stays inside for a few hundred microseconds
}

// Program is what one run executes.
type Program struct {
	Workers       int              `json:"workers"`
	InCh          int              `json:"inch"`
	Producers     map[string][]Sub `json:"producers"`
	Api           []string         `json:"api"`                      // API callers: reset | resetall | token | tokenreset | event
	Shutdown      bool             `json:"shutdown"`                 // a Shutdown goroutine exists
	Cycles        int              `json:"cycles"`                   // number of Serve/Shutdown cycles (>=1)
	SdDelayUs     int              `json:"sd_delay_us,omitempty"`    // free-running runs: when the scheduled Shutdown is called (0: within 400us)
	FailSubCycles []int            `json:"failsub_cycles,omitempty"` // serve cycles (0-based) whose connection refuses every subscription
	OnServeUs     int              `json:"onserve_us,omitempty"`     // the OnServe callback of the first life takes this long (its listener starts afterwards, with a backlog)
	Overtake      bool             `json:"overtake,omitempty"`       // restart as soon as Shutdown has returned, without waiting for the previous Serve call to return
}

// Violation found by a monitor.
type Violation struct {
	Property string            `json:"property"`
	Kind     string            `json:"kind"`
	Text     string            `json:"text"`
	Sig      map[string]string `json:"sig"`
}

// RunResult is the outcome of one run.
type RunResult struct {
	Violations []Violation              `json:"violations"`
	Events     []Event                  `json:"-"`
	Steps      int                      `json:"steps"`   // schedule steps applied
	Skipped    int                      `json:"skipped"` // schedule steps that could not be applied
	Callbacks  int                      `json:"callbacks"`
	Note       string                   `json:"note,omitempty"`
	SkippedBy  map[string]int           `json:"skipped_by,omitempty"`
	Obs        []ObsEvent               `json:"obs,omitempty"`
	Conf       []map[string]interface{} `json:"conf,omitempty"` // trace for TraceSched (implementation-level validation against ResSched)
}

// groupTargets maps a model group to real API targets.
var groupRID = map[string]string{"g1": "test.r.a", "g2": "test.q.b", "par": "test.par.c", "g3": "test.sub.x.d", "g4": "test.adm.x", "g5": "test.sub.late.e", "g6": "test", "g7": "test.lib.s1.b1", "g8": "test.u.7"}
var groupID = map[string]string{"g1": "test.r.a", "g2": "grp.b", "par": "", "g3": "deep.d", "g4": "ten.adm", "g5": "test.sub.late.e", "g6": "test", "g7": "bk.b1", "g8": "u.7"}

// Scenario is one service instance with monitors.
type Scenario struct {
	tr    *Tracer
	svc   *res.Service
	conn  *rconn.Conn
	prog  Program
	occ   sync.Map // group -> *int32
	viol  []Violation
	vmu   sync.Mutex
	ncb   int32
	race  bool
	mem   map[string]*int // per-group unsynchronised scratch memory (race runs)
	memMu sync.Mutex

	expect    sync.Map // callback id -> the worker group it must run in
	slow      sync.Map // callback id -> stays inside for a while
	serveDone chan error
	wg        sync.WaitGroup
	pwg       sync.WaitGroup // producers and API callers only
	panics    int32
	nqe       int32
}

func (sc *Scenario) violate(prop, kind, text string, sig map[string]string) {
	sc.vmu.Lock()
	defer sc.vmu.Unlock()
	if sig == nil {
		sig = map[string]string{}
	}
	sig["kind"] = kind
	sig["engine"] = "sched"
	sc.viol = append(sc.viol, Violation{Property: prop, Kind: kind, Text: text, Sig: sig})
}

// body is executed by every harness callback.
func (sc *Scenario) body(cb string, group string) {
	atomic.AddInt32(&sc.ncb, 1)
	if v, ok := sc.expect.Load(cb); ok && v.(string) != group {
		sc.violate("C01", "wrong-group", fmt.Sprintf("callback %s ran in worker group %q, its resource belongs to group %q", cb, group, v.(string)), map[string]string{"group": v.(string)})
		group = v.(string) // occupancy is judged for the group the resource belongs to
	}
	var ctr *int32
	if v, ok := sc.occ.Load(group); ok {
		ctr = v.(*int32)
	} else {
		v, _ := sc.occ.LoadOrStore(group, new(int32))
		ctr = v.(*int32)
	}
	n := atomic.AddInt32(ctr, 1)
	if n > 1 && group != "" {
		sc.violate("C01", "group-overlap", fmt.Sprintf("two callbacks of group %q executing at once (callback %s entered while another was inside)", group, cb), map[string]string{"group": group})
	}
	sc.tr.Log("cb.start", cb, group)
	if sc.race && group != "" {
		// state touched only from this group's callbacks: needs no user synchronisation (C16)
		sc.memMu.Lock()
		p := sc.mem[group]
		if p == nil {
			p = new(int)
			sc.mem[group] = p
		}
		sc.memMu.Unlock()
		_ = p
	}
	sc.tr.Gate("cb.body", cb)
	if _, ok := sc.slow.Load(cb); ok {
		time.Sleep(250 * time.Microsecond)
	}
	if group != "" && sc.tr.Suspect(group) {
		// two work items of this group were seen alive together: stay inside long enough for the
		// other one to be picked up, so that the overlap - if the scheduler allows it - is observed
		time.Sleep(2 * time.Millisecond)
	}
	sc.tr.Log("cb.end", cb, group)
	atomic.AddInt32(ctr, -1)
}

// NewScenario builds the service.
func NewScenario(tr *Tracer, prog Program) *Scenario {
	sc := &Scenario{tr: tr, prog: prog, mem: map[string]*int{}}
	if sc.prog.Workers <= 0 {
		sc.prog.Workers = 2
	}
	if sc.prog.Cycles <= 0 {
		sc.prog.Cycles = 1
	}
	s := res.NewService("test")
	s.SetLogger(nil)
	if sc.prog.InCh%2 == 1 {
		// a logger, and an OnError hook that looks at the service (what a monitoring hook does)
		s.SetLogger(logger.NewMemLogger())
		s.SetOnError(func(sv *res.Service, msg string) { _ = sv.Conn(); _ = sv.ProtocolVersion() })
	}
	s.SetWorkerCount(sc.prog.Workers)
	s.SetQueryEventDuration(2 * time.Millisecond)
	if sc.prog.InCh > 0 {
		s.SetInChannelSize(sc.prog.InCh)
	}
	// a handler that had started answers its request - also while the service is being shut down - without a panic
	replying := func(cb string, reply func()) {
		defer func() {
			if v := recover(); v != nil {
				sc.violate("C03", "reply-panic", fmt.Sprintf("the reply of callback %s panicked: %v", cb, v), map[string]string{"panic": fmt.Sprint(v)})
				panic(v)
			}
		}()
		reply()
	}
	handler := func(r res.GetRequest) {
		// the reply inbox carries the callback id
		sc.body(cbFromQuery(r.Query()), r.Group())
		replying(cbFromQuery(r.Query()), r.NotFound)
	}
	call := func(r res.CallRequest) {
		sc.body(cbFromQuery(r.Query()), r.Group())
		replying(cbFromQuery(r.Query()), func() { r.OK(nil) })
	}
	acc := res.Access(func(r res.AccessRequest) {
		sc.body(cbFromQuery(r.Query()), r.Group())
		replying(cbFromQuery(r.Query()), r.AccessGranted)
	})
	s.Handle("r.$id", res.GetResource(handler), res.Call("m", call), acc)
	s.Handle("q.$id", res.GetResource(handler), res.Call("m", call), acc, res.Group("grp.${id}"))
	s.Handle("par.$id", res.GetResource(handler), res.Call("m", call), acc, res.Parallel(true))
	// a second resource pattern whose literal group coincides with the ${id} group of test.q.b
	s.Handle("s.$id", res.GetResource(handler), res.Call("m", call), acc, res.Group("grp.b"))
	// a mounted route and a sibling placeholder pattern with a ${tag} group: names under "adm" that
	// match nothing in the mount fall back to the placeholder pattern and share the group "ten.adm"
	s.Route("adm", func(m *res.Mux) { m.Handle("settings", res.GetResource(handler), res.Call("m", call), acc) })
	s.Handle("$tenant.$doc", res.GetResource(handler), res.Call("m", call), acc, res.Group("ten.${tenant}"))
	sub := res.NewMux("sub")
	sub.Handle("x.$id", res.GetResource(handler), res.Call("m", call), acc, res.Group("deep.${id}"))
	s.Mount("", sub)
	// registered on the service after the mount, with a pattern that passes through the mount point:
	// no Group option, so every resource is its own worker group
	s.Handle("sub.late.$id", res.GetResource(handler), res.Call("m", call), acc)
	// a group option that spells out the handler's own pattern (without the service name)
	s.Handle("u.$id", res.GetResource(handler), res.Call("m", call), acc, res.Group("u.${id}"))
	// a group built from a tag whose name starts like the name of an earlier tag of the pattern
	s.Handle("lib.$bookshelf.$book", res.GetResource(handler), res.Call("m", call), acc, res.Group("bk.${book}"))
	// the resource whose name is the service name itself (handler on the mux root), default group
	s.Handle("", res.GetResource(handler), res.Call("m", call), acc)
	sc.svc = s
	return sc
}

func cbFromQuery(q string) string { return strings.TrimPrefix(q, "cb=") }

// submit performs one submission on the calling goroutine.
func (sc *Scenario) submit(cb string, sub Sub) {
	if sub.Kind == "pause" {
		// not a submission: the producer lets the workers catch up
		time.Sleep(time.Duration(40+len(cb)*7%160) * time.Microsecond)
		return
	}
	rid := groupRID[sub.Group]
	gid := groupID[sub.Group]
	if sub.Group == "g2" && len(cb)%2 == 0 {
		rid = "test.s.7" // another resource of the same worker group
	}
	if sub.Group == "g7" && len(cb)%2 == 0 {
		rid = "test.lib.s2.b1" // another shelf, the same book: the same worker group
	}
	if sub.Group == "g4" && len(cb)%2 == 0 {
		rid = "test.adm.y" // enters the mounted "adm" mux, matches nothing there, falls back to $tenant.$doc
	}
	if sub.Group == "g6" && (sub.Kind == "get" || sub.Kind == "call" || sub.Kind == "access") {
		sub.Kind = "with" // a wildcard subscription does not carry requests for the bare service name
	}
	if sub.Kind != "withgroup" && sub.Kind != "nomatch" {
		sc.expect.Store(cb, gid)
	}
	if sub.Slow {
		sc.slow.Store(cb, true)
	}
	sc.tr.Log("sub.call", cb, gid, sub.Kind)
	switch sub.Kind {
	case "with":
		err := sc.svc.With(rid, func(r res.Resource) { sc.body(cb, r.Group()) })
		if err != nil {
			sc.violate("C02", "with-error", fmt.Sprintf("With(%q) returned %v although a handler matches", rid, err), nil)
		}
	case "nested":
		// the callback itself submits work for another group before it returns
		err := sc.svc.With(rid, func(r res.Resource) {
			sc.body(cb, r.Group())
			ncb, ng := cb+"n", "nest."+cb // a group of its own: always a new work item
			sc.tr.Log("sub.call", ncb, ng, "withgroup")
			sc.svc.WithGroup(ng, func(*res.Service) { sc.body(ncb, ng) })
			sc.tr.Log("sub.ret", ncb)
		})
		if err != nil {
			sc.violate("C02", "with-error", fmt.Sprintf("With(%q) returned %v although a handler matches", rid, err), nil)
		}
	case "withres":
		r, err := sc.svc.Resource(rid)
		if err != nil {
			sc.violate("C02", "with-error", fmt.Sprintf("Resource(%q) returned %v although a handler matches", rid, err), nil)
			return
		}
		sc.svc.WithResource(r, func() { sc.body(cb, r.Group()) })
	case "withgroup":
		sc.svc.WithGroup(gid, func(*res.Service) { sc.body(cb, gid) })
	case "get", "call", "access":
		subj := "get." + rid
		if sub.Kind == "call" {
			subj = "call." + rid + ".m"
		}
		if sub.Kind == "access" {
			subj = "access." + rid
		}
		conn := sc.conn
		if n, _ := conn.Deliver(subj, "inbox."+cb, []byte(`{"query":"cb=`+cb+`"}`)); n > 0 {
			sc.tr.Log("delivered", cb, fmt.Sprintf("%p", conn))
		}
	case "nomatch":
		// resource ids no handler matches: an unknown name, and names that merely start with the service name
		rid := []string{"test.nothing.here.at.all", "testr.a", "test-q.b", "tes.r.a", "testpar.c", "test2"}[len(cb)%6]
		if err := sc.svc.With(rid, func(res.Resource) { sc.body(cb, "nomatch") }); err == nil {
			sc.violate("C02", "with-no-error", "With on a resource id without handler returned nil", nil)
		}
	}
	sc.tr.Log("sub.ret", cb)
}

func (sc *Scenario) guard(role string, f func()) {
	sc.wg.Add(1)
	isProd := role != "serve" && role != "sd" && role != "sdc"
	if isProd {
		sc.pwg.Add(1)
	}
	go func() {
		defer sc.wg.Done()
		if isProd {
			defer sc.pwg.Done()
		}
		sc.tr.Register(role)
		defer sc.tr.Unregister()
		defer func() {
			if v := recover(); v != nil {
				atomic.AddInt32(&sc.panics, 1)
				buf := make([]byte, 2048)
				buf = buf[:runtime.Stack(buf, false)]
				kind := "api-panic"
				sc.violate("C03", kind, fmt.Sprintf("%s panicked: %v", role, v), map[string]string{"role": strings.TrimRight(role, "0123456789"), "panic": fmt.Sprint(v)})
			}
		}()
		f()
	}()
}

func (sc *Scenario) api(kind string) {
	switch kind {
	case "reset":
		sc.svc.Reset([]string{"test.r.a"}, nil)
	case "resetall":
		sc.svc.ResetAll()
	case "token":
		sc.svc.TokenEvent("cid1", map[string]string{"u": "x"})
	case "tokenid":
		sc.svc.TokenEventWithID("cid1", "tid", nil)
	case "tokenreset":
		sc.svc.TokenReset("auth.test.m", "tid")
	case "event":
		r, err := sc.svc.Resource("test.r.a")
		if err == nil {
			r.Event("custom", nil)
		}
	case "queryevent":
		// a query event that expires a few milliseconds later - often after the service was stopped.
		// Its final callback (nil) is a callback of the resource's group like any other.
		r, err := sc.svc.Resource("test.r.a")
		if err != nil {
			return
		}
		id := fmt.Sprintf("qe%d", atomic.AddInt32(&sc.nqe, 1))
		var returned int32
		r.QueryEvent(func(qr res.QueryRequest) {
			if qr != nil || atomic.LoadInt32(&returned) == 0 {
				return // (a refused QueryEvent calls back on the caller's goroutine before it returns)
			}
			g := r.Group()
			v, _ := sc.occ.LoadOrStore(g, new(int32))
			ctr := v.(*int32)
			if n := atomic.AddInt32(ctr, 1); n > 1 {
				sc.violate("C01", "group-overlap", fmt.Sprintf("the final callback of query event %s ran while another callback of group %q was inside", id, g), map[string]string{"group": g})
			}
			sc.tr.Log("qe.nil", id, g)
			time.Sleep(50 * time.Microsecond)
			sc.tr.Log("qe.nilend", id, g)
			atomic.AddInt32(ctr, -1)
		})
		atomic.StoreInt32(&returned, 1)
	}
}

// Start launches the role goroutines of one cycle. Each parks at its first
// harness gate when gates are active.
func (sc *Scenario) Start(cycle int) {
	sc.conn = rconn.New(nil)
	for _, fc := range sc.prog.FailSubCycles {
		if fc == cycle {
			sc.conn.FailSub = func(string) error { return fmt.Errorf("subscription refused") }
		}
	}
	sc.serveDone = make(chan error, 1)
	conn := sc.conn
	done := sc.serveDone
	if sc.prog.OnServeUs > 0 {
		if cycle == 0 {
			d := time.Duration(sc.prog.OnServeUs) * time.Microsecond
			sc.svc.SetOnServe(func(*res.Service) { time.Sleep(d) })
		} else {
			sc.svc.SetOnServe(nil)
		}
	}
	sc.guard("serve", func() {
		sc.tr.Gate("serve.call")
		sc.tr.Log("serve.go")
		err := sc.svc.Serve(conn)
		sc.tr.Log("serve.ret", fmt.Sprint(err))
		done <- err
	})
	for name, subs := range sc.prog.Producers {
		name, subs := name, subs
		if cycle > 0 {
			continue // producers span cycles
		}
		sc.guard(name, func() {
			for k, sb := range subs {
				sc.submit(fmt.Sprintf("%s-%d", name, k+1), sb)
			}
		})
	}
	if cycle == 0 {
		for i, kind := range sc.prog.Api {
			kind := kind
			sc.guard(fmt.Sprintf("a%d", i+1), func() {
				sc.tr.Gate("api.call", kind)
				sc.api(kind)
				sc.tr.Log("api.ret", kind)
			})
		}
	}
}

// StartShutdown launches the Shutdown caller of the current cycle.
func (sc *Scenario) StartShutdown(res chan<- time.Duration) { sc.startShutdown("sd", res) }

// StartCleanupShutdown stops the service after a run (not part of the schedule under test).
func (sc *Scenario) StartCleanupShutdown(res chan<- time.Duration) { sc.startShutdown("sdc", res) }

func (sc *Scenario) startShutdown(role string, res chan<- time.Duration) {
	sc.guard(role, func() {
		sc.tr.Gate("sd.call")
		t0 := time.Now()
		sc.tr.Log("sd.begin")
		err := sc.svc.Shutdown()
		sc.tr.Log("sd.ret", fmt.Sprint(err))
		if res != nil {
			res <- time.Since(t0)
		}
	})
}

// goroutineDump returns the stacks of all goroutines (for hang reports).
func goroutineDump() string {
	buf := make([]byte, 1<<20)
	buf = buf[:runtime.Stack(buf, true)]
	return string(buf)
}

// hangKind inspects a dump taken when Shutdown did not return.
func hangKind(dump string) string {
	inWait := strings.Contains(dump, "(*Service).Shutdown") && strings.Contains(dump, "sync.(*WaitGroup).Wait")
	parked := strings.Contains(dump, "(*Service).startWorker") && strings.Contains(dump, "sync.(*Cond).Wait")
	switch {
	case inWait && parked:
		return "shutdown-hang:workers-parked"
	case inWait:
		return "shutdown-hang:workers-busy"
	}
	return "shutdown-hang:other"
}

// Package pattern is the C17 engine: the real pattern operations are run on a
// bounded-exhaustive and a random input space and every observed result is
// judged by TLC against the reference grammar ResPattern.tla.
package pattern

import (
	"fmt"
	"math/rand"
	"sort"
	"strings"

	res "github.com/jirenius/go-res"
	"github.com/jirenius/go-res/store"

	"verif/internal/core"
)

type rec = map[string]interface{}

// roughly well-formed: what is worth sending to TLC for binary operations
func plausible(s string) bool {
	if s == "" {
		return true
	}
	for _, t := range strings.Split(s, ".") {
		if t == "" {
			return false
		}
	}
	return !strings.ContainsAny(s, "? ")
}

func realValidPart(s string) (ok bool) {
	pv := core.Catch(func() { res.Call(s, nil) })
	return pv == nil
}

func realValidPath(s string) bool {
	return core.Catch(func() { res.NewMux(s) }) == nil
}

func pairs(m map[string]string) [][]interface{} {
	keys := make([]string, 0, len(m))
	for k := range m {
		keys = append(keys, k)
	}
	sort.Strings(keys)
	out := make([][]interface{}, 0, len(m))
	for _, k := range keys {
		out = append(out, []interface{}{core.Chars(k), core.Chars(m[k])})
	}
	return out
}

// classify gives the signature "kind" of a failing record.
func classify(r rec) string {
	op := r["op"].(string)
	p, _ := r["ps"].(string)
	mid := false
	for _, t := range strings.Split(p, ".") {
		if len(t) > 1 && strings.ContainsAny(t[1:], "$*>") {
			mid = true
		}
	}
	if mid {
		return op + ":special-char-inside-token"
	}
	return op + ":other"
}

// Run executes the C17 check.
func Run(c *core.Ctx) {
	c.SetLevel("model_checking")
	c.Assume("strings are compared as sequences of characters; every character outside 33..126 is one class (INV)")
	c.Assume("operations documented as undefined on invalid patterns/names are only required not to be judged there")

	// (M) the grammar's own relations, exhaustively
	cfg := "MCPattern.cfg"
	if c.Thorough() {
		cfg = "MCPatternThorough.cfg"
	}
	mr := core.ModelCheck(c, "MCPattern", cfg, core.TLCOpts{Timeout: 0})
	core.ModelMustHold(c, mr, "MCPattern")

	// (B3) real operations judged by the reference
	alphabet := []string{"a", "b", ".", "$", "*", ">", "?", " "}
	unaryLen := c.Pick(4, 5)
	pairLen := c.Pick(3, 4)
	var recs []interface{}
	panics := 0
	strs := core.AllStrings(alphabet, unaryLen)
	for _, s := range strs {
		r := rec{"ps": s, "p": core.Chars(s)}
		var v, rid, iw interface{}
		if pv := core.Catch(func() {
			v = res.Pattern(s).IsValid()
			rid = res.IsValidRID(s)
			iw = res.Pattern(s).IndexWildcard()
		}); pv != nil {
			panics++
			c.Violate(core.Violation{Signature: map[string]string{"engine": "pattern", "kind": "panic:unary", "input": s}, Text: fmt.Sprintf("panic in IsValid/IsValidRID/IndexWildcard(%q): %v", s, pv), Replay: r})
			continue
		}
		recs = append(recs,
			rec{"op": "valid", "ps": s, "p": r["p"], "got": v},
			rec{"op": "rid", "ps": s, "p": r["p"], "got": rid},
			rec{"op": "path", "ps": s, "p": r["p"], "got": realValidPath(s)},
			rec{"op": "iw", "ps": s, "p": r["p"], "got": iw},
		)
		if s != "*" { // Call("*") is the documented catch-all method, not a name part
			recs = append(recs, rec{"op": "part", "ps": s, "p": r["p"], "got": realValidPart(s)})
		}
	}
	nUnary := len(recs)
	// binary: all plausible pairs up to pairLen, plus seeded random longer ones
	balpha := []string{"a", "b", ".", "$", "*", ">"}
	var cand []string
	for _, s := range core.AllStrings(balpha, pairLen) {
		if plausible(s) {
			cand = append(cand, s)
		}
	}
	rng := rand.New(rand.NewSource(c.Seed))
	randStr := func(maxTok int) string {
		toks := []string{"a", "b", "ab", "$x", "$y", "$id", "*", "a$b", "a*", "x$", "$$a", "c"}
		n := 1 + rng.Intn(maxTok)
		var ts []string
		for i := 0; i < n; i++ {
			ts = append(ts, toks[rng.Intn(len(toks))])
		}
		if rng.Intn(4) == 0 {
			ts = append(ts, ">")
		}
		return strings.Join(ts, ".")
	}
	type pr struct{ p, n string }
	var prs []pr
	for _, p := range cand {
		for _, n := range cand {
			// all pairs of strings of up to 3 characters; of the pairs that involve a 4-character string
			// (thorough tier) a seeded fifth - the full product is beyond what TLC judges in its time limit
			if (len(p) > 3 || len(n) > 3) && rng.Intn(5) != 0 {
				continue
			}
			prs = append(prs, pr{p, n})
		}
	}
	for i := 0; i < c.Pick(3000, 40000); i++ {
		prs = append(prs, pr{randStr(5), randStr(6)})
	}
	tagvals := []string{"a", "b.c", "$x", "", "*", "zz"}
	for _, q := range prs {
		p, n := q.p, q.n
		var m bool
		var vals map[string]string
		var vok bool
		if pv := core.Catch(func() {
			m = res.Pattern(p).Matches(n)
			vals, vok = res.Pattern(p).Values(n)
		}); pv != nil {
			panics++
			if res.Pattern(p).IsValid() && plausible(n) {
				c.Violate(core.Violation{Signature: map[string]string{"engine": "pattern", "kind": "panic:matches", "p": p, "n": n}, Text: fmt.Sprintf("panic in Matches/Values(%q,%q): %v", p, n, pv), Replay: q})
			}
			continue
		}
		recs = append(recs,
			rec{"op": "matches", "ps": p, "ns": n, "p": core.Chars(p), "n": core.Chars(n), "got": m},
			rec{"op": "values", "ps": p, "ns": n, "p": core.Chars(p), "n": core.Chars(n), "ok": vok, "vals": pairs(vals)},
		)
	}
	nBinary := len(recs) - nUnary
	// replace: every candidate pattern with a few tag maps
	nrep := 0
	for _, p := range cand {
		if !strings.Contains(p, "$") {
			continue
		}
		for k := 0; k < 3; k++ {
			m := map[string]string{}
			for _, name := range []string{"a", "b", "x", "$a", "a.b"} {
				if rng.Intn(2) == 0 {
					m[name] = tagvals[rng.Intn(len(tagvals))]
				}
			}
			var got res.Pattern
			if pv := core.Catch(func() { got = res.Pattern(p).ReplaceTags(m) }); pv != nil {
				panics++
				if res.Pattern(p).IsValid() {
					c.Violate(core.Violation{Signature: map[string]string{"engine": "pattern", "kind": "panic:replace", "p": p}, Text: fmt.Sprintf("panic in ReplaceTags(%q,%v): %v", p, m, pv), Replay: rec{"p": p, "m": m}})
				}
				continue
			}
			recs = append(recs, rec{"op": "replace", "ps": p, "p": core.Chars(p), "m": pairs(m), "ms": m, "got": core.Chars(string(got))})
			nrep++
		}
	}
	// single-tag replacement: every candidate pattern, every tag name that occurs after a "$" anywhere in it
	for _, p := range cand {
		if !strings.Contains(p, "$") {
			continue
		}
		tags := map[string]bool{"x": true}
		for i := 0; i < len(p); i++ {
			if p[i] == '$' {
				rest := p[i+1:]
				if j := strings.IndexByte(rest, '.'); j >= 0 {
					rest = rest[:j]
				}
				tags[rest] = true
				if len(rest) > 1 {
					tags[rest[1:]] = true
				}
			}
		}
		for tag := range tags {
			if tag == "" {
				continue
			}
			for _, val := range []string{"v", "q.r", "$z"} {
				var got res.Pattern
				if pv := core.Catch(func() { got = res.Pattern(p).ReplaceTag(tag, val) }); pv != nil {
					panics++
					if res.Pattern(p).IsValid() {
						c.Violate(core.Violation{Signature: map[string]string{"engine": "pattern", "kind": "panic:replace", "p": p}, Text: fmt.Sprintf("panic in ReplaceTag(%q,%q,%q): %v", p, tag, val, pv), Replay: rec{"p": p, "tag": tag}})
					}
					continue
				}
				recs = append(recs, rec{"op": "replace", "ps": p, "p": core.Chars(p), "m": [][]interface{}{{core.Chars(tag), core.Chars(val)}}, "ms": map[string]string{tag: val}, "got": core.Chars(string(got))})
				nrep++
			}
		}
	}
	// several tags at once, with values that themselves look like tags of the same map (the result
	// must not depend on map iteration order: each map is tried many times)
	for _, p := range []string{"$a.$b", "$b.$a", "x.$a.$b", "$a.$b.$x", "$a.y.$b", "$x.$a"} {
		for _, m := range []map[string]string{
			{"a": "$b", "b": "x"}, {"a": "$b", "b": "$a"}, {"a": "$x", "x": "1", "b": "$a"}, {"b": "$a.$a", "a": "q"}, {"a": "v", "b": "w", "x": "$b"},
		} {
			for rep := 0; rep < 12; rep++ {
				var got res.Pattern
				if pv := core.Catch(func() { got = res.Pattern(p).ReplaceTags(m) }); pv != nil {
					c.Violate(core.Violation{Signature: map[string]string{"engine": "pattern", "kind": "panic:replace", "p": p}, Text: fmt.Sprintf("panic in ReplaceTags(%q,%v): %v", p, m, pv), Replay: rec{"p": p, "m": m}})
					break
				}
				recs = append(recs, rec{"op": "replace", "ps": p, "p": core.Chars(p), "m": pairs(m), "ms": m, "got": core.Chars(string(got))})
				nrep++
			}
		}
	}
	// extraction substituted back: names whose tokens look like tags
	for _, q := range []pr{{"$a.$b", "$b.x"}, {"$a.$b", "$b.$a"}, {"$x.$a.$b", "$a.$b.$x"}, {"$a.b.$b", "$b.b.$a"}} {
		for rep := 0; rep < 12; rep++ {
			vals, ok := res.Pattern(q.p).Values(q.n)
			if !ok {
				break
			}
			got := res.Pattern(q.p).ReplaceTags(vals)
			recs = append(recs, rec{"op": "replace", "ps": q.p, "p": core.Chars(q.p), "m": pairs(vals), "ms": vals, "got": core.Chars(string(got))})
			nrep++
		}
	}
	// the ID transformer over several patterns (tag in the middle, literal tokens containing "$")
	for _, pat := range []string{"lib.book.$id", "lib.$id.page", "a$id.$id", "lib.b$id", "x.y$id"} {
		for _, id := range []string{"42", "a", "$q", "id"} {
			tr := store.IDTransformer("id", nil)
			var rid string
			if pv := core.Catch(func() { rid = tr.IDToRID(id, nil, res.Pattern(pat)) }); pv != nil {
				continue
			}
			recs = append(recs, rec{"op": "replace", "ps": pat, "p": core.Chars(pat), "m": [][]interface{}{{core.Chars("id"), core.Chars(id)}}, "ms": map[string]string{"id": id}, "got": core.Chars(rid)})
			nrep++
		}
	}
	// one transformer value serving several patterns in turn (a handler option registered for two resources)
	for _, order := range [][]string{{"lib.book.$id", "lib.archive.$id.info", "lib.book.$id"}, {"a.$id", "b.$id.c", "$id.z", "a.$id"}, {"lib.$id.$id", "lib.x.$id"}, {"lib.x", "lib.$id"}} {
		tr := store.IDTransformer("id", nil)
		for _, pat := range order {
			for _, id := range []string{"42", "a"} {
				var rid string
				if pv := core.Catch(func() { rid = tr.IDToRID(id, nil, res.Pattern(pat)) }); pv != nil {
					continue
				}
				recs = append(recs, rec{"op": "replace", "ps": pat, "p": core.Chars(pat), "m": [][]interface{}{{core.Chars("id"), core.Chars(id)}}, "ms": map[string]string{"id": id}, "got": core.Chars(rid)})
				nrep++
			}
		}
	}
	// id -> rid -> id through IDTransformer and real routing
	ids := core.AllStrings([]string{"a", "$", "-", "b", "{"}, 3)
	ids = append(ids, "a.b", "*", ">", "a?", "x y", "42", "$id", "$$")
	nid := 0
	for _, id := range ids {
		if id == "" {
			continue
		}
		tr := store.IDTransformer("id", nil)
		var back string
		ok := false
		pv := core.Catch(func() {
			rid := tr.IDToRID(id, nil, res.Pattern("lib.book.$id"))
			mux := res.NewMux("lib")
			mux.Handle("book.$id")
			if h := mux.GetHandler(rid); h != nil {
				back = tr.RIDToID(rid, h.Params)
				ok = true
			}
			// the service's own entry point routes the resource id the same way
			svc := res.NewService("lib")
			svc.SetLogger(nil)
			svc.Handle("book.$id", res.GetResource(func(r res.GetRequest) { r.NotFound() }))
			r, err := svc.Resource(rid)
			if !realValidPart(id) {
				// (an id with '?', '.', white space ... is no name part: a resource id built from it means something else)
			} else if (err == nil) != ok {
				c.Violate(core.Violation{Signature: map[string]string{"engine": "pattern", "kind": "routing-disagrees", "id": id}, Text: fmt.Sprintf("Mux.GetHandler(%q) matches=%v but Service.Resource says %v", rid, ok, err), Replay: rec{"id": id, "rid": rid}})
			} else if err == nil && r.PathParam("id") != back {
				c.Violate(core.Violation{Signature: map[string]string{"engine": "pattern", "kind": "routing-disagrees", "id": id}, Text: fmt.Sprintf("Service.Resource(%q) has id parameter %q, the transformer gives back %q", rid, r.PathParam("id"), back), Replay: rec{"id": id, "rid": rid}})
			}
		})
		if pv != nil {
			if realValidPart(id) {
				c.Violate(core.Violation{Signature: map[string]string{"engine": "pattern", "kind": "panic:idrt", "id": id}, Text: fmt.Sprintf("panic in id round trip for %q: %v", id, pv), Replay: rec{"id": id}})
			}
			continue
		}
		recs = append(recs, rec{"op": "idrt", "ids": id, "id": core.Chars(id), "ok": ok, "got": core.Chars(back)})
		nid++
		// the same round trip where the id's token position is also a mount point of the mux: names that enter
		// the mounted mux without matching there fall back to the pattern with the tag
		if realValidPart(id) {
			var back2 string
			ok2 := false
			pv := core.Catch(func() {
				tr2 := store.IDTransformer("id", nil)
				rid := tr2.IDToRID(id, nil, res.Pattern("lib.$id.info.x"))
				mux := res.NewMux("lib")
				sub := res.NewMux("")
				sub.Handle("$bid.pages")
				mux.Mount("a", sub)
				mux.Route("b", func(m *res.Mux) { m.Handle("$bid.info.y") })
				mux.Handle("$id.info.x")
				if h := mux.GetHandler(rid); h != nil {
					back2 = tr2.RIDToID(rid, h.Params)
					ok2 = true
				}
			})
			if pv == nil {
				recs = append(recs, rec{"op": "idrt", "ids": id, "id": core.Chars(id), "ok": ok2, "got": core.Chars(back2)})
				nid++
			}
		}
	}
	// routing of a mux with a path agrees with the full pattern: a name is routed to the (only) handler exactly
	// when the pattern path.<handler pattern> matches it - in particular not when the name merely starts with
	// the characters of the path
	for _, mp := range []string{"a", "a.b", "ab"} {
		for _, hp := range []string{"$x", "b.$x", "$x.a"} {
			full := mp + "." + hp
			var mux *res.Mux
			if core.Catch(func() { mux = res.NewMux(mp); mux.Handle(hp) }) != nil {
				continue
			}
			for _, n := range core.AllStrings([]string{"a", "b", ".", "$"}, 5) {
				if n == "" {
					continue
				}
				matched := false
				if pv := core.Catch(func() { matched = mux.GetHandler(n) != nil }); pv != nil {
					continue
				}
				recs = append(recs, rec{"op": "matches", "ps": full, "ns": n, "p": core.Chars(full), "n": core.Chars(n), "got": matched})
				nid++
			}
		}
	}
	// the pattern a handler is told it was registered with (OnRegister: what store handlers build resource ids
	// from) is the pattern it is routed by - also when it was registered on a mux before that was mounted
	for _, local := range []string{"item.$id", "*.item.$id", "$a.*.$id", "*.*.$id.x", "$id.*", "x.$id.*.$b", "*", "$id", "a.>", "*.$id.>"} {
		for _, arrangement := range []int{0, 1, 2} {
			var told []string
			opt := res.OnRegister(func(_ *res.Service, p res.Pattern, _ res.Handler) { told = append(told, string(p)) })
			want := ""
			pv := core.Catch(func() {
				svc := res.NewService("svc")
				svc.SetLogger(nil)
				switch arrangement {
				case 0: // directly on the service
					svc.Handle(local, opt)
					want = "svc." + local
				case 1: // on a mux that is mounted afterwards
					m := res.NewMux("")
					m.Handle(local, opt)
					svc.Mount("sub", m)
					want = "svc.sub." + local
				default: // two levels, mounted bottom-up, the inner mux with a path of its own
					inner, outer := res.NewMux("in"), res.NewMux("")
					inner.Handle(local, opt)
					outer.Mount("mid", inner)
					svc.Mount("up", outer)
					want = "svc.up.mid.in." + local
				}
			})
			if pv != nil {
				continue // (the registration itself is judged by the routing check)
			}
			if len(told) != 1 || told[0] != want {
				c.Violate(core.Violation{Signature: map[string]string{"engine": "pattern", "kind": "onregister-pattern", "p": local}, Text: fmt.Sprintf("handler registered as %q (arrangement %d) was told its pattern is %q, it is routed by %q", local, arrangement, told, want), Replay: rec{"p": local, "arrangement": arrangement}})
			} else {
				nid++
			}
		}
	}
	bad := 0
	core.CheckRecords(c, "TracePattern", "TracePattern.cfg", recs, nil, func(i int, r interface{}, inv string) {
		m := r.(rec)
		bad++
		sig := map[string]string{"engine": "pattern", "kind": classify(m), "op": m["op"].(string)}
		if s, ok := m["ps"].(string); ok {
			sig["p"] = s
		}
		if s, ok := m["ns"].(string); ok {
			sig["n"] = s
		}
		c.Violate(core.Violation{Signature: sig, Text: fmt.Sprintf("pattern operation disagrees with the token-wise grammar: %v", m), Replay: m})
	})
	c.Cover("traces_validated_against_impl", len(recs))
	c.Cover("evaluations", len(recs))
	c.Cover("records_unary", nUnary)
	c.Cover("records_binary", nBinary)
	c.Cover("records_replace", nrep)
	c.Cover("records_idrt", nid)
	c.Cover("panics_on_undefined_inputs", panics)
	c.Cover("exhaustive", true)
	c.Cover("rule", fmt.Sprintf("every string of length<=%d over %v for validity/index operations; every pair of well-tokenised strings of length<=%d over %v for Matches/Values plus seeded random longer pairs; one record per real call, judged by TLC (TracePattern.Conforms)", unaryLen, alphabet, pairLen, balpha))
	for _, i := range []int{7, nUnary + 11, len(recs) - 1} {
		if i >= 0 && i < len(recs) {
			c.Sample(recs[i])
		}
	}
}

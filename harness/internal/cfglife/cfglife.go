// Package cfglife binds ResConfig.tla to the real Service: behaviours of the specification (setter
// calls, Serve, Shutdown over several lives of one Service value) are replayed on the real code, what
// the running service works with is observed after every step, and TLC judges every run (TraceConfig).
package cfglife

import (
	"encoding/json"
	"fmt"
	"math/rand"
	"sort"
	"strconv"
	"strings"
	"sync/atomic"
	"time"

	res "github.com/jirenius/go-res"

	"verif/internal/core"
	"verif/internal/rconn"
	"verif/internal/sched"
)

type rec = map[string]interface{}

// concrete values of the abstract Vals 0, 1, 2 (0 is what a new service has)
var (
	durVals    = []time.Duration{3 * time.Second, 5 * time.Millisecond, 400 * time.Millisecond}
	workerVals = []int{0, 1, 3} // 0: "use the default" (32)
	workerObs  = []int{32, 1, 3}
	inchVals   = []int{0, 2, 5} // 0: "use the default" (1024)
	inchObs    = []int{1024, 2, 5}
	queueVals  = []string{"test", "qa", ""}
	ownedRes   = [][]string{nil, {"test.a.>"}, {"test.b.>"}}
	ownedAcc   = [][]string{nil, {"test.a.>"}, {}}
	// what the ownership values look like from outside (default: everything below the service name)
	ownedResObs = []string{"test,test.>", "test.a.>", "test.b.>"}
	ownedAccObs = []string{"test,test.>", "test.a.>", ""}
)

// which property a judged field belongs to
var fieldProp = map[string]string{"workers": "C03", "inch": "C03", "panic": "C03", "queue": "C09", "subs": "C09", "reset": "C09", "dur": "C15", "conn": "C08"}

func abstractInt(v int, obs []int) int {
	for i, o := range obs {
		if o == v {
			return i
		}
	}
	return 99
}

func abstractOwned(rs, as []string) int {
	sort.Strings(rs)
	sort.Strings(as)
	r, a := strings.Join(rs, ","), strings.Join(as, ",")
	for i := range ownedResObs {
		if ownedResObs[i] == r && ownedAccObs[i] == a {
			return i
		}
	}
	return 99
}

type world struct {
	s      *res.Service
	conn   *rconn.Conn
	done   chan error
	exits  int32
	nserve int
	conns  []*rconn.Conn
	kept   res.Resource // obtained in the first life, used in every later one
}

func newWorld() *world {
	w := &world{}
	s := res.NewService("test")
	s.SetLogger(nil)
	get := res.GetResource(func(r res.GetRequest) { r.NotFound() })
	s.Handle("a.$id", get, res.Access(res.AccessGranted))
	s.Handle("b.$id", get, res.Access(res.AccessGranted))
	s.Handle("q", res.GetCollection(func(r res.CollectionRequest) { r.Collection([]int{}) }))
	w.s = s
	return w
}

func (w *world) lastReset() int {
	ms := w.conn.PubsOn("system.reset")
	if len(ms) == 0 {
		return 99
	}
	var p struct {
		Resources []string `json:"resources"`
		Access    []string `json:"access"`
	}
	if json.Unmarshal(ms[len(ms)-1].Data, &p) != nil {
		return 99
	}
	return abstractOwned(p.Resources, p.Access)
}

// eventConn sends a custom event through the Resource value kept from the first life and tells which
// life's connection it went out on.
func (w *world) eventConn() int {
	if w.kept == nil {
		r, err := w.s.Resource("test.a.1")
		if err != nil {
			return 99
		}
		w.kept = r
	}
	mark := fmt.Sprintf("m%d", len(w.conns))
	done := make(chan struct{})
	w.s.WithResource(w.kept, func() {
		defer close(done)
		core.Catch(func() { w.kept.Event("custom", map[string]string{"mark": mark}) })
	})
	select {
	case <-done:
	case <-time.After(2 * time.Second):
		return 99
	}
	for i, c := range w.conns {
		for _, m := range c.PubsOn("event.test.a.1.custom") {
			if strings.Contains(string(m.Data), mark) {
				return i + 1
			}
		}
	}
	return 99
}

// measureDur starts a query event and tells whether it ended early ("short") or not ("long").
func (w *world) measureDur() string {
	t0 := time.Now()
	var nilAt, refAt int64
	time.AfterFunc(5*time.Millisecond, func() { atomic.StoreInt64(&refAt, int64(time.Since(t0))) })
	started := make(chan struct{})
	err := w.s.With("test.q", func(r res.Resource) {
		r.QueryEvent(func(qr res.QueryRequest) {
			if qr == nil {
				atomic.StoreInt64(&nilAt, int64(time.Since(t0)))
			}
		})
		close(started)
	})
	if err != nil {
		return "unobserved"
	}
	select {
	case <-started:
	case <-time.After(2 * time.Second):
		return "unobserved"
	}
	deadline := t0.Add(150 * time.Millisecond)
	for time.Now().Before(deadline) && atomic.LoadInt64(&nilAt) == 0 {
		time.Sleep(time.Millisecond)
	}
	ref := time.Duration(atomic.LoadInt64(&refAt))
	if ref == 0 || ref > 60*time.Millisecond || time.Since(t0) > 250*time.Millisecond {
		return "unobserved" // the machine is too busy for timers to mean anything right now
	}
	if n := time.Duration(atomic.LoadInt64(&nilAt)); n != 0 && n < 150*time.Millisecond {
		return "short"
	}
	return "long"
}

// run replays one behaviour and returns its record.
func run(steps []sched.Step, src string, measure bool) (rec, error) {
	w := newWorld()
	res.VerifHook = func(p string, a ...interface{}) {
		if p == "wk.exit" {
			atomic.AddInt32(&w.exits, 1)
		}
	}
	defer func() { res.VerifHook = nil }()
	evs := []rec{}
	started := false
	var dbg []string
	for _, st := range steps {
		dbg = append(dbg, st.Action+"("+st.Proc+")")
		switch st.Action {
		case "Set":
			parts := strings.SplitN(st.Proc, ",", 2)
			if len(parts) != 2 {
				return nil, fmt.Errorf("cannot parse step %v", st)
			}
			x := strings.Trim(strings.TrimSpace(parts[0]), `"`)
			v, err := strconv.Atoi(strings.TrimSpace(parts[1]))
			if err != nil || v < 0 || v > 2 {
				return nil, fmt.Errorf("cannot parse step %v", st)
			}
			pv := core.Catch(func() {
				switch x {
				case "dur":
					w.s.SetQueryEventDuration(durVals[v])
				case "workers":
					w.s.SetWorkerCount(workerVals[v])
				case "inch":
					w.s.SetInChannelSize(inchVals[v])
				case "queue":
					w.s.SetQueueGroup(queueVals[v])
				case "owned":
					w.s.SetOwnedResources(ownedRes[v], ownedAcc[v])
				}
			})
			evs = append(evs, rec{"a": "set", "x": x, "v": v, "panic": pv != nil})
			if started {
				w.s.ResetAll()
				evs = append(evs, rec{"a": "probe", "reset": w.lastReset()})
			}
		case "Serve":
			w.conn = rconn.New(nil)
			w.done = make(chan error, 1)
			served := make(chan struct{})
			w.s.SetOnServe(func(*res.Service) { close(served) })
			go func(c *rconn.Conn, d chan error) { d <- w.s.Serve(c) }(w.conn, w.done)
			select {
			case <-served:
			case err := <-w.done:
				return nil, fmt.Errorf("Serve returned %v [%s]", err, strings.Join(dbg, " "))
			case <-time.After(5 * time.Second):
				return nil, fmt.Errorf("Serve did not start [%s]", strings.Join(dbg, " "))
			}
			started = true
			w.nserve++
			atomic.StoreInt32(&w.exits, 0)
			w.conns = append(w.conns, w.conn)
			e := rec{"a": "serve", "conn": w.eventConn(), "inch": 99, "queue": 99, "subs": 99, "reset": w.lastReset(), "dur": "unobserved"}
			var rs, as []string
			queues := map[string]bool{}
			for i, sb := range w.conn.Subs() {
				if i == 0 {
					e["inch"] = abstractInt(cap(sb.Ch), inchObs)
				}
				queues[sb.Queue] = true
				if strings.HasPrefix(sb.Subject, "get.") {
					rs = append(rs, strings.TrimPrefix(sb.Subject, "get."))
				}
				if strings.HasPrefix(sb.Subject, "access.") {
					as = append(as, strings.TrimPrefix(sb.Subject, "access."))
				}
			}
			e["subs"] = abstractOwned(rs, as)
			if e["subs"] == 99 || e["reset"] == 99 {
				var last string
				if ms := w.conn.PubsOn("system.reset"); len(ms) > 0 {
					last = string(ms[len(ms)-1].Data)
				}
				dbg = append(dbg, fmt.Sprintf("[subscribed get %v access %v, reset %s]", rs, as, last))
			}
			if len(queues) == 1 {
				for q := range queues {
					for i, qv := range queueVals {
						if qv == q {
							e["queue"] = i
						}
					}
				}
			}
			if measure && w.nserve <= 3 {
				e["dur"] = w.measureDur()
			}
			evs = append(evs, e)
		case "Shutdown":
			w.s.Shutdown()
			select {
			case <-w.done:
			case <-time.After(5 * time.Second):
				return nil, fmt.Errorf("Serve did not return after Shutdown [%s]", strings.Join(dbg, " "))
			}
			started = false
			evs = append(evs, rec{"a": "shutdown", "workers": abstractInt(int(atomic.LoadInt32(&w.exits)), workerObs)})
		}
	}
	if started {
		w.s.Shutdown()
		select {
		case <-w.done:
		case <-time.After(5 * time.Second):
		}
	}
	return rec{"judge": "all", "evs": evs, "dbg": src + ": " + strings.Join(dbg, " ")}, nil
}

// Run replays behaviours of ResConfig and reports the deviations that concern c.Property.
func Run(c *core.Ctx) {
	core.ModelMustHold(c, core.ModelCheck(c, "ResConfig", "MCConfig.cfg", core.TLCOpts{}), "MCConfig")
	var recs []interface{}
	add := func(r rec, err error) {
		if err != nil {
			c.Violate(core.Violation{Signature: map[string]string{"engine": "cfglife", "kind": "life-cycle-failed"}, Text: err.Error(), Replay: err.Error()})
			return
		}
		recs = append(recs, r)
	}
	// the counterexample of the model in which every setting is carried over from the first life
	if r, err := core.RunTLC(core.TLCOpts{Module: "ResConfig", Cfg: "MCConfigLead.cfg", Workers: 1, Timeout: 2 * time.Minute}); err == nil && r != nil {
		for _, e := range r.Errors {
			if len(e.Actions) > 0 {
				add(run(stepsOf(e.Actions), "counterexample of MCConfigLead", true))
			}
		}
	}
	// directed: every setting changed between two lives, one at a time and all together
	for v := 1; v <= 2; v++ {
		for _, x := range []string{"dur", "workers", "inch", "queue", "owned", "*"} {
			var st []sched.Step
			set := func(val int) {
				for _, y := range []string{"dur", "workers", "inch", "queue", "owned"} {
					if x == "*" || x == y {
						st = append(st, sched.Step{Action: "Set", Proc: fmt.Sprintf("%q,%d", y, val)})
					}
				}
			}
			if v == 1 {
				set(2)
			} // (v == 2: the first life runs with what a new service has)
			st = append(st, sched.Step{Action: "Serve"}, sched.Step{Action: "Shutdown"})
			set(v)
			st = append(st, sched.Step{Action: "Serve"})
			set(0) // setters called on the running service
			st = append(st, sched.Step{Action: "Shutdown"}, sched.Step{Action: "Serve"}, sched.Step{Action: "Shutdown"})
			add(run(st, "directed", true))
		}
	}
	// behaviours of the specification
	rng := rand.New(rand.NewSource(c.Seed))
	for i, b := range sched.SimulateModule(c, "ResConfig", "MCConfigSim.cfg", c.Pick(30, 300), 16, c.Seed) {
		add(run(b, fmt.Sprintf("tlc -simulate MCConfigSim #%d", i), rng.Intn(3) == 0))
	}
	var bad []int
	core.CheckRecords(c, "TraceConfig", "TraceConfig.cfg", recs, nil, func(i int, r interface{}, inv string) { bad = append(bad, i) })
	if len(bad) > 0 {
		var recs2 []interface{}
		var which []string
		for _, i := range bad {
			for f := range fieldProp {
				r2 := rec{}
				for k, v := range recs[i].(rec) {
					r2[k] = v
				}
				r2["judge"] = f
				recs2 = append(recs2, r2)
				which = append(which, f)
			}
		}
		core.CheckRecords(c, "TraceConfig", "TraceConfig.cfg", recs2, nil, func(j int, r interface{}, inv string) {
			if fieldProp[which[j]] != c.Property {
				return // reported by the check of the property that field belongs to
			}
			m := r.(rec)
			c.Violate(core.Violation{Signature: map[string]string{"engine": "cfglife", "kind": "config:" + which[j]},
				Text:   fmt.Sprintf("the running service does not work with the configured %s: %v [%v]", which[j], m["evs"], m["dbg"]),
				Replay: m})
		})
	}
	c.Cover("config_runs_judged", len(recs))
	c.Cover("config_rule", "behaviours of ResConfig (tlc -simulate, the counterexample of the carried-over model, directed two-life runs) replayed on one real Service value: after every step the channel capacity, queue group, subscription subjects, announced ownership, ended workers and the query event duration class are observed and judged by TLC (TraceConfig.RunOK)")
}

func stepsOf(actions []string) []sched.Step {
	var out []sched.Step
	for _, a := range actions {
		name, proc := a, ""
		if i := strings.IndexByte(a, '('); i > 0 {
			name = a[:i]
			proc = strings.TrimSuffix(a[i+1:], ")")
		}
		out = append(out, sched.Step{Action: name, Proc: proc})
	}
	return out
}

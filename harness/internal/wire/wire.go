// Package wire is the C18 engine: abstract JSON values are written out as JSON
// texts (key order, whitespace, extra members, awkward strings) and fed to the
// real codec functions - store.Value (classification, equality), res.Ref /
// res.SoftRef, resprot.MarshalDataValue / UnmarshalDataValue - and responses
// published by a real service are parsed with resprot; every observation is a
// record judged by TLC against ResWire.tla.
package wire

import (
	"sync/atomic"
	"bytes"
	"encoding/json"
	"fmt"
	"io"
	"math/rand"
	"reflect"
	"strings"
	"time"
	"unicode/utf8"

	res "github.com/jirenius/go-res"
	"github.com/jirenius/go-res/resprot"
	"github.com/jirenius/go-res/store"

	"verif/internal/core"
	"verif/internal/rconn"
)

type rec = map[string]interface{}

// string pool: value, and whether it is a valid resource id (decided here, independently)
var strPool = []struct {
	s     string
	valid bool
}{
	{"a.b", true}, {"test.model.42", true}, {"delete", true}, {"x?q=1&r=2", true}, {"", false}, {"bad rid", false},
	{"a..b", false}, {"a.*", false}, {`q"uote`, true}, {"back\\slash", true}, {"uni-é☃", false}, {"tab\there", false},
	{"a.>", false}, {".a", false}, {"a.", false}, {"<>&", false}, {"lt<amp&", true}, {"$x.y", true},
}

// abstract JSON constructors
func jNull() rec        { return rec{"k": "null"} }
func jBool(b bool) rec  { return rec{"k": "bool", "b": b} }
// numbers are atoms for the reference: their JSON text
func jNum(n int) rec     { return rec{"k": "num", "n": fmt.Sprint(n)} }
func jNumS(t string) rec { return rec{"k": "num", "n": t} }
func jStr(i int) rec    { return rec{"k": "str", "s": strPool[i].s, "validrid": strPool[i].valid} }
func jArr(a ...rec) rec { return rec{"k": "arr", "a": append([]rec{}, a...)} }
func jObj(m ...[]interface{}) rec {
	ms := [][]interface{}{}
	ms = append(ms, m...)
	return rec{"k": "obj", "m": ms}
}

// text writes j as JSON text; style varies whitespace.
func text(j rec, rng *rand.Rand) string {
	sp := func() string {
		if rng == nil {
			return ""
		}
		return []string{"", "", " ", "\n", "\t ", "  "}[rng.Intn(6)]
	}
	switch j["k"] {
	case "null":
		return "null"
	case "bool":
		return fmt.Sprint(j["b"])
	case "num":
		return fmt.Sprint(j["n"])
	case "str":
		b, _ := json.Marshal(j["s"])
		return string(b)
	case "arr":
		var parts []string
		for _, e := range j["a"].([]rec) {
			parts = append(parts, sp()+text(e, rng)+sp())
		}
		return "[" + strings.Join(parts, ",") + "]"
	default:
		var parts []string
		for _, kv := range j["m"].([][]interface{}) {
			kb, _ := json.Marshal(kv[0])
			parts = append(parts, sp()+string(kb)+sp()+":"+sp()+text(kv[1].(rec), rng)+sp())
		}
		return "{" + strings.Join(parts, ",") + "}"
	}
}

func toGo(j rec) interface{} {
	var v interface{}
	json.Unmarshal([]byte(text(j, nil)), &v)
	return v
}

// chunkReader hands out one chunk per Read, so that a decoder reuses its buffer between values.
type chunkReader struct{ chunks [][]byte }

func (r *chunkReader) Read(p []byte) (int, error) {
	if len(r.chunks) == 0 {
		return 0, io.EOF
	}
	n := copy(p, r.chunks[0])
	if n < len(r.chunks[0]) {
		r.chunks[0] = r.chunks[0][n:]
	} else {
		r.chunks = r.chunks[1:]
	}
	return n, nil
}

func classifyReal(txt string) (string, string) {
	var v store.Value
	if err := json.Unmarshal([]byte(txt), &v); err != nil {
		return "invalid", ""
	}
	switch v.Type {
	case store.ValueTypePrimitive:
		return "primitive", ""
	case store.ValueTypeReference:
		return "ref", v.RID
	case store.ValueTypeSoftReference:
		return "softref", v.RID
	case store.ValueTypeData:
		return "data", ""
	case store.ValueTypeDelete:
		return "delete", ""
	}
	return "none", ""
}

func randValue(rng *rand.Rand, depth int) rec {
	switch n := rng.Intn(8); {
	case n == 0:
		return jNull()
	case n == 1:
		return jBool(rng.Intn(2) == 0)
	case n == 2:
		return jNum(rng.Intn(3))
	case n <= 4:
		return jStr(rng.Intn(len(strPool)))
	case n == 5 && depth > 0:
		return jArr(randValue(rng, depth-1), randValue(rng, depth-1))
	case depth > 0:
		return randObj(rng, depth-1)
	}
	return jNum(7)
}

var memberKeys = []string{"rid", "soft", "action", "data", "other"}

func randObj(rng *rand.Rand, depth int) rec {
	var ms [][]interface{}
	perm := rng.Perm(len(memberKeys))
	n := rng.Intn(4)
	for i := 0; i < n; i++ {
		k := memberKeys[perm[i]]
		var v rec
		switch {
		case k == "rid" && rng.Intn(3) != 0:
			v = jStr(rng.Intn(len(strPool)))
		case k == "soft" && rng.Intn(3) != 0:
			v = jBool(rng.Intn(2) == 0)
		case k == "action" && rng.Intn(2) == 0:
			v = jStr(2) // "delete"
		default:
			v = randValue(rng, depth)
		}
		ms = append(ms, []interface{}{k, v})
	}
	return jObj(ms...)
}

// Run executes the C18 check.
func Run(c *core.Ctx) {
	c.SetLevel("model_checking")
	c.Assume("strings and numbers are atoms for TLC; that marshalling is right for every UTF-8 string is exercised through a pool (quotes, backslashes, control characters, non-ASCII, HTML characters) and compared with encoding/json - an exploration-level part of this otherwise model-checked property")
	core.ModelMustHold(c, core.ModelCheck(c, "MCWire", "MCWire.cfg", core.TLCOpts{}), "MCWire")
	rng := rand.New(rand.NewSource(c.Seed))
	var recs []interface{}
	// (1) classification: all objects with <= 2 members from the alphabet x key orders, plus random deeper values
	var vals []rec
	prims := []rec{jNull(), jBool(true), jBool(false), jNum(1), jArr(jNum(1)), jObj([]interface{}{"x", jNum(1)})}
	for i := range strPool {
		prims = append(prims, jStr(i))
	}
	vals = append(vals, prims...)
	vals = append(vals, jArr(), jObj())
	for _, k1 := range memberKeys {
		for _, v1 := range prims {
			vals = append(vals, jObj([]interface{}{k1, v1}))
			for _, k2 := range memberKeys {
				if k2 == k1 {
					continue
				}
				for _, v2 := range prims {
					if rng.Intn(c.Pick(6, 1)) == 0 {
						vals = append(vals, jObj([]interface{}{k1, v1}, []interface{}{k2, v2}))
					}
				}
			}
		}
	}
	for i := 0; i < c.Pick(400, 8000); i++ {
		vals = append(vals, randValue(rng, 2))
	}
	texts := make([]string, len(vals))
	for i, j := range vals {
		txt := text(j, rng)
		texts[i] = txt
		cls, rid := classifyReal(txt)
		recs = append(recs, rec{"op": "classify", "j": j, "cls": cls, "rid": rid, "dbg": txt})
	}
	// the same texts decoded one after the other into ONE store.Value (a loop variable, a struct field): every
	// decode stands for itself, whatever was decoded into the value before - delete actions in particular
	var shared store.Value
	delTxt := `{"action":"delete"}`
	for i, j := range vals {
		if i%4 == 1 {
			json.Unmarshal([]byte(delTxt), &shared) // a delete action right before
		}
		cls, rid := "invalid", ""
		if err := json.Unmarshal([]byte(texts[i]), &shared); err == nil {
			switch shared.Type {
			case store.ValueTypePrimitive:
				cls = "primitive"
			case store.ValueTypeReference:
				cls, rid = "ref", shared.RID
			case store.ValueTypeSoftReference:
				cls, rid = "softref", shared.RID
			case store.ValueTypeData:
				cls = "data"
			case store.ValueTypeDelete:
				cls = "delete"
			default:
				cls = "none"
			}
			// what was decoded marshals to a text that decodes to the same kind of value
			if b, err := json.Marshal(shared); err != nil {
				cls = "unmarshalable:" + cls
			} else if c2, _ := classifyReal(string(b)); c2 != cls {
				cls = "remarshal-" + c2 + ":" + cls
			}
		}
		recs = append(recs, rec{"op": "classify", "j": j, "cls": cls, "rid": rid, "dbg": "decoded into a reused Value: " + texts[i]})
	}
	if b, err := json.Marshal(store.DeleteValue); err != nil || string(b) != delTxt {
		recs = append(recs, rec{"op": "classify", "j": jObj([]interface{}{"action", jStr(0)}), "cls": "store.DeleteValue marshals to " + string(b), "rid": "", "dbg": "the package's delete value after the decodes"})
	}
	// numbers that differ only beyond what a float64 holds, alone and inside data values
	near := [][2]string{{"9007199254740993", "9007199254740992"}, {"0.1", "0.10000000000000000001"}, {"123456789012345678901", "123456789012345678902"}, {"1", "1"}}
	var nearPairs [][2]int
	for _, np := range near {
		for _, wrap := range []func(rec) rec{
			func(x rec) rec { return x },
			func(x rec) rec { return jObj([]interface{}{"data", jObj([]interface{}{"v", x})}) },
			func(x rec) rec { return jObj([]interface{}{"data", jArr(jNum(1), x)}) },
			func(x rec) rec { return jObj([]interface{}{"data", x}) },
		} {
			vals = append(vals, wrap(jNumS(np[0])), wrap(jNumS(np[1])))
			texts = append(texts, text(vals[len(vals)-2], rng), text(vals[len(vals)-1], rng))
			nearPairs = append(nearPairs, [2]int{len(vals) - 2, len(vals) - 1})
		}
	}
	// (2) equality on pairs
	for i := 0; i < c.Pick(1500, 30000)+len(nearPairs); i++ {
		a, b := rng.Intn(len(vals)), rng.Intn(len(vals))
		if i < len(nearPairs) {
			a, b = nearPairs[i][0], nearPairs[i][1]
		}
		if rng.Intn(4) == 0 {
			b = a
		}
		ta, tb := texts[a], texts[b]
		if rng.Intn(3) == 0 {
			tb = text(vals[b], rng) // another writing of the same value
		}
		var va, vb store.Value
		// both values are parsed from one receive buffer that is reused afterwards (directly, or through a decoder)
		buf := make([]byte, 0, len(ta)+len(tb)+2)
		buf = append(buf, ta...)
		var ea, eb error
		if rng.Intn(2) == 0 {
			ea = json.Unmarshal(buf, &va)
			buf = append(buf[:0], tb...)
			eb = json.Unmarshal(buf, &vb)
		} else {
			ea = json.NewDecoder(&chunkReader{chunks: [][]byte{[]byte(ta + "\n"), []byte(tb + "\n")}}).Decode(&va)
			dec := json.NewDecoder(&chunkReader{chunks: [][]byte{[]byte(tb + " "), []byte(ta + " "), []byte(`"zzzzzzzzzzzzzzzzzzzzzzzzzzzzzzzzzzzzzzzz"`)}})
			eb = dec.Decode(&vb)
			var skip1, skip2 store.Value
			dec.Decode(&skip1)
			dec.Decode(&skip2)
		}
		if ea != nil || eb != nil {
			continue
		}
		ma1, _ := json.Marshal(va)
		mb1, _ := json.Marshal(vb)
		for k := range buf {
			buf[k] = 'x'
		}
		ma2, _ := json.Marshal(va)
		mb2, _ := json.Marshal(vb)
		var fa, fb store.Value
		json.Unmarshal([]byte(ta), &fa)
		json.Unmarshal([]byte(tb), &fb)
		stable := bytes.Equal(ma1, ma2) && bytes.Equal(mb1, mb2) && va.Equal(fa) && fa.Equal(va) && vb.Equal(fb) && fb.Equal(vb) && va.Type == fa.Type && vb.Type == fb.Type
		recs = append(recs, rec{"op": "equal", "a": vals[a], "b": vals[b], "eqab": va.Equal(vb), "eqba": vb.Equal(va), "eqaa": va.Equal(va), "sametext": ta == tb, "stable": stable, "dbg": ta + " vs " + tb})
	}
	// (3) references
	extra := []string{"ctl\x01\x1f", " line", "emoji😀.x", "a\"b\\c", "<script>&amp;", "héllo.wörld", strings.Repeat("long.", 50) + "x"}
	var ss []string
	for _, p := range strPool {
		ss = append(ss, p.s)
	}
	ss = append(ss, extra...)
	for i := 0; i < c.Pick(50, 2000); i++ {
		var b []rune
		for k := 0; k < rng.Intn(12); k++ {
			b = append(b, []rune{'a', '.', '"', '\\', 'é', '☃', '\n', 0x7f, '😀', '<', '/', 0x1}[rng.Intn(12)])
		}
		ss = append(ss, string(b))
	}
	for _, s := range ss {
		if !utf8.ValidString(s) {
			continue
		}
		ok := true
		why := ""
		check := func(name string, data []byte, err error, soft bool) {
			if err != nil {
				ok, why = false, name+" marshal error "+err.Error()
				return
			}
			var m map[string]interface{}
			if json.Unmarshal(data, &m) != nil {
				ok, why = false, name+" marshals to invalid JSON "+string(data)
				return
			}
			want := map[string]interface{}{"rid": s}
			if soft {
				want["soft"] = true
			}
			if !reflect.DeepEqual(m, want) {
				ok, why = false, fmt.Sprintf("%s marshals to %s", name, data)
			}
		}
		d1, e1 := json.Marshal(res.Ref(s))
		check("Ref", d1, e1, false)
		d2, e2 := json.Marshal(res.SoftRef(s))
		check("SoftRef", d2, e2, true)
		var r res.Ref
		var sr res.SoftRef
		if e1 == nil && (json.Unmarshal(d1, &r) != nil || string(r) != s) {
			ok, why = false, "Ref does not unmarshal back"
		}
		if e2 == nil && (json.Unmarshal(d2, &sr) != nil || string(sr) != s) {
			ok, why = false, "SoftRef does not unmarshal back"
		}
		recs = append(recs, rec{"op": "ref", "ok": ok, "dbg": fmt.Sprintf("%q %s", s, why)})
	}
	// (4) data values
	for i, j := range vals {
		if i%3 != 0 && !c.Thorough() {
			continue
		}
		gv := toGo(j)
		data, err := resprot.MarshalDataValue(gv)
		if err != nil {
			recs = append(recs, rec{"op": "datavalue", "j": j, "roundtrip": false, "wrapped": false, "dbg": "marshal error " + err.Error()})
			continue
		}
		var back interface{}
		rt := resprot.UnmarshalDataValue(data, &back) == nil && reflect.DeepEqual(back, gv)
		// and through text with surrounding whitespace
		var back2 interface{}
		rt = rt && resprot.UnmarshalDataValue([]byte(" \n\t"+string(data)+" "), &back2) == nil && reflect.DeepEqual(back2, gv)
		recs = append(recs, rec{"op": "datavalue", "j": j, "roundtrip": rt, "wrapped": strings.HasPrefix(string(data), `{"data":`), "dbg": string(data)})
		// the same value handed over as JSON text that is already encoded (json.RawMessage): any legal spelling of it
		raw := json.RawMessage([]string{" ", "", "\n\t "}[(i/3)%3] + text(j, rng) + []string{"", " "}[i%2])
		data3, err := resprot.MarshalDataValue(raw)
		if err != nil {
			recs = append(recs, rec{"op": "datavalue", "j": j, "roundtrip": false, "wrapped": false, "dbg": "marshal error on RawMessage " + err.Error()})
			continue
		}
		var back3 interface{}
		rt3 := resprot.UnmarshalDataValue(data3, &back3) == nil && reflect.DeepEqual(back3, gv)
		recs = append(recs, rec{"op": "datavalue", "j": j, "roundtrip": rt3, "wrapped": strings.HasPrefix(strings.TrimSpace(string(data3)), `{"data":`), "dbg": fmt.Sprintf("RawMessage %q -> %s", raw, data3)})
	}
	// (5) envelopes of real responses
	recs = append(recs, envelopes(c, rng)...)
	for i := 0; i < c.Pick(6, 40); i++ {
		recs = append(recs, queryEnvelopes(i)...)
	}
	core.CheckRecords(c, "TraceWire", "TraceWire.cfg", recs, nil, func(i int, r interface{}, inv string) {
		m := r.(rec)
		c.Violate(core.Violation{Signature: map[string]string{"engine": "wire", "kind": fmt.Sprint(m["op"])},
			Text: fmt.Sprintf("wire codec deviates from the protocol reference (%v): %v", m["op"], trim(m)), Replay: m})
	})
	c.Cover("traces_validated_against_impl", len(recs))
	c.Cover("evaluations", len(recs))
	c.Cover("rule", "JSON texts of abstract values (all objects with <=1 member and a 1/6 sample (thorough: all) of 2-member objects over {rid,soft,action,data,other} x 23 member values, random values to depth 2; random whitespace and key order) classified by store.Value; random pairs for Equal; Ref/SoftRef on a string pool plus random strings; MarshalDataValue/UnmarshalDataValue round trips; responses of a real service for every handler outcome parsed by resprot; judged by TLC (TraceWire.RecordOK)")
	if len(recs) > 0 {
		c.Sample(trim(recs[len(recs)/2].(rec)))
	}
}

func trim(m rec) rec {
	out := rec{}
	for k, v := range m {
		s := fmt.Sprint(v)
		if len(s) > 240 {
			s = s[:240] + "..."
		}
		out[k] = s
	}
	return out
}

// envelopes serves a few outcomes on a real service and parses the published responses with resprot.
// queryEnvelopes: responses to query requests (event lists). Two requests on the query event of one
// resource whose callbacks are inside at the same time (a Parallel handler; for an ordinary handler the
// group serialises them): each response decodes to the events its own callback added.
func queryEnvelopes(round int) []interface{} {
	s := res.NewService("test")
	s.SetLogger(nil)
	s.SetWorkerCount(4)
	s.SetQueryEventDuration(300 * time.Millisecond)
	s.Handle("pq", res.Parallel(true), res.GetCollection(func(r res.CollectionRequest) { r.Collection([]int{}) }))
	s.Handle("nq", res.GetCollection(func(r res.CollectionRequest) { r.Collection([]int{}) }))
	conn := rconn.New(nil)
	done := make(chan error, 1)
	served := make(chan struct{})
	s.SetOnServe(func(*res.Service) { close(served) })
	go func() { done <- s.Serve(conn) }()
	select {
	case <-served:
	case <-time.After(3 * time.Second):
		return nil
	}
	defer func() { s.Shutdown(); <-done }()
	var recs []interface{}
	for _, name := range []string{"pq", "nq"} {
		var inside int32
		started := make(chan struct{})
		if s.With("test."+name, func(r res.Resource) {
			r.QueryEvent(func(qr res.QueryRequest) {
				if qr == nil {
					return
				}
				id := strings.TrimPrefix(qr.Query(), "id=")
				n := 1 + len(id)%2
				for k := 0; k < n; k++ {
					qr.(interface{ AddEvent(interface{}, int) }).AddEvent(id+fmt.Sprint(k), k)
				}
				// stay inside until the other request's callback has added its events too (or for a while)
				atomic.AddInt32(&inside, 1)
				for t := 0; t < 40 && atomic.LoadInt32(&inside) < 2; t++ {
					time.Sleep(500 * time.Microsecond)
				}
			})
			close(started)
		}) != nil {
			continue
		}
		<-started
		subj := ""
		for _, m := range conn.PubsOn("event.test." + name + ".query") {
			var p struct {
				Subject string `json:"subject"`
			}
			json.Unmarshal(m.Data, &p)
			subj = p.Subject
		}
		if round%2 == 1 {
			// a first request alone, before the two that overlap
			conn.Deliver(subj, fmt.Sprintf("inbox.q%s0", name), []byte(`{"query":"id=z"}`))
			for t := 0; t < 2000 && len(conn.PubsOn(fmt.Sprintf("inbox.q%s0", name))) == 0; t++ {
				time.Sleep(time.Millisecond)
			}
			time.Sleep(time.Millisecond)
			atomic.StoreInt32(&inside, 0)
		}
		ids := []string{"a", "bb"}
		for _, id := range ids {
			conn.Deliver(subj, "inbox.q"+name+id, []byte(`{"query":"id=`+id+`"}`))
		}
		for t := 0; t < 2000; t++ {
			if len(conn.PubsOn("inbox.q"+name+ids[0])) > 0 && len(conn.PubsOn("inbox.q"+name+ids[1])) > 0 {
				break
			}
			time.Sleep(time.Millisecond)
		}
		time.Sleep(2 * time.Millisecond)
		for _, id := range ids {
			ms := conn.PubsOn("inbox.q" + name + id)
			if len(ms) != 1 {
				recs = append(recs, rec{"op": "envelope", "classes": len(ms), "cls": "", "expect": "result", "decoded": false, "dbg": fmt.Sprintf("query request %s on test.%s got %d responses", id, name, len(ms))})
				continue
			}
			resp := resprot.ParseResponse(ms[0].Data)
			var qres resprot.QueryResult
			ok := resp.HasResult() && !resp.HasError() && !resp.HasResource() && resp.ParseResult(&qres) == nil
			n := 1 + len(id)%2
			if ok && len(qres.Events) == n {
				for k, e := range qres.Events {
					d, _ := e.Data.(map[string]interface{})
					if e.Event != "add" || d == nil || d["value"] != id+fmt.Sprint(k) || d["idx"] != float64(k) {
						ok = false
					}
				}
			} else {
				ok = false
			}
			recs = append(recs, rec{"op": "envelope", "classes": 1, "cls": "result", "expect": "result", "decoded": ok, "dbg": fmt.Sprintf("query response on test.%s for request %s (two callbacks inside together where the handler allows it): %s", name, id, ms[0].Data)})
		}
	}
	return recs
}

func envelopes(c *core.Ctx, rng *rand.Rand) []interface{} {
	type outcome struct {
		name   string
		expect string
		do     func(r res.CallRequest)
		data   interface{}
	}
	payloads := []interface{}{nil, 1.5, "s\"q", map[string]interface{}{"a": []interface{}{1.0, "x"}}, []interface{}{}, true}
	var outs []outcome
	for i, p := range payloads {
		p := p
		outs = append(outs, outcome{fmt.Sprintf("ok%d", i), "result", func(r res.CallRequest) { r.OK(p) }, p})
	}
	outs = append(outs,
		outcome{"resource", "resource", func(r res.CallRequest) { r.Resource("test.other.1") }, "test.other.1"},
		outcome{"notfound", "error", func(r res.CallRequest) { r.NotFound() }, res.CodeNotFound},
		outcome{"custom", "error", func(r res.CallRequest) { r.Error(&res.Error{Code: "custom.x", Message: "m"}) }, "custom.x"},
		outcome{"panic", "error", func(r res.CallRequest) { panic("boom") }, res.CodeInternalError},
		outcome{"silent", "error", func(r res.CallRequest) {}, res.CodeInternalError},
		outcome{"bad", "error", func(r res.CallRequest) { r.OK(make(chan int)) }, res.CodeInternalError},
	)
	// error outcomes that must arrive verbatim: code, message and data as the handler supplied them
	verbatim := []*res.Error{
		{Code: "system.invalidParams", Message: "Invalid parameters", Data: map[string]interface{}{"field": "name", "n": 2.0}},
		{Code: "system.notFound", Message: "Not found", Data: []interface{}{"a", 1.0}},
		{Code: "system.invalidQuery", Message: "Invalid query", Data: "which part"},
		{Code: "system.methodNotFound", Message: "Method not found", Data: true},
		{Code: "system.accessDenied", Message: "Access denied", Data: map[string]interface{}{}},
		{Code: "system.invalidParams", Message: "another message"},
		{Code: "custom.withdata", Message: "m", Data: map[string]interface{}{"k": []interface{}{1.0, "x"}}},
		{Code: "system.internalError", Message: "Internal error", Data: 7.0},
	}
	for i, e := range verbatim {
		e := e
		outs = append(outs,
			outcome{fmt.Sprintf("verr%d", i), "verbatim", func(r res.CallRequest) { r.Error(e) }, e},
			outcome{fmt.Sprintf("vpanic%d", i), "verbatim", func(r res.CallRequest) { panic(e) }, e})
	}
	sameError := func(got *res.Error, want interface{}) bool {
		w := want.(*res.Error)
		if got == nil || got.Code != w.Code || got.Message != w.Message {
			return false
		}
		var gd interface{}
		if b, err := json.Marshal(got.Data); err != nil || json.Unmarshal(b, &gd) != nil {
			return false
		}
		return reflect.DeepEqual(gd, w.Data)
	}
	s := res.NewService("test")
	s.SetLogger(nil)
	s.SetWorkerCount(1)
	for _, o := range outs {
		o := o
		withMeta := func(status, header bool) res.CallHandler {
			return func(r res.CallRequest) {
				if status {
					r.SetResponseStatus(201)
				}
				if header {
					r.ResponseHeader().Set("X-Test", "1")
				}
				o.do(r)
			}
		}
		s.Handle("e."+o.name, res.Call("m", o.do), res.Call("hstatus", withMeta(true, false)), res.Call("hheader", withMeta(false, true)), res.Call("hboth", withMeta(true, true)), res.GetModel(func(r res.ModelRequest) {
			r.Model(map[string]interface{}{"v": o.data})
		}))
	}
	conn := rconn.New(nil)
	done := make(chan error, 1)
	rq := make(chan string, 64)
	res.VerifHook = func(p string, a ...interface{}) {
		if p == "rq.done" && len(a) > 1 {
			select {
			case rq <- fmt.Sprint(a[1]):
			default:
			}
		}
	}
	defer func() { res.VerifHook = nil }()
	served := make(chan struct{})
	s.SetOnServe(func(*res.Service) { close(served) })
	go func() { done <- s.Serve(conn) }()
	select {
	case <-served:
	case <-time.After(3 * time.Second):
		return nil
	}
	defer func() { s.Shutdown(); <-done }()
	var recs []interface{}
	for i, o := range outs {
		// the same outcome on a request flagged as HTTP whose handler sets meta (status / header) first
		for mv, metaName := range []string{"status", "header", "both"} {
			if o.name == "panic" || o.name == "silent" || o.name == "bad" {
				continue
			}
			hinbox := fmt.Sprintf("inbox.h%d_%d", i, mv)
			conn.Deliver("call.test.e."+o.name+".h"+metaName, hinbox, []byte(`{"isHttp":true}`))
			select {
			case <-rq:
			case <-time.After(2 * time.Second):
				continue
			}
			hm := conn.PubsOn(hinbox)
			if len(hm) != 1 {
				continue
			}
			hr := resprot.ParseResponse(hm[0].Data)
			classes, cls := 0, ""
			if hr.HasResult() {
				classes++
				cls = "result"
			}
			if hr.HasResource() {
				classes++
				cls = "resource"
			}
			if hr.HasError() {
				classes++
				cls = "error"
			}
			decoded := false
			switch o.expect {
			case "result":
				var v interface{}
				decoded = hr.ParseResult(&v) == nil && reflect.DeepEqual(v, o.data)
			case "resource":
				decoded = string(hr.Resource) == o.data
			case "error":
				decoded = hr.Error != nil && hr.Error.Code == o.data
			case "verbatim":
				decoded = sameError(hr.Error, o.data)
			}
			expect := o.expect
			if expect == "verbatim" {
				expect = "error"
			}
			recs = append(recs, rec{"op": "envelope", "classes": classes, "cls": cls, "expect": expect, "decoded": decoded, "dbg": "http+" + metaName + ": " + string(hm[0].Data)})
		}
		inbox := fmt.Sprintf("inbox.e%d", i)
		conn.Deliver("call.test.e."+o.name+".m", inbox, nil)
		select {
		case <-rq:
		case <-time.After(2 * time.Second):
			continue
		}
		ms := conn.PubsOn(inbox)
		if len(ms) != 1 {
			continue
		}
		resp := resprot.ParseResponse(ms[0].Data)
		classes := 0
		cls := ""
		if resp.HasResult() {
			classes++
			cls = "result"
		}
		if resp.HasResource() {
			classes++
			cls = "resource"
		}
		if resp.HasError() {
			classes++
			cls = "error"
		}
		decoded := false
		switch o.expect {
		case "result":
			var v interface{}
			decoded = resp.ParseResult(&v) == nil && reflect.DeepEqual(v, o.data)
		case "resource":
			decoded = string(resp.Resource) == o.data
		case "error":
			decoded = resp.Error != nil && resp.Error.Code == o.data
		case "verbatim":
			decoded = sameError(resp.Error, o.data)
		}
		expect := o.expect
		if expect == "verbatim" {
			expect = "error"
		}
		recs = append(recs, rec{"op": "envelope", "classes": classes, "cls": cls, "expect": expect, "decoded": decoded, "dbg": string(ms[0].Data)})
		if o.expect == "verbatim" {
			continue // no get variant for error outcomes
		}
		// a get response through ParseModel
		ginbox := fmt.Sprintf("inbox.g%d", i)
		conn.Deliver("get.test.e."+o.name, ginbox, nil)
		select {
		case <-rq:
		case <-time.After(2 * time.Second):
			continue
		}
		gm := conn.PubsOn(ginbox)
		if len(gm) == 1 {
			gr := resprot.ParseResponse(gm[0].Data)
			var model map[string]interface{}
			_, err := gr.ParseModel(&model)
			want := o.data
			if _, isChan := want.(chan int); isChan {
				continue
			}
			ok := err == nil && reflect.DeepEqual(model["v"], want)
			recs = append(recs, rec{"op": "envelope", "classes": 1, "cls": "result", "expect": "result", "decoded": ok && gr.HasResult() && !gr.HasError() && !gr.HasResource(), "dbg": string(gm[0].Data)})
		}
	}
	return recs
}

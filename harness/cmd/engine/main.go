// Command engine is the single program behind every check in MANIFEST.json.
//
//	engine <property> [--tier quick|thorough] [--replay path]
package main

import (
	"fmt"
	"runtime/debug"
	"os"

	"verif/internal/cfglife"
	"verif/internal/core"
	"verif/internal/crash"
	"verif/internal/legacy"
	"verif/internal/muxdiff"
	"verif/internal/pattern"
	"verif/internal/qevent"
	"verif/internal/racer"
	"verif/internal/reqsim"
	"verif/internal/sched"
	"verif/internal/sendreq"
	"verif/internal/storesim"
	"verif/internal/subs"
	"verif/internal/wire"
)

var checks = map[string]func(*core.Ctx){
	"C01": func(c *core.Ctx) { sched.Run(c); qevent.RunGroupClause(c) },
	"C02": sched.Run,
	"C03": func(c *core.Ctx) { withConfig(c, sched.Run) },
	"C04": reqsim.Run,
	"C05": reqsim.Run,
	"C06": muxdiff.Run,
	"C07": reqsim.Run,
	"C08": func(c *core.Ctx) { withConfig(c, reqsim.Run) },
	"C09": func(c *core.Ctx) { withConfig(c, subs.Run) },
	"C10": storesim.RunC10,
	"C11": storesim.RunC11,
	"C12": crash.Run,
	"C13": storesim.RunC13,
	"C14": storesim.RunC14,
	"C15": func(c *core.Ctx) { withConfig(c, qevent.Run) },
	"C16": racer.Run,
	"C17": pattern.Run,
	"C18": wire.Run,
	"C19": sendreq.Run,
	"C20": legacy.Run,
}

// withConfig runs the property's engine and the configuration life-cycle binding (ResConfig), which
// reports the deviations that concern the property. VERIF_ONLY=cfglife runs the latter alone.
func withConfig(c *core.Ctx, run func(*core.Ctx)) {
	if os.Getenv("VERIF_ONLY") != "cfglife" {
		run(c)
	}
	cfglife.Run(c)
}

func main() {
	if len(os.Args) < 2 {
		fmt.Println("usage: engine <property> [--tier quick|thorough] [--replay path]")
		os.Exit(2)
	}
	if os.Args[1] == "__sched" && len(os.Args) == 4 {
		sched.ChildMain(os.Args[2], os.Args[3])
		return
	}
	if os.Args[1] == "__race" && len(os.Args) == 4 {
		var seed int64
		var rounds int
		fmt.Sscan(os.Args[2], &seed)
		fmt.Sscan(os.Args[3], &rounds)
		racer.ChildMain(seed, rounds)
		return
	}
	if os.Args[1] == "__req" && len(os.Args) == 4 {
		var seed int64
		fmt.Sscan(os.Args[3], &seed)
		reqsim.ChildMain(os.Args[2], seed)
		return
	}
	if os.Args[1] == "__reqload" && len(os.Args) == 4 {
		var seed int64
		fmt.Sscan(os.Args[2], &seed)
		reqsim.LoadMain(seed, os.Args[3])
		return
	}
	if os.Args[1] == "__reqbatch" && len(os.Args) == 5 {
		var seed int64
		fmt.Sscan(os.Args[4], &seed)
		reqsim.BatchMain(os.Args[2], os.Args[3], seed)
		return
	}
	if os.Args[1] == "__crashbig" && len(os.Args) == 5 {
		crash.BigChildMain(os.Args[2], os.Args[3], os.Args[4])
		return
	}
	if os.Args[1] == "__crash" && len(os.Args) == 6 {
		var seed int64
		fmt.Sscan(os.Args[3], &seed)
		crash.ChildMain(os.Args[2], seed, os.Args[4], os.Args[5])
		return
	}
	prop := os.Args[1]
	tier, replay := "", ""
	for i := 2; i < len(os.Args); i++ {
		switch os.Args[i] {
		case "--tier":
			i++
			if i < len(os.Args) {
				tier = os.Args[i]
			}
		case "--replay":
			i++
			if i < len(os.Args) {
				replay = os.Args[i]
			}
		}
	}
	run, ok := checks[prop]
	if !ok {
		fmt.Println("unknown property", prop)
		os.Exit(2)
	}
	c := core.NewCtx(prop, tier, replay)
	func() {
		defer func() {
			if v := recover(); v != nil {
				c.Inconclusive("engine panic: %v\n%s", v, debug.Stack())
			}
		}()
		run(c)
	}()
	os.Exit(c.Finish())
}
